// Replays sieve behaviours (module Sieve) on the real process-global Sieve.
#include "drv.h"
#include <symengine/prime_sieve.h>
#include <map>
#include <memory>
#include <random>

using namespace SymEngine;
using namespace sev;

static J ints(const std::vector<unsigned> &v)
{
    J a = J::arr();
    for (auto x : v)
        a.push(J::integer(x));
    return a;
}

static void reset_sieve(unsigned seg0)
{
    Sieve::clear();
    Sieve::set_clear(true);
    Sieve::verif_set_sieve_bits(seg0);
}

static J run_steps(const J &steps, unsigned seg0)
{
    reset_sieve(seg0);
    std::map<long long, std::unique_ptr<Sieve::iterator>> its;
    J log = J::arr();
    for (auto &s : steps.a) {
        const std::string &a = s.at("a").s;
        long long k = s.at("k").i, n = s.at("n").i;
        J out = J::arr();
        if (a == "Generate") {
            std::vector<unsigned> p;
            Sieve::generate_primes(p, (unsigned)n);
            out = ints(p);
        } else if (a == "Clear") {
            Sieve::clear();
        } else if (a == "SetClear") {
            Sieve::set_clear(n != 0);
        } else if (a == "SetSegBits") {
            Sieve::verif_set_sieve_bits((unsigned)n);
        } else if (a == "SetSieveSize") {
            Sieve::set_sieve_size((unsigned)n);
        } else if (a == "IterNew") {
            if (n == 0)
                its[k].reset(new Sieve::iterator());
            else
                its[k].reset(new Sieve::iterator((unsigned)n));
        } else if (a == "IterNext") {
            out.push(J::integer(its.at(k)->next_prime()));
        } else if (a == "IterDestroy") {
            its.erase(k);
        } else
            throw std::runtime_error("sieve: bad action " + a);
        J e = J::obj();
        e.set("a", a);
        e.set("k", k);
        e.set("n", n);
        e.set("out", out);
        log.push(e);
    }
    // iterators still alive are destroyed with the clear flag off so that the
    // model needs no implicit action for them
    Sieve::set_clear(false);
    its.clear();
    reset_sieve(seg0);
    return log;
}

// {"op":"sieve","seg0":8,"steps":[{"a":..,"k":..,"n":..,"out":[..]},..]}
SEV_HANDLER(sieve)
{
    r.set("steps", run_steps(c.at("steps"), (unsigned)c.at("seg0").i));
}

// seeded random driver: {"op":"sieve_random","seed":s,"len":n,"maxlimit":m}
// generates a history itself (deeper than the model enumerates) and logs it in
// the same format; validated by the same trace specification
SEV_HANDLER(sieve_random)
{
    std::mt19937 g((unsigned)c.at("seed").i);
    int len = (int)c.at("len").i;
    unsigned maxl = (unsigned)c.at("maxlimit").i;
    auto rnd = [&](unsigned n) { return (unsigned)(g() % n); };
    J steps = J::arr();
    std::map<int, bool> alive;
    for (int i = 0; i < len; i++) {
        J s = J::obj();
        unsigned w = rnd(100);
        std::string a;
        long long k = 0, n = 0;
        if (w < 35) {
            a = "Generate";
            n = 1 + rnd(maxl);
        } else if (w < 42) {
            a = "Clear";
        } else if (w < 50) {
            a = "SetClear";
            n = rnd(2);
        } else if (w < 60) {
            a = "SetSegBits";
            static const unsigned segs[] = {2, 3, 5, 8, 16, 64};
            n = segs[rnd(6)];
        } else if (w < 62) {
            a = "SetSieveSize";
            n = 1;
        } else {
            k = 1 + rnd(3);
            if (!alive[(int)k]) {
                a = "IterNew";
                static const unsigned lims[] = {0, 0, 20, 50, 97, 400};
                n = lims[rnd(6)];
                alive[(int)k] = true;
            } else if (w < 95) {
                a = "IterNext";
                // a burst of reads, so that iterators run far ahead of the
                // ten primes that survive a clear()
                if (rnd(3) == 0) {
                    unsigned burst = 3 + rnd(40);
                    for (unsigned b = 0; b < burst; b++) {
                        J s2 = J::obj();
                        s2.set("a", a);
                        s2.set("k", k);
                        s2.set("n", 0);
                        s2.set("out", J::arr());
                        steps.push(s2);
                    }
                }
            } else {
                a = "IterDestroy";
                alive[(int)k] = false;
            }
        }
        s.set("a", a);
        s.set("k", k);
        s.set("n", n);
        s.set("out", J::arr());
        steps.push(s);
    }
    r.set("steps", run_steps(steps, 8));
}
