// Series expansion (C31).
#include "drv.h"
#include <symengine/series.h>
#include <symengine/series_generic.h>
#include <symengine/symbol.h>

using namespace SymEngine;
using namespace sev;

// {"op":"series","e":recipe,"x":name,"n":prec}
//  r.c : dumps of the coefficients of x^0 .. x^(prec-1);  r.sexc
SEV_HANDLER(series)
{
    RCP<const Basic> e = build(c.at("e"));
    RCP<const Symbol> x = symbol(c.at("x").s);
    unsigned n = (unsigned)c.at("n").i;
    J cs = J::arr();
    r.set("sexc", guarded([&] {
              RCP<const SeriesCoeffInterface> s = series(e, x, n);
              for (unsigned i = 0; i < n; i++)
                  cs.push(dump(s->get_coeff((int)i)));
          }));
    r.set("c", cs);
}
