// Concurrent use of shared immutable expressions (C41); only in builds configured WITH_SYMENGINE_THREAD_SAFE.
//  {"op":"threads","shared":[recipes],"prog":[[op, i, j]...],"threads":T,"reps":R}
//  Every thread runs the whole program R times on the SAME shared objects, started together.
//  r.seq = results of one sequential run (text per operation); r.thr[t] = {exc, same (every repetition equal to the
//  sequential texts: 1/0), first_diff}; r.counts0 / r.counts1 = use_count of the shared objects before / after;
//  r.dummies = indices of the Dummy symbols created concurrently (threads * reps of them)
#include "drv.h"
#include <symengine/symengine_config.h>
#ifdef WITH_SYMENGINE_THREAD_SAFE
#include <symengine/basic.h>
#include <symengine/symbol.h>
#include <symengine/add.h>
#include <symengine/mul.h>
#include <symengine/pow.h>
#include <symengine/visitor.h>
#include <symengine/derivative.h>
#include <symengine/subs.h>
#include <symengine/eval_double.h>
#include <symengine/printers.h>
#include <atomic>
#include <thread>
#include <chrono>
#include <sstream>

using namespace SymEngine;
using namespace sev;

namespace
{
std::string run_op1(const std::string &op, const std::vector<RCP<const Basic>> &sh, size_t i, size_t j);
// (an operation the library refuses - a deterministic exception - is a result like any other)
std::string run_op(const std::string &op, const std::vector<RCP<const Basic>> &sh, size_t i, size_t j)
{
    try {
        return run_op1(op, sh, i, j);
    } catch (SymEngineException &e) {
        return std::string("exception:") + e.what();
    }
}
std::string run_op1(const std::string &op, const std::vector<RCP<const Basic>> &sh, size_t i, size_t j)
{
    const RCP<const Basic> &a = sh[i % sh.size()], &b = sh[j % sh.size()];
    RCP<const Symbol> x = symbol("x"), y = symbol("y");
    std::ostringstream o;
    if (op == "hash")
        o << a->hash();
    else if (op == "str")
        o << a->__str__();
    else if (op == "eq")
        o << eq(*a, *b) << a->__cmp__(*b);
    else if (op == "add")
        o << add(a, b)->__str__();
    else if (op == "mul")
        o << mul(a, b)->__str__();
    else if (op == "pow")
        o << pow(a, integer(2))->__str__();
    else if (op == "sub")
        o << sub(a, b)->hash();
    else if (op == "diff")
        o << a->diff(x)->__str__();
    else if (op == "subs")
        o << a->subs({{x, add(y, integer(1))}})->__str__();
    else if (op == "expand")
        o << expand(mul(a, add(b, integer(1))))->__str__();
    else if (op == "free")
        o << free_symbols(*a).size() << has_symbol(*b, *x);
    else if (op == "evald")
        o << eval_double(*a->subs({{x, real_double(0.5)}, {y, real_double(0.25)}}));
    else if (op == "args")
        o << a->get_args().size() << (a->get_args().empty() ? std::string("-") : a->get_args()[0]->__str__());
    else
        throw std::runtime_error("unknown thread op " + op);
    return o.str();
}
} // namespace

SEV_HANDLER(threads)
{
    std::vector<RCP<const Basic>> sh;
    for (const auto &t : c.at("shared").a)
        sh.push_back(build(t));
    struct Op {
        std::string op;
        size_t i, j;
    };
    std::vector<Op> prog;
    for (const auto &p : c.at("prog").a)
        prog.push_back({p.a[0].s, (size_t)p.a[1].i, (size_t)p.a[2].i});
    size_t T = (size_t)c.geti("threads", 4), R = (size_t)c.geti("reps", 100);
    // hashes of the shared objects must not be cached yet for half of them (the lazy cache is raced for): the
    // sequential run below works on a second, separately built copy
    std::vector<RCP<const Basic>> sh2;
    for (const auto &t : c.at("shared").a)
        sh2.push_back(build(t));
    std::vector<std::string> seq;
    for (const auto &p : prog)
        seq.push_back(run_op(p.op, sh2, p.i, p.j));
    J js = J::arr();
    for (const auto &s : seq)
        js.push(J::str(s));
    r.set("seq", js);
    J c0 = J::arr(), c1 = J::arr();
    for (const auto &e : sh)
        c0.push(J::integer((long long)e->use_count()));
    std::atomic<int> ready{0}, finished{0};
    std::atomic<bool> go{false};
    std::vector<std::string> exc(T), diff(T);
    std::vector<int> same(T, 1);
    std::vector<std::vector<size_t>> dummies(T);
    std::vector<std::thread> th;
    for (size_t t = 0; t < T; t++)
        th.emplace_back([&, t] {
            ready++;
            while (!go.load())
                std::this_thread::yield();
            try {
                for (size_t rep = 0; rep < R; rep++) {
                    // threads start at different operations so that different operations overlap
                    for (size_t k = 0; k < prog.size(); k++) {
                        size_t q = (k + t) % prog.size();
                        std::string s = run_op(prog[q].op, sh, prog[q].i, prog[q].j);
                        if (s != seq[q] && same[t]) {
                            same[t] = 0;
                            diff[t] = prog[q].op + ":" + s.substr(0, 80) + " != " + seq[q].substr(0, 80);
                        }
                    }
                    dummies[t].push_back(down_cast<const Dummy &>(*dummy()).get_index());
                }
            } catch (...) {
                exc[t] = exc_name();
            }
            finished++;
        });
    while (ready.load() < (int)T)
        std::this_thread::yield();
    go = true;
    // watchdog: a corrupted shared object can send a thread into an endless loop
    {
        long long budget_ms = c.geti("budget_s", 60) * 1000;
        while (finished.load() < (int)T && budget_ms > 0) {
            std::this_thread::sleep_for(std::chrono::milliseconds(20));
            budget_ms -= 20;
        }
        if (finished.load() < (int)T)
            fatal_event("TIMEOUT");
    }
    for (auto &x : th)
        x.join();
    for (const auto &e : sh)
        c1.push(J::integer((long long)e->use_count()));
    J thr = J::arr(), dm = J::arr();
    for (size_t t = 0; t < T; t++) {
        J o = J::obj();
        o.set("exc", exc[t]);
        o.set("same", (long long)same[t]);
        o.set("first_diff", diff[t]);
        thr.push(o);
        for (size_t d : dummies[t])
            dm.push(J::integer((long long)d));
    }
    r.set("thr", thr);
    r.set("counts0", c0);
    r.set("counts1", c1);
    r.set("dummies", dm);
}
#endif
