// Handle semantics (C40): histories of RCP<const Basic> operations generated from the state machine of spec/RC.tla.
//   {"op":"rcpops","ops":[{"op":"new"|"dup"|"drop"|"assign"|"assignarg","h":handle,"g":handle or argument index,
//                          "ch":[object ids]}...]}
//   r.obs[i] = {live, counts:[[handle, use_count]...]} after the i-th operation; r.final = live objects after all
//   handles were destroyed (relative to the start of the case)
#include "drv.h"
#include <symengine/basic.h>
#include <symengine/symbol.h>
#include <symengine/functions.h>
#include <map>

using namespace SymEngine;
using namespace sev;

SEV_HANDLER(rcpops)
{
    long live0 = Basic::verif_live_basic();
    J obs = J::arr();
    {
        std::map<long long, RCP<const Basic>> H; // the caller's handles
        std::map<long long, const Basic *> objs; // object id -> address (not owning)
        long long next_obj = 1;
        for (const auto &o : c.at("ops").a) {
            std::string op = o.gets("op");
            long long h = o.geti("h"), g = o.geti("g");
            if (op == "new") {
                long long id = next_obj++;
                if (o.at("ch").a.empty()) {
                    H[h] = symbol("s" + std::to_string(id));
                } else {
                    vec_basic args;
                    for (const auto &ch : o.at("ch").a)
                        args.push_back(objs.at(ch.i)->rcp_from_this());
                    H[h] = function_symbol("f" + std::to_string(id), args);
                }
                objs[id] = H[h].get();
            } else if (op == "dup") {
                RCP<const Basic> copy(H.at(h));
                H[g] = std::move(copy);
            } else if (op == "drop") {
                H.erase(h);
            } else if (op == "assign") {
                H.at(h) = H.at(g);
            } else if (op == "assignarg") {
                // the right-hand side is a reference to an RCP stored inside the pointee of the left-hand side
                const vec_basic &v = down_cast<const MultiArgFunction &>(*H.at(h)).get_vec();
                H.at(h) = v[(size_t)g - 1];
            } else
                throw std::runtime_error("unknown rcp op " + op);
            J ob = J::obj();
            ob.set("live", (long long)(Basic::verif_live_basic() - live0));
            J cs = J::arr();
            for (auto &kv : H) {
                J p = J::arr();
                p.push(J::integer(kv.first));
                p.push(J::integer((long long)kv.second->use_count()));
                cs.push(p);
            }
            ob.set("counts", cs);
            obs.push(ob);
        }
    }
    r.set("obs", obs);
    r.set("final", (long long)(Basic::verif_live_basic() - live0));
}
