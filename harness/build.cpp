#include "build.h"
#include "dump.h"
#include <symengine/add.h>
#include <symengine/mul.h>
#include <symengine/pow.h>
#include <symengine/integer.h>
#include <symengine/rational.h>
#include <symengine/complex.h>
#include <symengine/real_double.h>
#include <symengine/complex_double.h>
#include <symengine/infinity.h>
#include <symengine/nan.h>
#include <symengine/constants.h>
#include <symengine/symbol.h>
#include <symengine/functions.h>
#include <symengine/ntheory_funcs.h>
#include <symengine/visitor.h>
#include <symengine/subs.h>
#include <symengine/derivative.h>
#include <symengine/simplify.h>
#include <symengine/refine.h>
#include <cmath>
#include <functional>
#include <map>

using namespace SymEngine;

namespace sev
{

J lit_int(long long v)
{
    return term("Int", {}, "", v, 1);
}
J lit_rat(long long n, long long d)
{
    return term("Rat", {}, "", n, d);
}
J lit_sym(const std::string &s)
{
    return term("Sym", {}, s);
}
J op(const std::string &k, const std::vector<J> &a)
{
    return term(k, a);
}

integer_class build_integer(const J &t)
{
    const std::string &k = t.at("k").s;
    if (k == "Int")
        return integer_class((long)t.at("n").i);
    if (k == "Big") {
        integer_class r(0), base(10000);
        const J &a = t.at("a");
        for (size_t i = a.a.size(); i-- > 0;)
            r = r * base + integer_class((long)a.a[i].at("n").i);
        if (t.at("n").i < 0)
            r = -r;
        return r;
    }
    if (k == "BigS")
        return integer_class(t.at("s").s);
    throw std::runtime_error("build_integer: bad kind " + k);
}

double build_double(const J &t)
{
    const std::string &c = t.at("s").s;
    long long sign = t.at("n").i;
    if (c == "nan")
        return std::nan("");
    if (c == "inf")
        return sign < 0 ? -INFINITY : INFINITY;
    if (c == "zero")
        return sign < 0 ? -0.0 : 0.0;
    const J &a = t.at("a");
    double m = (double)a.a[0].at("n").i * 67108864.0 + (double)a.a[1].at("n").i;
    double v = std::ldexp(m, (int)a.a[2].at("n").i);
    return sign < 0 ? -v : v;
}

RCP<const Number> build_num(const J &t)
{
    RCP<const Basic> b = build(t);
    if (!is_a_Number(*b))
        throw std::runtime_error("build_num: not a number");
    return rcp_static_cast<const Number>(b);
}

RCP<const Set> build_set(const J &t)
{
    RCP<const Basic> b = build(t);
    if (!is_a_Set(*b))
        throw std::runtime_error("build_set: not a set");
    return rcp_static_cast<const Set>(b);
}

RCP<const Boolean> build_bool(const J &t)
{
    RCP<const Basic> b = build(t);
    if (!is_a_Boolean(*b))
        throw std::runtime_error("build_bool: not a boolean");
    return rcp_static_cast<const Boolean>(b);
}

typedef std::function<RCP<const Basic>(const RCP<const Basic> &)> F1;
typedef std::function<RCP<const Basic>(const RCP<const Basic> &,
                                       const RCP<const Basic> &)>
    F2;

static const std::map<std::string, F1> &f1table()
{
    static std::map<std::string, F1> m = {
        {"neg", [](const RCP<const Basic> &a) { return neg(a); }},
        {"sqrt", [](const RCP<const Basic> &a) { return SymEngine::sqrt(a); }},
        {"cbrt", [](const RCP<const Basic> &a) { return SymEngine::cbrt(a); }},
        {"exp", [](const RCP<const Basic> &a) { return SymEngine::exp(a); }},
        {"log", [](const RCP<const Basic> &a) { return SymEngine::log(a); }},
        {"sin", [](const RCP<const Basic> &a) { return SymEngine::sin(a); }},
        {"cos", [](const RCP<const Basic> &a) { return SymEngine::cos(a); }},
        {"tan", [](const RCP<const Basic> &a) { return SymEngine::tan(a); }},
        {"cot", [](const RCP<const Basic> &a) { return SymEngine::cot(a); }},
        {"sec", [](const RCP<const Basic> &a) { return SymEngine::sec(a); }},
        {"csc", [](const RCP<const Basic> &a) { return SymEngine::csc(a); }},
        {"asin", [](const RCP<const Basic> &a) { return SymEngine::asin(a); }},
        {"acos", [](const RCP<const Basic> &a) { return SymEngine::acos(a); }},
        {"atan", [](const RCP<const Basic> &a) { return SymEngine::atan(a); }},
        {"acot", [](const RCP<const Basic> &a) { return SymEngine::acot(a); }},
        {"asec", [](const RCP<const Basic> &a) { return SymEngine::asec(a); }},
        {"acsc", [](const RCP<const Basic> &a) { return SymEngine::acsc(a); }},
        {"sinh", [](const RCP<const Basic> &a) { return SymEngine::sinh(a); }},
        {"cosh", [](const RCP<const Basic> &a) { return SymEngine::cosh(a); }},
        {"tanh", [](const RCP<const Basic> &a) { return SymEngine::tanh(a); }},
        {"coth", [](const RCP<const Basic> &a) { return SymEngine::coth(a); }},
        {"sech", [](const RCP<const Basic> &a) { return SymEngine::sech(a); }},
        {"csch", [](const RCP<const Basic> &a) { return SymEngine::csch(a); }},
        {"asinh",
         [](const RCP<const Basic> &a) { return SymEngine::asinh(a); }},
        {"acosh",
         [](const RCP<const Basic> &a) { return SymEngine::acosh(a); }},
        {"atanh",
         [](const RCP<const Basic> &a) { return SymEngine::atanh(a); }},
        {"acoth",
         [](const RCP<const Basic> &a) { return SymEngine::acoth(a); }},
        {"asech",
         [](const RCP<const Basic> &a) { return SymEngine::asech(a); }},
        {"acsch",
         [](const RCP<const Basic> &a) { return SymEngine::acsch(a); }},
        {"abs", [](const RCP<const Basic> &a) { return SymEngine::abs(a); }},
        {"sign", [](const RCP<const Basic> &a) { return SymEngine::sign(a); }},
        {"floor",
         [](const RCP<const Basic> &a) { return SymEngine::floor(a); }},
        {"ceiling",
         [](const RCP<const Basic> &a) { return SymEngine::ceiling(a); }},
        {"truncate",
         [](const RCP<const Basic> &a) { return SymEngine::truncate(a); }},
        {"conjugate",
         [](const RCP<const Basic> &a) { return SymEngine::conjugate(a); }},
        {"gamma",
         [](const RCP<const Basic> &a) { return SymEngine::gamma(a); }},
        {"loggamma",
         [](const RCP<const Basic> &a) { return SymEngine::loggamma(a); }},
        {"digamma",
         [](const RCP<const Basic> &a) { return SymEngine::digamma(a); }},
        {"trigamma",
         [](const RCP<const Basic> &a) { return SymEngine::trigamma(a); }},
        {"zeta", [](const RCP<const Basic> &a) { return SymEngine::zeta(a); }},
        {"dirichlet_eta",
         [](const RCP<const Basic> &a) { return SymEngine::dirichlet_eta(a); }},
        {"erf", [](const RCP<const Basic> &a) { return SymEngine::erf(a); }},
        {"erfc", [](const RCP<const Basic> &a) { return SymEngine::erfc(a); }},
        {"lambertw",
         [](const RCP<const Basic> &a) { return SymEngine::lambertw(a); }},
        {"primepi",
         [](const RCP<const Basic> &a) { return SymEngine::primepi(a); }},
        {"primorial",
         [](const RCP<const Basic> &a) { return SymEngine::primorial(a); }},
        {"expand", [](const RCP<const Basic> &a) { return expand(a); }},
        {"trig_to_sqrt",
         [](const RCP<const Basic> &a) { return trig_to_sqrt(a); }},
        {"rewrite_as_exp",
         [](const RCP<const Basic> &a) { return rewrite_as_exp(a); }},
        {"rewrite_as_sin",
         [](const RCP<const Basic> &a) { return rewrite_as_sin(a); }},
        {"rewrite_as_cos",
         [](const RCP<const Basic> &a) { return rewrite_as_cos(a); }},
        {"unevaluated_expr",
         [](const RCP<const Basic> &a) { return unevaluated_expr(a); }},
        {"expand_as_exp",
         [](const RCP<const Basic> &a) { return a->expand_as_exp(); }},
        {"numer",
         [](const RCP<const Basic> &a) {
             RCP<const Basic> n, d;
             as_numer_denom(a, outArg(n), outArg(d));
             return n;
         }},
        {"denom",
         [](const RCP<const Basic> &a) {
             RCP<const Basic> n, d;
             as_numer_denom(a, outArg(n), outArg(d));
             return d;
         }},
        {"real_part",
         [](const RCP<const Basic> &a) {
             RCP<const Basic> re, im;
             as_real_imag(a, outArg(re), outArg(im));
             return re;
         }},
        {"imag_part",
         [](const RCP<const Basic> &a) {
             RCP<const Basic> re, im;
             as_real_imag(a, outArg(re), outArg(im));
             return im;
         }},
    };
    return m;
}

static const std::map<std::string, F2> &f2table()
{
    static std::map<std::string, F2> m = {
        {"sub", [](const RCP<const Basic> &a,
                   const RCP<const Basic> &b) { return sub(a, b); }},
        {"div", [](const RCP<const Basic> &a,
                   const RCP<const Basic> &b) { return div(a, b); }},
        {"pow", [](const RCP<const Basic> &a,
                   const RCP<const Basic> &b) { return pow(a, b); }},
        {"atan2", [](const RCP<const Basic> &a,
                     const RCP<const Basic> &b) { return atan2(a, b); }},
        {"log2", [](const RCP<const Basic> &a,
                    const RCP<const Basic> &b) { return log(a, b); }},
        {"zeta2", [](const RCP<const Basic> &a,
                     const RCP<const Basic> &b) { return zeta(a, b); }},
        {"beta", [](const RCP<const Basic> &a,
                    const RCP<const Basic> &b) { return beta(a, b); }},
        {"polygamma", [](const RCP<const Basic> &a,
                         const RCP<const Basic> &b) { return polygamma(a, b); }},
        {"lowergamma",
         [](const RCP<const Basic> &a, const RCP<const Basic> &b) {
             return lowergamma(a, b);
         }},
        {"uppergamma",
         [](const RCP<const Basic> &a, const RCP<const Basic> &b) {
             return uppergamma(a, b);
         }},
        {"kronecker_delta",
         [](const RCP<const Basic> &a, const RCP<const Basic> &b) {
             return kronecker_delta(a, b);
         }},
        {"Eq", [](const RCP<const Basic> &a,
                  const RCP<const Basic> &b) -> RCP<const Basic> {
             return Eq(a, b);
         }},
        {"Ne", [](const RCP<const Basic> &a,
                  const RCP<const Basic> &b) -> RCP<const Basic> {
             return Ne(a, b);
         }},
        {"Lt", [](const RCP<const Basic> &a,
                  const RCP<const Basic> &b) -> RCP<const Basic> {
             return Lt(a, b);
         }},
        {"Le", [](const RCP<const Basic> &a,
                  const RCP<const Basic> &b) -> RCP<const Basic> {
             return Le(a, b);
         }},
        {"Gt", [](const RCP<const Basic> &a,
                  const RCP<const Basic> &b) -> RCP<const Basic> {
             return Gt(a, b);
         }},
        {"Ge", [](const RCP<const Basic> &a,
                  const RCP<const Basic> &b) -> RCP<const Basic> {
             return Ge(a, b);
         }},
    };
    return m;
}

RCP<const Basic> build(const J &t)
{
    const std::string &k = t.at("k").s;
    const J &a = t.at("a");
    // ---- literals (same kinds as the dumper emits)
    if (k == "Int")
        return integer((long)t.at("n").i);
    if (k == "Big" || k == "BigS")
        return integer(build_integer(t));
    if (k == "Rat")
        return Rational::from_two_ints(t.at("n").i, t.at("d").i);
    if (k == "BigRat")
        return Rational::from_two_ints(*integer(build_integer(a.a[0])),
                                       *integer(build_integer(a.a[1])));
    if (k == "Complex")
        return Complex::from_two_nums(*build_num(a.a[0]), *build_num(a.a[1]));
    if (k == "Dbl")
        return real_double(build_double(t));
    if (k == "CDbl")
        return complex_double(build_double(a.a[0]), build_double(a.a[1]));
    if (k == "Sym")
        return symbol(t.at("s").s);
    if (k == "Const") {
        const std::string &s = t.at("s").s;
        if (s == "pi")
            return pi;
        if (s == "E")
            return E;
        if (s == "EulerGamma")
            return EulerGamma;
        if (s == "Catalan")
            return Catalan;
        if (s == "GoldenRatio")
            return GoldenRatio;
        return constant(s);
    }
    if (k == "I")
        return I;
    if (k == "Inf") {
        long long d = a.a.empty() ? t.at("n").i : a.a[0].at("n").i;
        return d > 0 ? rcp_static_cast<const Basic>(Inf)
                     : d < 0 ? rcp_static_cast<const Basic>(NegInf)
                             : rcp_static_cast<const Basic>(ComplexInf);
    }
    if (k == "NaN")
        return Nan;
    if (k == "True")
        return boolTrue;
    if (k == "False")
        return boolFalse;
    if (k == "EmptySet")
        return emptyset();
    if (k == "UniversalSet")
        return universalset();
    if (k == "Reals")
        return reals();
    if (k == "Rationals")
        return rationals();
    if (k == "Integers")
        return integers();
    if (k == "Naturals")
        return naturals();
    if (k == "Naturals0")
        return naturals0();
    if (k == "Complexes")
        return complexes();

    // ---- n-ary operations: folded binary (as written) or n-ary entry point
    if (k == "add" || k == "mul") {
        if (a.a.empty())
            return k == "add" ? zero : one;
        RCP<const Basic> r = build(a.a[0]);
        for (size_t i = 1; i < a.a.size(); i++)
            r = (k == "add") ? add(r, build(a.a[i])) : mul(r, build(a.a[i]));
        return r;
    }
    if (k == "addv" || k == "mulv" || k == "max" || k == "min"
        || k == "levi_civita" || k == "tuple") {
        vec_basic v;
        for (auto &c : a.a)
            v.push_back(build(c));
        if (k == "addv")
            return add(v);
        if (k == "mulv")
            return mul(v);
        if (k == "max")
            return SymEngine::max(v);
        if (k == "min")
            return SymEngine::min(v);
        if (k == "levi_civita")
            return levi_civita(v);
    }
    if (k == "fn") { // undefined function application
        vec_basic v;
        for (auto &c : a.a)
            v.push_back(build(c));
        return function_symbol(t.at("s").s, v);
    }
    auto i1 = f1table().find(k);
    if (i1 != f1table().end()) {
        if (a.a.size() != 1)
            throw std::runtime_error("arity: " + k);
        return i1->second(build(a.a[0]));
    }
    auto i2 = f2table().find(k);
    if (i2 != f2table().end()) {
        if (a.a.size() != 2)
            throw std::runtime_error("arity: " + k);
        RCP<const Basic> x = build(a.a[0]);
        RCP<const Basic> y = build(a.a[1]);
        return i2->second(x, y);
    }
    // ---- logic
    if (k == "and" || k == "or" || k == "nand" || k == "nor") {
        set_boolean s;
        for (auto &c : a.a)
            s.insert(build_bool(c));
        if (k == "and")
            return logical_and(s);
        if (k == "or")
            return logical_or(s);
        if (k == "nand")
            return logical_nand(s);
        return logical_nor(s);
    }
    if (k == "xor" || k == "xnor") {
        vec_boolean s;
        for (auto &c : a.a)
            s.push_back(build_bool(c));
        return k == "xor" ? logical_xor(s) : logical_xnor(s);
    }
    if (k == "not")
        return logical_not(build_bool(a.a[0]));
    if (k == "contains")
        return contains(build(a.a[0]), build_set(a.a[1]));
    if (k == "piecewise") {
        PiecewiseVec v;
        for (size_t i = 0; i + 1 < a.a.size(); i += 2)
            v.push_back({build(a.a[i]), build_bool(a.a[i + 1])});
        return piecewise(std::move(v));
    }
    // ---- sets
    if (k == "interval")
        return interval(build_num(a.a[0]), build_num(a.a[1]),
                        t.at("n").i != 0, t.at("d").i != 0);
    if (k == "finiteset") {
        set_basic s;
        for (auto &c : a.a)
            s.insert(build(c));
        return finiteset(s);
    }
    if (k == "union" || k == "intersection") {
        set_set s;
        for (auto &c : a.a)
            s.insert(build_set(c));
        return k == "union" ? set_union(s) : set_intersection(s);
    }
    if (k == "complement") // a[0] \ a[1]
        return set_complement(build_set(a.a[0]), build_set(a.a[1]));
    if (k == "m_union")
        return build_set(a.a[0])->set_union(build_set(a.a[1]));
    if (k == "m_intersection")
        return build_set(a.a[0])->set_intersection(build_set(a.a[1]));
    if (k == "m_complement") // a[1] \ a[0], i.e. a[0]->set_complement(a[1])
        return build_set(a.a[0])->set_complement(build_set(a.a[1]));
    if (k == "imageset")
        return imageset(build(a.a[0]), build(a.a[1]), build_set(a.a[2]));
    if (k == "conditionset")
        return conditionset(build(a.a[0]), build_bool(a.a[1]));
    if (k == "sup")
        return sup(*build_set(a.a[0]));
    if (k == "inf")
        return inf(*build_set(a.a[0]));
    if (k == "boundary")
        return boundary(*build_set(a.a[0]));
    if (k == "interior")
        return interior(*build_set(a.a[0]));
    if (k == "closure")
        return closure(*build_set(a.a[0]));
    // ---- calculus / substitution
    if (k == "diff") {
        RCP<const Basic> e = build(a.a[0]);
        RCP<const Basic> x = build(a.a[1]);
        if (is_a<Symbol>(*x))
            return diff(e, rcp_static_cast<const Symbol>(x),
                        t.geti("n", 1) != 0);
        return sdiff(e, x, t.geti("n", 1) != 0);
    }
    // refine(e, statements...) / simplify(e, statements...)
    if (k == "refine" || k == "simplify") {
        RCP<const Basic> e = build(a.a[0]);
        set_basic st;
        for (size_t i = 1; i < a.a.size(); i++)
            st.insert(build(a.a[i]));
        Assumptions as(st);
        if (k == "refine")
            return refine(e, &as);
        return simplify(e, a.a.size() > 1 ? &as : nullptr);
    }
    if (k == "subs" || k == "xreplace" || k == "msubs" || k == "ssubs") {
        RCP<const Basic> e = build(a.a[0]);
        map_basic_basic m;
        for (size_t i = 1; i + 1 < a.a.size(); i += 2)
            m[build(a.a[i])] = build(a.a[i + 1]);
        bool cache = t.geti("n", 1) != 0;
        if (k == "subs")
            return subs(e, m, cache);
        if (k == "xreplace")
            return xreplace(e, m, cache);
        if (k == "msubs")
            return msubs(e, m, cache);
        return ssubs(e, m, cache);
    }
    if (k == "coeff")
        return coeff(*build(a.a[0]), *build(a.a[1]), *build(a.a[2]));
    throw std::runtime_error("build: unknown kind " + k);
}

} // namespace sev
