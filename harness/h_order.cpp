// Equality / hash / ordering relations over a batch of objects (C01, C02).
#include "drv.h"
#include <symengine/basic.h>
#include <symengine/dict.h>
#include <algorithm>
#include <map>
#include <random>

using namespace SymEngine;
using namespace sev;

// {"op":"order","ts":[recipe...],"perms":k,"seed":s}
//  r.ok[i]     1 when recipe i could be built (else the object is skipped: eq row/col = -9)
//  r.eq[i][j], r.cmp[i][j] (= a->__cmp__(b)), r.less[i][j] (RCPBasicKeyLess)
//  r.hash[i]   index of the first object with the same hash() value
//  r.rehash[i] 1 when hash() (cached) == __hash__() (recomputed), also after use as operand
//  r.set / r.umap / r.uset : sizes of set_basic / umap_basic_num / unordered_set built from all
//  r.orders[p] : iteration order of set_basic after inserting in the p-th random permutation,
//                as indices of the FIRST object eq to each element
SEV_HANDLER(order)
{
    std::vector<RCP<const Basic>> ob;
    J ok = J::arr();
    for (auto &t : c.at("ts").a) {
        RCP<const Basic> b;
        std::string e = guarded([&] { b = build(t); });
        ob.push_back(b);
        ok.push(J::integer(e.empty() && !b.is_null() ? 1 : 0));
    }
    size_t n = ob.size();
    auto good = [&](size_t i) { return !ob[i].is_null(); };
    std::vector<hash_t> h(n, 0);
    J rehash = J::arr(), hashid = J::arr();
    for (size_t i = 0; i < n; i++) {
        if (!good(i)) {
            hashid.push(J::integer((long long)i + 1));
            continue;
        }
        h[i] = ob[i]->hash();
        size_t first = i;
        for (size_t j = 0; j < i; j++)
            if (good(j) && h[j] == h[i]) {
                first = j;
                break;
            }
        hashid.push(J::integer((long long)first + 1));
    }
    J eqm = J::arr(), cmpm = J::arr(), lessm = J::arr();
    RCPBasicKeyLess less;
    for (size_t i = 0; i < n; i++) {
        J er = J::arr(), cr = J::arr(), lr = J::arr();
        for (size_t j = 0; j < n; j++) {
            if (!good(i) || !good(j)) {
                er.push(J::integer(-9));
                cr.push(J::integer(-9));
                lr.push(J::integer(-9));
                continue;
            }
            er.push(J::integer(eq(*ob[i], *ob[j]) ? 1 : 0));
            cr.push(J::integer(ob[i]->__cmp__(*ob[j])));
            lr.push(J::integer(less(ob[i], ob[j]) ? 1 : 0));
        }
        eqm.push(er);
        cmpm.push(cr);
        lessm.push(lr);
    }
    // hash cache stable after the objects have been used (compared, hashed, inserted)
    for (size_t i = 0; i < n; i++)
        rehash.push(J::integer(!good(i) || (ob[i]->hash() == ob[i]->__hash__() && ob[i]->hash() == h[i]) ? 1 : 0));
    auto first_eq = [&](const RCP<const Basic> &x) {
        for (size_t j = 0; j < n; j++)
            if (good(j) && eq(*x, *ob[j]))
                return (long long)j + 1;
        return 0LL;
    };
    std::vector<size_t> idx;
    for (size_t i = 0; i < n; i++)
        if (good(i))
            idx.push_back(i);
    set_basic s0;
    umap_basic_num um;
    std::unordered_set<RCP<const Basic>, RCPBasicHash, RCPBasicKeyEq> us;
    for (size_t i : idx) {
        s0.insert(ob[i]);
        um[ob[i]] = one;
        us.insert(ob[i]);
    }
    r.set("set", (long long)s0.size());
    r.set("umap", (long long)um.size());
    r.set("uset", (long long)us.size());
    std::mt19937 g((unsigned)c.geti("seed", 1));
    J orders = J::arr();
    for (long long p = 0; p < c.geti("perms", 3); p++) {
        std::vector<size_t> perm = idx;
        if (p == 1)
            std::reverse(perm.begin(), perm.end());
        else if (p > 1)
            std::shuffle(perm.begin(), perm.end(), g);
        set_basic s;
        for (size_t i : perm)
            s.insert(ob[i]);
        J o = J::arr();
        for (auto &x : s)
            o.push(J::integer(first_eq(x)));
        orders.push(o);
    }
    r.set("ok", ok);
    r.set("eq", eqm);
    r.set("cmp", cmpm);
    r.set("less", lessm);
    r.set("hash", hashid);
    r.set("rehash", rehash);
    r.set("orders", orders);
}
