// Matrix expressions (C26).
#include "drv.h"
#include <symengine/matrix_expressions.h>
#include <symengine/matrices/matrix_expr.h>
#include <symengine/matrices/size.h>
#include <symengine/integer.h>
#include <functional>

using namespace SymEngine;
using namespace sev;

namespace
{
const char *tri(tribool t)
{
    return is_true(t) ? "T" : (is_false(t) ? "F" : "U");
}
// matrix recipe: {"k": dense|diag|ident|zero|msym|madd|mmul|hadamard|transpose|conj, "a":[...], "s":name, "n":rows, "d":cols}
RCP<const Basic> mbuild(const J &t)
{
    const std::string &k = t.at("k").s;
    const J &a = t.at("a");
    if (k == "dense") {
        vec_basic v;
        for (auto &e : a.a)
            v.push_back(build(e));
        return immutable_dense_matrix((size_t)t.at("n").i, (size_t)t.at("d").i, v);
    }
    if (k == "diag") {
        vec_basic v;
        for (auto &e : a.a)
            v.push_back(build(e));
        return diagonal_matrix(v);
    }
    if (k == "ident")
        return identity_matrix(build(a.a[0]));
    if (k == "zero")
        return zero_matrix(build(a.a[0]), build(a.a[1]));
    if (k == "msym")
        return matrix_symbol(t.at("s").s);
    auto mat = [&](const J &x) {
        RCP<const Basic> b = mbuild(x);
        if (!is_a_MatrixExpr(*b))
            throw std::runtime_error("mbuild: not a matrix");
        return rcp_static_cast<const MatrixExpr>(b);
    };
    if (k == "transpose")
        return transpose(mat(a.a[0]));
    if (k == "conj")
        return conjugate_matrix(mat(a.a[0]));
    if (k == "madd" || k == "mmul" || k == "hadamard") {
        vec_basic v;
        for (auto &e : a.a)
            v.push_back(mbuild(e));
        if (k == "madd")
            return matrix_add(v);
        if (k == "mmul")
            return matrix_mul(v);
        return hadamard_product(v);
    }
    // a scalar factor inside mmul
    return build(t);
}
} // namespace

// {"op":"mexpr","m":matrix recipe}
//  r.e dump of the expression; r.bexc; r.size [rows, cols]; r.q {zero, diagonal, symmetric, lower, upper, real, square, toeplitz};
//  r.trace dump of trace(e) (r.texc)
SEV_HANDLER(mexpr)
{
    RCP<const MatrixExpr> e;
    J d = term("Null");
    r.set("bexc", guarded([&] {
              RCP<const Basic> b = mbuild(c.at("m"));
              if (!is_a_MatrixExpr(*b))
                  throw std::runtime_error("not a matrix");
              e = rcp_static_cast<const MatrixExpr>(b);
              d = dump(e);
          }));
    r.set("e", d);
    J q = J::obj(), sz = J::arr(), tr = term("Null");
    std::string sexc, texc;
    if (!e.is_null()) {
        auto put = [&](const char *name, std::function<tribool()> f) {
            std::string v;
            std::string x = guarded([&] { v = tri(f()); });
            q.set(name, x.empty() ? v : "X:" + x);
        };
        put("zero", [&] { return is_zero(*e); });
        put("diagonal", [&] { return is_diagonal(*e); });
        put("symmetric", [&] { return is_symmetric(*e); });
        put("lower", [&] { return is_lower(*e); });
        put("upper", [&] { return is_upper(*e); });
        put("real", [&] { return is_real(*e); });
        put("square", [&] { return is_square(*e); });
        put("toeplitz", [&] { return is_toeplitz(*e); });
        sexc = guarded([&] {
            auto s = size(*e);
            sz.push(dump(s.first));
            sz.push(dump(s.second));
        });
        texc = guarded([&] { tr = dump(trace(e)); });
    }
    r.set("q", q);
    r.set("size", sz);
    r.set("sexc", sexc);
    r.set("trace", tr);
    r.set("texc", texc);
}
