// Integer back-end wrappers (C43): the mp_* functions of mp_class.h called directly, big integers exchanged as
// sign + little-endian base-10000 limbs (the representation of spec/BigInt.tla).
//   {"op":"mp","f":<group>,"a":[big...],"n":[small non-negative ints]}
//   r = {"z":[big...],"i":[ints],"s":[strings]}
#include "drv.h"
#include <symengine/mp_class.h>
#include <symengine/integer.h>
#include <symengine/rational.h>
#include <symengine/ntheory.h>
#include <sstream>

using namespace SymEngine;
using namespace sev;

static integer_class from_big(const J &b)
{
    integer_class v(0), base(10000);
    const auto &m = b.at("m").a;
    for (size_t i = m.size(); i-- > 0;)
        v = v * base + integer_class((long)m[i].i);
    if (b.geti("s") < 0)
        v = -v;
    return v;
}
// through the decimal text (independent of the division operators under test)
static J to_big(const integer_class &v)
{
    std::ostringstream os;
    os << v;
    std::string t = os.str();
    int s = 1;
    if (!t.empty() && t[0] == '-') {
        s = -1;
        t = t.substr(1);
    }
    size_t nz = t.find_first_not_of('0');
    t = nz == std::string::npos ? "" : t.substr(nz);
    J m = J::arr();
    for (size_t end = t.size(); end > 0;) {
        size_t start = end >= 4 ? end - 4 : 0;
        m.push(J::integer(atol(t.substr(start, end - start).c_str())));
        end = start;
    }
    J o = J::obj();
    o.set("s", (long long)(t.empty() ? 0 : s));
    o.set("m", m);
    return o;
}
static std::string dec(const integer_class &v)
{
    std::ostringstream os;
    os << v;
    return os.str();
}

SEV_HANDLER(mp)
{
    std::string f = c.gets("f");
    std::vector<integer_class> a;
    for (const auto &x : c.at("a").a)
        a.push_back(from_big(x));
    std::vector<unsigned long> n;
    for (const auto &x : c.at("n").a)
        n.push_back((unsigned long)x.i);
    J z = J::arr(), iv = J::arr(), sv = J::arr();
    auto Z = [&](const integer_class &v) { z.push(to_big(v)); };
    auto I = [&](long long v) { iv.push(J::integer(v)); };
    if (f == "arith") { // a, b, c
        Z(a[0] + a[1]);
        Z(a[0] - a[1]);
        Z(a[0] * a[1]);
        Z(mp_abs(a[0]));
        integer_class t = a[2];
        mp_addmul(t, a[0], a[1]);
        Z(t);
        Z(-a[0]);
        I(mp_sign(a[0]));
        {
            int cm = mp_cmpabs(a[0], a[1]); // (sign only is specified)
            I(cm < 0 ? -1 : cm > 0 ? 1 : 0);
        }
        I(a[0] < a[1] ? -1 : a[0] == a[1] ? 0 : 1);
        I(a[0] == a[1]);
        I(a[0] != a[1]);
        I(a[0] <= a[1]);
    } else if (f == "divs") { // a, b # 0
        integer_class q, r;
        mp_fdiv_qr(q, r, a[0], a[1]);
        Z(q);
        Z(r);
        mp_cdiv_q(q, a[0], a[1]); // (mp_cdiv_qr exists for one back end only)
        Z(q);
        Z(a[0] - q * a[1]);
        mp_tdiv_qr(q, r, a[0], a[1]);
        Z(q);
        Z(r);
        mp_fdiv_q(q, a[0], a[1]);
        Z(q);
        mp_fdiv_r(r, a[0], a[1]);
        Z(r);
        mp_cdiv_q(q, a[0], a[1]);
        Z(q);
        mp_tdiv_q(q, a[0], a[1]);
        Z(q);
        I(mp_divisible_p(a[0], a[1]));
        // an exact quotient
        integer_class p = a[0] * a[1];
        mp_divexact(q, p, a[1]);
        Z(q);
    } else if (f == "gcd") { // a, b
        integer_class g, l, g2, s, t;
        mp_gcd(g, a[0], a[1]);
        Z(g);
        mp_lcm(l, a[0], a[1]);
        Z(l);
        mp_gcdext(g2, s, t, a[0], a[1]);
        Z(g2);
        Z(s);
        Z(t);
    } else if (f == "invert") { // a, m # 0
        integer_class res(0);
        bool ok = mp_invert(res, a[0], a[1]);
        I(ok);
        Z(ok ? res : integer_class(0));
    } else if (f == "powui") { // a; n
        integer_class res;
        mp_pow_ui(res, a[0], n[0]);
        Z(res);
    } else if (f == "powm") { // a, e >= 0, m # 0
        integer_class res;
        mp_powm(res, a[0], a[1], a[2]);
        Z(res);
    } else if (f == "root") { // a >= 0; n >= 1
        integer_class res, ra, rb;
        bool exact = mp_root(res, a[0], n[0]);
        I(exact);
        Z(res);
        mp_rootrem(ra, rb, a[0], n[0]);
        Z(ra);
        Z(rb);
        Z(mp_sqrt(a[0]));
        mp_sqrtrem(ra, rb, a[0]);
        Z(ra);
        Z(rb);
        I(mp_perfect_square_p(a[0]));
    } else if (f == "prime") { // a >= 0
        I(mp_probab_prime_p(a[0], 25) != 0);
        I(mp_perfect_power_p(a[0]));
        integer_class np;
        mp_nextprime(np, a[0]);
        Z(np);
    } else if (f == "seq") { // n
        integer_class x, y;
        mp_fib_ui(x, n[0]);
        Z(x);
        mp_fib2_ui(x, y, n[0]);
        Z(x);
        Z(y);
        mp_lucnum_ui(x, n[0]);
        Z(x);
        mp_lucnum2_ui(x, y, n[0]);
        Z(x);
        Z(y);
        mp_fac_ui(x, n[0]);
        Z(x);
        Z(mp_primorial(n[0]));
    } else if (f == "bin") { // a; n
        integer_class x;
        mp_bin_ui(x, a[0], n[0]);
        Z(x);
    } else if (f == "symb") { // a, p; n[0]: 1 = p is an odd prime (legendre), n[1]: 1 = p odd positive (jacobi)
        I(n[0] ? mp_legendre(a[0], a[1]) : 9);
        I(n[1] ? mp_jacobi(a[0], a[1]) : 9);
        I(mp_kronecker(a[0], a[1]));
    } else if (f == "bits") { // a, b
        integer_class x;
        mp_and(x, a[0], a[1]);
        Z(x);
        I(a[0] != 0 ? (long long)mp_scan1(a[0]) : -1);
        I(mp_fits_ulong_p(a[0]));
        I(mp_fits_slong_p(a[0]));
        sv.push(J::str(mp_get_hex_str(a[0])));
        integer_class y;
        mp_set_str(y, dec(a[0]));
        Z(y);
        if (mp_fits_slong_p(a[0]))
            Z(integer_class(mp_get_si(a[0])));
        else
            Z(integer_class(0));
        if (mp_fits_ulong_p(a[0]))
            Z(integer_class(mp_get_ui(a[0])));
        else
            Z(integer_class(0));
        // to a double and back (exact below 2^53; beyond, the rounding mode of the conversion is not an exact computation)
        integer_class lim53(1);
        lim53 <<= 53;
        if (mp_abs(a[0]) < lim53) {
            double d = mp_get_d(a[0]);
            integer_class w;
            mp_set_d(w, d);
            Z(w);
        } else
            Z(integer_class(0));
    } else if (f == "rat") { // a/b (b # 0), c/d (d # 0): canonical fractions and their arithmetic; n[0] = power
        rational_class p(a[0], a[1]), q(a[2], a[3]);
        canonicalize(p);
        canonicalize(q);
        auto R = [&](const rational_class &v) {
            Z(get_num(v));
            Z(get_den(v));
        };
        R(p);
        R(p + q);
        R(p - q);
        R(p * q);
        if (get_num(q) != 0)
            R(p / q);
        else {
            Z(integer_class(0));
            Z(integer_class(0));
        }
        rational_class pw;
        mp_pow_ui(pw, p, n[0]);
        R(pw);
        R(mp_abs(p));
        I(mp_sign(p));
        I(p < q ? -1 : p == q ? 0 : 1);
    } else {
        throw std::runtime_error("unknown mp group " + f);
    }
    r.set("z", z);
    r.set("i", iv);
    r.set("s", sv);
}
