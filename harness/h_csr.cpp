// CSR matrices: replay of MC_CSR behaviours and whole-matrix operations.
#include "drv.h"
#include <symengine/matrix.h>
#include <symengine/integer.h>
#include <symengine/add.h>
#include <symengine/mul.h>

using namespace SymEngine;
using namespace sev;

static std::vector<unsigned> uvec(const J &a)
{
    std::vector<unsigned> v;
    for (auto &e : a.a)
        v.push_back((unsigned)e.i);
    return v;
}
static vec_basic ivec(const J &a)
{
    vec_basic v;
    for (auto &e : a.a)
        v.push_back(integer((long)e.i));
    return v;
}
static long long as_small_int(const RCP<const Basic> &b)
{
    if (is_a<Integer>(*b)) {
        const integer_class &i = down_cast<const Integer &>(*b).as_integer_class();
        if (mp_fits_slong_p(i)) {
            long v = mp_get_si(i);
            if (v > -100000 && v < 100000)
                return v;
        }
    }
    return 99999; // not a small integer
}
static J csr_json(const CSRMatrix &m)
{
    auto t = m.as_vectors();
    J o = J::obj();
    o.set("rows", (long long)m.nrows());
    o.set("cols", (long long)m.ncols());
    J p = J::arr(), j = J::arr(), x = J::arr();
    for (auto v : std::get<0>(t))
        p.push(J::integer(v));
    for (auto v : std::get<1>(t))
        j.push(J::integer(v));
    for (auto &v : std::get<2>(t))
        x.push(J::integer(as_small_int(v)));
    o.set("p", p);
    o.set("j", j);
    o.set("x", x);
    o.set("exc", "");
    return o;
}
static J csr_fail(const std::string &exc)
{
    J o = J::obj();
    o.set("rows", 0);
    o.set("cols", 0);
    o.set("p", J::arr());
    o.set("j", J::arr());
    o.set("x", J::arr());
    o.set("exc", exc);
    return o;
}

// {"op":"csr_set","rows":..,"cols":..,"p":[..],"j":[..],"x":[..],"steps":[{"i","c","v",...}]}
SEV_HANDLER(csr_set)
{
    unsigned rows = (unsigned)c.at("rows").i, cols = (unsigned)c.at("cols").i;
    CSRMatrix m(rows, cols, uvec(c.at("p")), uvec(c.at("j")), ivec(c.at("x")));
    J steps = J::arr();
    for (auto &s : c.at("steps").a) {
        m.set((unsigned)s.at("i").i, (unsigned)s.at("c").i, integer((long)s.at("v").i));
        J o = csr_json(m);
        o.set("i", s.at("i").i);
        o.set("c", s.at("c").i);
        o.set("v", s.at("v").i);
        J gets = J::arr();
        for (unsigned i = 0; i < rows; i++)
            for (unsigned k = 0; k < cols; k++)
                gets.push(J::integer(as_small_int(m.get(i, k))));
        o.set("gets", gets);
        o.set("canon", m.is_canonical() ? 1 : 0);
        steps.push(o);
    }
    r.set("steps", steps);
}

template <class F>
static J attempt(F f)
{
    J res;
    std::string e = guarded([&] { res = f(); });
    if (!e.empty())
        return csr_fail(e);
    return res;
}

// {"op":"csr_ops","rows":r,"cols":c,"a":[r*c ints],"b":[r*c ints],"sr":[r ints],"sc":[c ints]}
SEV_HANDLER(csr_ops)
{
    unsigned rows = (unsigned)c.at("rows").i, cols = (unsigned)c.at("cols").i;
    auto mk = [&](const J &flat, bool dup) {
        // coordinate list in reverse order; with dup every entry |v| >= 2 is split in two
        std::vector<unsigned> ii, jj;
        vec_basic xx;
        for (unsigned i = rows; i-- > 0;)
            for (unsigned k = cols; k-- > 0;) {
                long v = flat.a[i * cols + k].i;
                if (v == 0)
                    continue;
                if (dup && (v >= 2 || v <= -2)) {
                    ii.push_back(i);
                    jj.push_back(k);
                    xx.push_back(integer(v > 0 ? v - 1 : v + 1));
                    ii.push_back(i);
                    jj.push_back(k);
                    xx.push_back(integer(v > 0 ? 1 : -1));
                } else {
                    ii.push_back(i);
                    jj.push_back(k);
                    xx.push_back(integer(v));
                }
            }
        return CSRMatrix::from_coo(rows, cols, ii, jj, xx);
    };
    CSRMatrix A = mk(c.at("a"), true), B = mk(c.at("b"), false);
    r.set("coo", csr_json(A));
    r.set("tr", attempt([&] { return csr_json(A.transpose()); }));
    r.set("ct", attempt([&] {
              CSRMatrix R(cols, rows);
              A.conjugate_transpose(R);
              return csr_json(R);
          }));
    r.set("cj", attempt([&] {
              CSRMatrix R(rows, cols);
              A.conjugate(R);
              return csr_json(R);
          }));
    r.set("add", attempt([&] {
              CSRMatrix R(rows, cols);
              csr_binop_csr_canonical(A, B, R, add);
              return csr_json(R);
          }));
    r.set("sub", attempt([&] {
              CSRMatrix R(rows, cols);
              csr_binop_csr_canonical(A, B, R, sub);
              return csr_json(R);
          }));
    r.set("emul", attempt([&] {
              CSRMatrix R(rows, cols);
              A.elementwise_mul_matrix(B, R);
              return csr_json(R);
          }));
    r.set("srow", attempt([&] {
              CSRMatrix R = A;
              DenseMatrix X(rows, 1, ivec(c.at("sr")));
              csr_scale_rows(R, X);
              return csr_json(R);
          }));
    r.set("scol", attempt([&] {
              CSRMatrix R = A;
              DenseMatrix X(cols, 1, ivec(c.at("sc")));
              csr_scale_columns(R, X);
              return csr_json(R);
          }));
    J diag = J::arr();
    r.set("diage", guarded([&] {
              unsigned n = std::min(rows, cols);
              DenseMatrix D(n, 1);
              csr_diagonal(A, D);
              for (unsigned i = 0; i < n; i++)
                  diag.push(J::integer(as_small_int(D.get(i, 0))));
          }));
    r.set("diag", diag);
    r.set("eqab", A.eq(B) ? 1 : 0);
}
