// sevdrive: replays specification-generated cases on the real library and
// records one observation event per case.
//   sevdrive <cases.ndjson> <events.ndjson>
#include <new>
#include <cstdlib>
#include <sys/resource.h>
#include "drv.h"
#include <symengine/basic.h>
#include <csignal>
#include <cstdio>
#include <cstdlib>
#include <cstring>
#include <fstream>
#include <iostream>
#include <map>
#include <unistd.h>

namespace sev
{
static std::map<std::string, Handler> &registry()
{
    static std::map<std::string, Handler> m;
    return m;
}
Registrar::Registrar(const char *op, Handler h)
{
    registry()[op] = h;
}
} // namespace sev

static int out_fd = -1;
static long long cur_id = -1;

static void crash_event(const char *why)
{
    if (out_fd >= 0) {
        char buf[256];
        int n = snprintf(buf, sizeof buf,
                         "{\"crash\":\"%s\",\"id\":%lld}\n", why, cur_id);
        ssize_t w = write(out_fd, buf, n);
        (void)w;
    }
    _exit(3);
}
namespace sev
{
// for handlers that run their own watchdog (signals are deferred by some sanitizer runtimes while threads spin)
void fatal_event(const char *why)
{
    crash_event(why);
}
} // namespace sev
static void on_signal(int sig)
{
    crash_event(sig == SIGSEGV   ? "SIGSEGV"
                : sig == SIGABRT ? "SIGABRT"
                : sig == SIGFPE  ? "SIGFPE"
                : sig == SIGBUS  ? "SIGBUS"
                : sig == SIGALRM ? "TIMEOUT"
                                 : "SIGNAL");
}
static void on_terminate()
{
    crash_event("terminate");
}

// Replaceable allocation functions backed by malloc, with an optional cap: a request above the cap throws
// bad_alloc (attacker-controlled sizes in archives then fail fast, also under ASan, whose own operator new
// treats a refused request as fatal).
#if defined(__has_feature)
#if __has_feature(thread_sanitizer)
#define SEV_NO_NEW_REPLACEMENT 1 // (the ThreadSanitizer runtime defines the allocation functions itself)
#endif
#endif
static size_t sev_new_cap = (size_t)-1;
#ifndef SEV_NO_NEW_REPLACEMENT
static void *sev_alloc(size_t n)
{
    if (n > sev_new_cap)
        throw std::bad_alloc();
    void *p = malloc(n ? n : 1);
    if (!p)
        throw std::bad_alloc();
    return p;
}
void *operator new(size_t n) { return sev_alloc(n); }
void *operator new[](size_t n) { return sev_alloc(n); }
void *operator new(size_t n, const std::nothrow_t &) noexcept
{
    return n > sev_new_cap ? nullptr : malloc(n ? n : 1);
}
void *operator new[](size_t n, const std::nothrow_t &) noexcept
{
    return n > sev_new_cap ? nullptr : malloc(n ? n : 1);
}
void operator delete(void *p, const std::nothrow_t &) noexcept { free(p); }
void operator delete[](void *p, const std::nothrow_t &) noexcept { free(p); }
void operator delete(void *p) noexcept { free(p); }
void operator delete[](void *p) noexcept { free(p); }
void operator delete(void *p, size_t) noexcept { free(p); }
void operator delete[](void *p, size_t) noexcept { free(p); }
#endif

int main(int argc, char **argv)
{
    if (const char *cap = getenv("SEV_NEW_CAP_MB"))
        sev_new_cap = (size_t)atol(cap) * 1024 * 1024;
    if (argc < 3) {
        fprintf(stderr, "usage: sevdrive cases.ndjson events.ndjson\n");
        return 2;
    }
    // optional cap on the address space (MB): attacker-controlled sizes then fail fast with bad_alloc
    if (const char *lim = getenv("SEV_AS_LIMIT_MB")) {
        struct rlimit rl;
        rl.rlim_cur = rl.rlim_max = (rlim_t)atol(lim) * 1024 * 1024;
        setrlimit(RLIMIT_AS, &rl);
    }
    std::ifstream in(argv[1]);
    if (!in) {
        fprintf(stderr, "cannot open %s\n", argv[1]);
        return 2;
    }
    FILE *out = fopen(argv[2], "w");
    if (!out)
        return 2;
    out_fd = fileno(out);
    std::set_terminate(on_terminate);
    signal(SIGSEGV, on_signal);
    signal(SIGABRT, on_signal);
    signal(SIGFPE, on_signal);
    signal(SIGBUS, on_signal);
    signal(SIGALRM, on_signal);
    const char *per_case = getenv("SEV_CASE_TIMEOUT");
    int case_timeout = per_case ? atoi(per_case) : 60;
    std::string line;
    long long n = 0;
    while (std::getline(in, line)) {
        if (line.empty())
            continue;
        sev::J c;
        try {
            c = sev::jparse(line);
        } catch (std::exception &e) {
            fprintf(stderr, "bad case line %lld: %s\n", n, e.what());
            return 2;
        }
        n++;
        cur_id = c.geti("id", n);
        sev::J ev = sev::J::obj();
        ev.set("c", c);
        sev::J r = sev::J::obj();
        auto it = sev::registry().find(c.gets("op"));
        if (it == sev::registry().end()) {
            fprintf(stderr, "unknown op %s\n", c.gets("op").c_str());
            return 2;
        }
        long live0 = SymEngine::Basic::verif_live_basic();
        alarm(case_timeout);
        std::string exc = sev::guarded([&] { it->second(c, r); });
        alarm(0);
        long live1 = SymEngine::Basic::verif_live_basic();
        r.set("exc", exc);
        r.set("live", (long long)(live1 - live0));
        ev.set("r", r);
        std::string s = ev.dump();
        fputs(s.c_str(), out);
        fputc('\n', out);
        fflush(out);
    }
    fclose(out);
    return 0;
}
