// Serialization (C19, C20).
#include "drv.h"
#include <symengine/basic.h>
#include <symengine/matrix.h>
#include <symengine/visitor.h>
#include <set>

using namespace SymEngine;
using namespace sev;

namespace
{
// number of distinct objects (by address) and of nodes (with multiplicity) in the tree
// (every visited object is kept alive until both trees are counted: get_args() of sums and products builds
//  temporary nodes, whose addresses would otherwise be reused and make the count depend on the allocator's state)
void walk(const RCP<const Basic> &b, std::set<const Basic *> &seen, long long &nodes, vec_basic &keep)
{
    nodes++;
    seen.insert(b.get());
    keep.push_back(b);
    for (auto &a : b->get_args())
        walk(a, seen, nodes, keep);
}
J bytes_of(const std::string &s)
{
    J a = J::arr();
    for (unsigned char ch : s)
        a.push(J::integer(ch));
    return a;
}
} // namespace

// {"op":"serial","ts":[recipes]}: r.items[i] = {exc, eq, orig, back, objs, objs_back, nodes, len}
//  plus a dense matrix holding all of them: r.mat = {exc, eq}
SEV_HANDLER(serial)
{
    J items = J::arr();
    vec_basic all;
    for (auto &t : c.at("ts").a) {
        J o = J::obj();
        J d0 = term("Null"), d1 = term("Null");
        long long eqf = 0, objs = 0, objs2 = 0, nodes = 0, nodes2 = 0, len = 0;
        std::string x = guarded([&] {
            RCP<const Basic> e = build(t);
            all.push_back(e);
            d0 = dump(e);
            std::string s = e->dumps();
            len = (long long)s.size();
            RCP<const Basic> l = Basic::loads(s);
            d1 = dump(l);
            eqf = eq(*e, *l) ? 1 : 0;
            std::set<const Basic *> s1, s2;
            vec_basic keep;
            walk(e, s1, nodes, keep);
            walk(l, s2, nodes2, keep);
            objs = (long long)s1.size();
            objs2 = (long long)s2.size();
        });
        o.set("exc", x);
        o.set("eq", eqf);
        o.set("orig", d0);
        o.set("back", d1);
        o.set("objs", objs);
        o.set("objs_back", objs2);
        o.set("nodes", nodes);
        o.set("nodes_back", nodes2);
        o.set("len", len);
        items.push(o);
    }
    r.set("items", items);
    J m = J::obj();
    long long meq = 0;
    m.set("exc", guarded([&] {
              if (!all.empty()) {
                  DenseMatrix A((unsigned)all.size(), 1, all);
                  DenseMatrix B = DenseMatrix::loads(A.dumps());
                  meq = (A == B) ? 1 : 0;
              } else {
                  meq = 1;
              }
          }));
    m.set("eq", meq);
    r.set("mat", m);
}

// {"op":"loadmut","t":recipe,"muts":[[pos, value]...]}: loads of the serialized bytes with byte pos%len replaced;
//  r.len, r.out[i] = {exc, usable} where usable = 1 when the loaded expression could be printed, hashed, compared
SEV_HANDLER(loadmut)
{
    RCP<const Basic> e = build(c.at("t"));
    std::string s = e->dumps();
    r.set("len", (long long)s.size());
    J out = J::arr();
    for (auto &mj : c.at("muts").a) {
        std::string t = s;
        long long pos = mj.a[0].i, val = mj.a[1].i;
        std::string mode = mj.a.size() > 2 ? mj.a[2].s : "set";
        if (!t.empty()) {
            size_t p = (size_t)(pos % (long long)t.size());
            if (mode == "set")
                t[p] = (char)(unsigned char)val;
            else if (mode == "xor")
                t[p] = (char)((unsigned char)t[p] ^ (unsigned char)val);
            else if (mode == "cut")
                t = t.substr(0, p);
            else if (mode == "dup")
                t = t.substr(0, p) + t.substr(p > 8 ? p - 8 : 0);
            else if (mode == "backref") {
                // structural mutation: the val-th object record (address, first_seen = 1, ...) is replaced by a
                // back reference (address of the pos-th record, first_seen = 0) and its own bytes up to the next
                // record are dropped.  Records are located by their shape: an aligned heap address and a 1.
                std::vector<size_t> recs;
                for (size_t o = 1; o + 9 <= s.size(); o++) {
                    const unsigned char *q = (const unsigned char *)s.data() + o;
                    if (q[8] == 1 && q[7] == 0 && q[6] == 0 && (q[5] != 0 || q[4] != 0) && q[0] % 8 == 0
                        && (recs.empty() || o >= recs.back() + 9))
                        recs.push_back(o);
                }
                size_t i = (size_t)pos, j = (size_t)val;
                if (i < j && j < recs.size()) {
                    size_t next = j + 1 < recs.size() ? recs[j + 1] : s.size();
                    t = s.substr(0, recs[j]) + s.substr(recs[i], 8) + std::string(1, '\0') + s.substr(next);
                } else
                    t = "";
            }
        }
        J o = J::obj();
        long long usable = 0;
        J dl = term("Null");
        o.set("exc", guarded([&] {
                  RCP<const Basic> l = Basic::loads(t);
                  if (mode == "backref")
                      dl = dump(l); // (by dynamic type: shows what sits in each typed slot)
                  std::string str = l->__str__();
                  hash_t h = l->hash();
                  (void)h;
                  bool same = eq(*l, *e);
                  (void)same;
                  (void)l->__cmp__(*e);
                  usable = 1;
              }));
        o.set("usable", usable);
        o.set("d", dl);
        out.push(o);
    }
    r.set("out", out);
}
