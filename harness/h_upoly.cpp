// Univariate polynomials (UIntPoly, URatPoly, UExprPoly): operations on coefficient lists.
#include "drv.h"
#include <symengine/polys/uintpoly.h>
#include <symengine/polys/uratpoly.h>
#include <symengine/polys/uexprpoly.h>
#include <symengine/polys/basic_conversions.h>
#include <symengine/symbol.h>
#include <symengine/integer.h>
#include <symengine/rational.h>
#include <symengine/visitor.h>

using namespace SymEngine;
using namespace sev;

namespace
{
rational_class to_q(const J &t)
{
    const std::string &k = t.at("k").s;
    if (k == "Rat")
        return rational_class(integer_class((long)t.at("n").i), integer_class((long)t.at("d").i));
    return rational_class(build_integer(t));
}
// coefficient list (index = degree) of the result, as terms
template <class P>
J coeffs_of(const RCP<const P> &p);
template <>
J coeffs_of(const RCP<const UIntPoly> &p)
{
    J a = J::arr();
    int d = p->get_degree();
    for (int i = 0; i <= d; i++)
        a.push(dump_int(p->get_coeff(i)));
    return a;
}
template <>
J coeffs_of(const RCP<const URatPoly> &p)
{
    J a = J::arr();
    int d = p->get_degree();
    for (int i = 0; i <= d; i++)
        a.push(dump_rat(p->get_coeff(i)));
    return a;
}
template <>
J coeffs_of(const RCP<const UExprPoly> &p)
{
    J a = J::arr();
    int d = p->get_degree();
    for (int i = 0; i <= d; i++)
        a.push(dump(p->get_coeff(i).get_basic()));
    return a;
}
template <class P, class C>
RCP<const P> mk(const RCP<const Basic> &x, const J &list, C conv)
{
    std::vector<decltype(conv(list.a[0]))> v;
    for (auto &t : list.a)
        v.push_back(conv(t));
    return P::from_vec(x, v);
}
J fail(const std::string &e)
{
    J o = J::obj();
    o.set("exc", e);
    o.set("c", J::arr());
    o.set("n", 0);
    return o;
}
template <class P>
J okp(const RCP<const P> &p)
{
    J o = J::obj();
    o.set("exc", "");
    o.set("c", coeffs_of<P>(p));
    o.set("n", (long long)p->get_degree());
    return o;
}
template <class P, class F>
J attempt(F f)
{
    J res;
    std::string e = guarded([&] { res = okp<P>(f()); });
    return e.empty() ? res : fail(e);
}

template <class P, class C, class E>
void run(const J &c, J &r, C conv, E evalpt)
{
    RCP<const Basic> x = symbol("x");
    RCP<const P> a = mk<P>(x, c.at("a"), conv), b = mk<P>(x, c.at("b"), conv);
    r.set("a", okp<P>(a));
    r.set("add", attempt<P>([&] { return add_upoly(*a, *b); }));
    r.set("sub", attempt<P>([&] { return sub_upoly(*a, *b); }));
    r.set("mul", attempt<P>([&] { return mul_upoly(*a, *b); }));
    r.set("neg", attempt<P>([&] { return neg_upoly(*a); }));
    r.set("pow", attempt<P>([&] { return pow_upoly(*a, (unsigned)c.at("k").i); }));
    r.set("diff", attempt<P>([&] {
              RCP<const Basic> d = a->diff(rcp_static_cast<const Symbol>(x));
              return rcp_static_cast<const P>(d);
          }));
    r.set("rt", attempt<P>([&] { return from_basic<P>(a->as_symbolic(), x); }));
    r.set("prodrt", attempt<P>([&] { return from_basic<P>(mul(a->as_symbolic(), b->as_symbolic()), x); }));
    // evaluation at the given points
    J ev = J::arr();
    r.set("evale", guarded([&] {
              for (auto &pt : c.at("pts").a)
                  ev.push(evalpt(*a, pt));
          }));
    r.set("eval", ev);
    // exact division: does b divide a*b ?  does b divide a ?
    J dv = J::obj();
    std::string e = guarded([&] {
        RCP<const P> q;
        bool d1 = divides_upoly(*b, *mul_upoly(*a, *b), outArg(q));
        dv.set("prod", d1 ? 1 : 0);
        dv.set("q", d1 ? okp<P>(q) : fail(""));
        RCP<const P> q2;
        bool d2 = divides_upoly(*b, *a, outArg(q2));
        dv.set("plain", d2 ? 1 : 0);
        dv.set("q2", d2 ? okp<P>(q2) : fail(""));
    });
    dv.set("exc", e);
    if (!e.empty()) {
        dv.set("prod", 0);
        dv.set("q", fail(e));
        dv.set("plain", 0);
        dv.set("q2", fail(e));
    }
    r.set("div", dv);
}
} // namespace

// {"op":"upoly","kind":"UInt|URat","a":[coef...],"b":[coef...],"k":n,"pts":[...]}
SEV_HANDLER(upoly)
{
    const std::string &kind = c.at("kind").s;
    if (kind == "UInt") {
        run<UIntPoly>(
            c, r, [](const J &t) { return build_integer(t); },
            [](const UIntPoly &p, const J &pt) { return dump_int(p.eval(build_integer(pt))); });
    } else if (kind == "URat") {
        run<URatPoly>(
            c, r, [](const J &t) { return to_q(t); },
            [](const URatPoly &p, const J &pt) { return dump_rat(p.eval(to_q(pt))); });
    } else
        throw std::runtime_error("upoly: kind");
}
