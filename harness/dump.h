// Structural dumper: the projection function of the refinement mapping.
// Every term record has exactly the fields k (string), a (array of terms),
// s (string), n (int), d (int) so that TLC never compares values of different
// types.
#ifndef SEV_DUMP_H
#define SEV_DUMP_H
#include "json.h"
#include <symengine/basic.h>
#include <symengine/mp_class.h>
#include <symengine/sets.h>
#include <symengine/logic.h>

namespace sev
{

J term(const std::string &k, const std::vector<J> &a = {},
       const std::string &s = "", long long n = 0, long long d = 0);
J dump_int(const SymEngine::integer_class &i);
J dump_rat(const SymEngine::rational_class &q);
J dump_double(double x);
J dump(const SymEngine::RCP<const SymEngine::Basic> &b);
J dump(const SymEngine::Basic &b);
J dump_vec(const SymEngine::vec_basic &v);
// JSON array of one-character strings (for text the specification scans)
J chars(const std::string &s);
// exception class name of the in-flight exception (call inside catch(...))
std::string exc_name();

} // namespace sev
#endif
