// Lambda double evaluators: replay of MC_Lambda histories on ONE visitor object.
#include "drv.h"
#include <symengine/lambda_double.h>
#include <symengine/symbol.h>
#include <complex>
#include <map>

using namespace SymEngine;
using namespace sev;

namespace
{
struct Data {
    std::vector<vec_basic> outs;
    std::vector<std::vector<double>> rvecs;
    std::vector<std::vector<std::complex<double>>> cvecs;
};
std::map<std::string, Data> &store()
{
    static std::map<std::string, Data> s;
    return s;
}
vec_basic inputs_for(size_t n)
{
    vec_basic v;
    const char *names[] = {"x", "y", "z"};
    for (size_t i = 0; i < n; i++)
        v.push_back(symbol(names[i]));
    return v;
}
J dbls(const std::vector<double> &v)
{
    J a = J::arr();
    for (double d : v)
        a.push(dump_double(d));
    return a;
}
J cdbls(const std::vector<std::complex<double>> &v)
{
    J a = J::arr();
    for (auto &d : v)
        a.push(term("CDbl", {dump_double(d.real()), dump_double(d.imag())}));
    return a;
}
} // namespace

SEV_HANDLER(lambda_data)
{
    Data d;
    for (auto &l : c.at("outs").a) {
        vec_basic v;
        for (auto &t : l.a)
            v.push_back(build(t));
        d.outs.push_back(v);
    }
    for (auto &l : c.at("vecs").a) {
        std::vector<double> rv;
        std::vector<std::complex<double>> cv;
        for (auto &t : l.a) {
            if (t.at("k").s == "CDbl")
                cv.push_back({build_double(t.at("a").a[0]), build_double(t.at("a").a[1])});
            else
                rv.push_back(build_double(t));
        }
        d.rvecs.push_back(rv);
        d.cvecs.push_back(cv);
    }
    store()[c.at("kind").s] = d;
    r.set("n", (long long)d.outs.size());
}

template <class V, class T, class F>
static J run_lambda(const Data &d, const J &steps, const std::vector<std::vector<T>> &vecs, F tojson)
{
    V vis; // ONE object for the whole history
    J log = J::arr();
    size_t nin = vecs.empty() ? 0 : vecs[0].size();
    vec_basic inputs = inputs_for(nin);
    long long cur = 0;
    bool curcse = false;
    for (auto &s : steps.a) {
        J e = J::obj();
        e.set("a", s.at("a").s);
        e.set("c", s.at("c").i);
        e.set("cse", s.at("cse").i);
        e.set("v", s.at("v").i);
        J out = J::arr(), fresh = J::arr(), nocse = J::arr();
        std::string exc;
        if (s.at("a").s == "init") {
            cur = s.at("c").i;
            curcse = s.at("cse").i != 0;
            exc = guarded([&] { vis.init(inputs, d.outs.at(cur - 1), curcse); });
        } else {
            const std::vector<T> &in = vecs.at(s.at("v").i - 1);
            const vec_basic &outs = d.outs.at(cur - 1);
            exc = guarded([&] {
                std::vector<T> o(outs.size());
                vis.call(o.data(), in.data());
                out = tojson(o);
                V f1;
                f1.init(inputs, outs, curcse);
                std::vector<T> o1(outs.size());
                f1.call(o1.data(), in.data());
                fresh = tojson(o1);
                V f2;
                f2.init(inputs, outs, false);
                std::vector<T> o2(outs.size());
                f2.call(o2.data(), in.data());
                nocse = tojson(o2);
            });
        }
        e.set("out", out);
        e.set("fresh", fresh);
        e.set("nocse", nocse);
        e.set("exc", exc);
        log.push(e);
    }
    return log;
}

// {"op":"lambda","kind":"real|complex","steps":[{"a":"init|call","c":..,"cse":..,"v":..},..]}
SEV_HANDLER(lambda)
{
    const std::string &kind = c.at("kind").s;
    const Data &d = store().at(kind);
    if (kind == "real")
        r.set("steps", run_lambda<LambdaRealDoubleVisitor, double>(d, c.at("steps"), d.rvecs, dbls));
    else
        r.set("steps", run_lambda<LambdaComplexDoubleVisitor, std::complex<double>>(d, c.at("steps"), d.cvecs, cdbls));
}
