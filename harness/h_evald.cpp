// Double-precision evaluators (C12).
#include "drv.h"
#include <symengine/eval_double.h>
#include <symengine/eval.h>
#include <symengine/real_double.h>
#include <symengine/complex_double.h>
#include <symengine/lambda_double.h>
#include <complex>
#include <functional>

using namespace SymEngine;
using namespace sev;

// {"op":"evald","t":recipe}: r.<name> = {exc, v} for name in visitor, single, default, evalf53, evalf20, complex (CDbl), lambda
SEV_HANDLER(evald)
{
    RCP<const Basic> e = build(c.at("t"));
    r.set("e", dump(e));
    auto put = [&](const char *name, std::function<J()> f) {
        J o = J::obj();
        J v = term("Null");
        o.set("exc", guarded([&] { v = f(); }));
        o.set("v", v);
        r.set(name, o);
    };
    put("default", [&] { return dump_double(eval_double(*e)); });
    put("visitor", [&] { return dump_double(eval_double_visitor_pattern(*e)); });
    put("single", [&] { return dump_double(eval_double_single_dispatch(*e)); });
    put("evalf53", [&] { return dump(evalf(*e, 53, EvalfDomain::Real)); });
    put("evalf20", [&] { return dump(evalf(*e, 20, EvalfDomain::Real)); });
    put("complex", [&] {
        std::complex<double> z = eval_complex_double(*e);
        return term("CDbl", {dump_double(z.real()), dump_double(z.imag())});
    });
    put("lambda", [&] {
        LambdaRealDoubleVisitor v;
        v.init({}, *e);
        return dump_double(v.call({}));
    });
}
