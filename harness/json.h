// Minimal JSON value, parser and writer for the conformance harness.
#ifndef SEV_JSON_H
#define SEV_JSON_H
#include <cstdint>
#include <map>
#include <memory>
#include <sstream>
#include <stdexcept>
#include <string>
#include <vector>

namespace sev
{

struct J;
typedef std::shared_ptr<J> JP;

struct J {
    enum Kind { Null, Bool, Int, Str, Arr, Obj } kind = Null;
    bool b = false;
    long long i = 0;
    std::string s;
    std::vector<J> a;
    std::vector<std::pair<std::string, J>> o;

    J() {}
    static J integer(long long v)
    {
        J j;
        j.kind = Int;
        j.i = v;
        return j;
    }
    static J boolean(bool v)
    {
        J j;
        j.kind = Bool;
        j.b = v;
        return j;
    }
    static J str(const std::string &v)
    {
        J j;
        j.kind = Str;
        j.s = v;
        return j;
    }
    static J arr()
    {
        J j;
        j.kind = Arr;
        return j;
    }
    static J obj()
    {
        J j;
        j.kind = Obj;
        return j;
    }
    J &push(const J &v)
    {
        a.push_back(v);
        return *this;
    }
    J &set(const std::string &k, const J &v)
    {
        for (auto &p : o)
            if (p.first == k) {
                p.second = v;
                return *this;
            }
        o.push_back({k, v});
        return *this;
    }
    J &set(const std::string &k, long long v)
    {
        return set(k, integer(v));
    }
    J &set(const std::string &k, int v)
    {
        return set(k, integer(v));
    }
    J &set(const std::string &k, const char *v)
    {
        return set(k, str(v));
    }
    J &set(const std::string &k, const std::string &v)
    {
        return set(k, str(v));
    }
    bool has(const std::string &k) const
    {
        for (auto &p : o)
            if (p.first == k)
                return true;
        return false;
    }
    const J &at(const std::string &k) const
    {
        for (auto &p : o)
            if (p.first == k)
                return p.second;
        throw std::runtime_error("json: missing key " + k);
    }
    const J &at(size_t idx) const
    {
        if (idx >= a.size())
            throw std::runtime_error("json: index out of range");
        return a[idx];
    }
    long long geti(const std::string &k, long long dflt = 0) const
    {
        return has(k) ? at(k).i : dflt;
    }
    std::string gets(const std::string &k, const std::string &dflt = "") const
    {
        return has(k) ? at(k).s : dflt;
    }
    size_t size() const
    {
        return kind == Arr ? a.size() : o.size();
    }

    static void esc(std::ostream &os, const std::string &s)
    {
        os << '"';
        for (unsigned char c : s) {
            switch (c) {
                case '"':
                    os << "\\\"";
                    break;
                case '\\':
                    os << "\\\\";
                    break;
                case '\n':
                    os << "\\n";
                    break;
                case '\r':
                    os << "\\r";
                    break;
                case '\t':
                    os << "\\t";
                    break;
                default:
                    if (c < 0x20 || c >= 0x7f) {
                        char buf[8];
                        snprintf(buf, sizeof buf, "\\u%04x", c);
                        os << buf;
                    } else
                        os << c;
            }
        }
        os << '"';
    }
    void write(std::ostream &os) const
    {
        switch (kind) {
            case Null:
                os << "null";
                break;
            case Bool:
                os << (b ? "true" : "false");
                break;
            case Int:
                os << i;
                break;
            case Str:
                esc(os, s);
                break;
            case Arr: {
                os << '[';
                bool f = true;
                for (auto &v : a) {
                    if (!f)
                        os << ',';
                    f = false;
                    v.write(os);
                }
                os << ']';
                break;
            }
            case Obj: {
                os << '{';
                bool f = true;
                for (auto &p : o) {
                    if (!f)
                        os << ',';
                    f = false;
                    esc(os, p.first);
                    os << ':';
                    p.second.write(os);
                }
                os << '}';
                break;
            }
        }
    }
    std::string dump() const
    {
        std::ostringstream os;
        write(os);
        return os.str();
    }
};

class JParser
{
    const std::string &t;
    size_t p = 0;
    void ws()
    {
        while (p < t.size()
               && (t[p] == ' ' || t[p] == '\n' || t[p] == '\t' || t[p] == '\r'))
            p++;
    }
    [[noreturn]] void fail(const char *m)
    {
        throw std::runtime_error(std::string("json parse: ") + m + " at "
                                 + std::to_string(p));
    }

public:
    JParser(const std::string &text) : t(text) {}
    J parse()
    {
        ws();
        if (p >= t.size())
            fail("eof");
        char c = t[p];
        if (c == '{') {
            J j = J::obj();
            p++;
            ws();
            if (t[p] == '}') {
                p++;
                return j;
            }
            while (true) {
                ws();
                J k = parse();
                if (k.kind != J::Str)
                    fail("key");
                ws();
                if (t[p] != ':')
                    fail(":");
                p++;
                J v = parse();
                j.o.push_back({k.s, v});
                ws();
                if (t[p] == ',') {
                    p++;
                    continue;
                }
                if (t[p] == '}') {
                    p++;
                    return j;
                }
                fail("obj");
            }
        }
        if (c == '[') {
            J j = J::arr();
            p++;
            ws();
            if (t[p] == ']') {
                p++;
                return j;
            }
            while (true) {
                j.a.push_back(parse());
                ws();
                if (t[p] == ',') {
                    p++;
                    continue;
                }
                if (t[p] == ']') {
                    p++;
                    return j;
                }
                fail("arr");
            }
        }
        if (c == '"') {
            p++;
            std::string s;
            while (p < t.size() && t[p] != '"') {
                if (t[p] == '\\') {
                    p++;
                    char e = t[p];
                    if (e == 'n')
                        s += '\n';
                    else if (e == 't')
                        s += '\t';
                    else if (e == 'r')
                        s += '\r';
                    else if (e == 'b')
                        s += '\b';
                    else if (e == 'f')
                        s += '\f';
                    else if (e == 'u') {
                        unsigned v = std::stoul(t.substr(p + 1, 4), nullptr, 16);
                        p += 4;
                        if (v < 0x100)
                            s += (char)v;
                        else {
                            // encode as UTF-8
                            if (v < 0x800) {
                                s += (char)(0xC0 | (v >> 6));
                                s += (char)(0x80 | (v & 0x3F));
                            } else {
                                s += (char)(0xE0 | (v >> 12));
                                s += (char)(0x80 | ((v >> 6) & 0x3F));
                                s += (char)(0x80 | (v & 0x3F));
                            }
                        }
                    } else
                        s += e;
                    p++;
                } else
                    s += t[p++];
            }
            p++;
            return J::str(s);
        }
        if (c == 't') {
            p += 4;
            return J::boolean(true);
        }
        if (c == 'f') {
            p += 5;
            return J::boolean(false);
        }
        if (c == 'n') {
            p += 4;
            return J();
        }
        // number (integers only)
        size_t q = p;
        if (t[q] == '-')
            q++;
        while (q < t.size() && isdigit((unsigned char)t[q]))
            q++;
        if (q == p)
            fail("value");
        J j = J::integer(std::stoll(t.substr(p, q - p)));
        p = q;
        return j;
    }
};

inline J jparse(const std::string &s)
{
    JParser p(s);
    return p.parse();
}

} // namespace sev
#endif
