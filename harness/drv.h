// Driver registry: one handler per case kind ("op").
#ifndef SEV_DRV_H
#define SEV_DRV_H
#include "json.h"
#include "dump.h"
#include "build.h"
#include <string>

namespace sev
{
// A handler executes one case (already parsed) on the real library and fills
// the result object r.  Exceptions escaping a handler are recorded by main as
// r.exc = <class name>.
typedef void (*Handler)(const J &c, J &r);
struct Registrar {
    Registrar(const char *op, Handler h);
};
#define SEV_HANDLER(name)                                                      \
    static void handler_##name(const sev::J &c, sev::J &r);                    \
    static sev::Registrar registrar_##name(#name, handler_##name);             \
    static void handler_##name(const sev::J &c, sev::J &r)

// record a crash event for the current case and leave the process (exit status 3)
void fatal_event(const char *why);

// run f, return "" or the exception class name
template <class F>
std::string guarded(F f)
{
    try {
        f();
        return "";
    } catch (...) {
        return exc_name();
    }
}
} // namespace sev
#endif
