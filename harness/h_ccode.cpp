// Generated C code (C15).
#include "drv.h"
#include <symengine/printers.h>
#include <symengine/printers/codegen.h>
#include <symengine/eval_double.h>
#include <symengine/subs.h>
#include <symengine/real_double.h>
#include <symengine/symbol.h>
#include <cctype>
#include <cstdio>
#include <cstdlib>
#include <fstream>
#include <set>
#include <sstream>
#include <unistd.h>

using namespace SymEngine;
using namespace sev;

// {"op":"ccode","ts":[recipes],"x":<double dump term>,"y":<double dump term>}
//  every expression is printed by ccode / c89code / c99code into one C file (functions of double x, y), compiled with cc
//  and run; r.items[i] = {bexc, lib:{exc,v}, c:{exc,v}, c89:{...}, c99:{...}}  (v = dumped double)
static std::string lit(double d)
{
    char buf[64];
    snprintf(buf, sizeof buf, "%.17g", d);
    std::string t = buf;
    if (t.find_first_of(".eE") == std::string::npos)
        t += ".0";
    return "(" + t + ")";
}
SEV_HANDLER(ccode)
{
    double xv = down_cast<const RealDouble &>(*build(c.at("x"))).i;
    double yv = down_cast<const RealDouble &>(*build(c.at("y"))).i;
    map_basic_basic m;
    m[symbol("x")] = real_double(xv);
    m[symbol("y")] = real_double(yv);
    size_t n = c.at("ts").a.size();
    std::vector<RCP<const Basic>> es(n);
    std::vector<std::string> bexc(n);
    const char *kinds[3] = {"c", "c89", "c99"};
    std::vector<std::vector<std::string>> src(n, std::vector<std::string>(3)), pexc(n, std::vector<std::string>(3));
    for (size_t i = 0; i < n; i++) {
        bexc[i] = guarded([&] { es[i] = build(c.at("ts").a[i]); });
        if (es[i].is_null())
            continue;
        pexc[i][0] = guarded([&] { src[i][0] = ccode(*es[i]); });
        pexc[i][1] = guarded([&] { C89CodePrinter p89; src[i][1] = p89.apply(*es[i]); });
        pexc[i][2] = guarded([&] { C99CodePrinter p99; src[i][2] = p99.apply(*es[i]); });
    }
    // one translation unit per printer (a construct one compiler mode rejects must not hide the others)
    char dir[] = "/tmp/sevccXXXXXX";
    if (!mkdtemp(dir))
        throw std::runtime_error("mkdtemp");
    std::vector<std::vector<std::string>> outv(n, std::vector<std::string>(3)), cexc(n, std::vector<std::string>(3));
    for (int k = 0; k < 3; k++) {
        std::string cfile = std::string(dir) + "/f" + kinds[k] + ".c", exe = std::string(dir) + "/f" + kinds[k];
        {
            std::ofstream f(cfile);
            f << "#include <math.h>\n#include <stdio.h>\n#include <stdbool.h>\n";
            for (size_t i = 0; i < n; i++)
                if (!es[i].is_null() && pexc[i][k].empty())
                    f << "static double f" << i << "(double x, double y) { return " << src[i][k] << "; }\n";
            f << "int main(void) {\n";
            for (size_t i = 0; i < n; i++)
                if (!es[i].is_null() && pexc[i][k].empty())
                    f << "  printf(\"" << i << " %.17g\\n\", f" << i << "(" << lit(xv) << ", " << lit(yv) << "));\n";
            f << "  return 0;\n}\n";
        }
        std::string std_ = k == 1 ? "-std=c89" : "-std=c99";
        std_ += " -Werror=implicit-function-declaration";
        std::string cmd = "LC_ALL=C cc " + std_ + " -O0 -o " + exe + " " + cfile + " -lm 2> " + exe + ".err";
        int rc = system(cmd.c_str());
        if (rc != 0) {
            // find the offending functions: those named in the diagnostics and those calling a function reported as
            // undeclared (the compiler reports each undeclared name once); all when that does not suffice
            std::set<size_t> suspects;
            {
                std::ifstream ef(exe + ".err");
                std::string ln;
                std::set<std::string> names;
                while (std::getline(ef, ln)) {
                    size_t q = ln.find("n function ");
                    if (q != std::string::npos) {
                        q = ln.find('f', q + 11);
                        if (q != std::string::npos && isdigit((unsigned char)ln[q + 1]))
                            suspects.insert((size_t)atol(ln.c_str() + q + 1));
                    }
                    q = ln.find("implicit declaration of function '");
                    if (q != std::string::npos) {
                        size_t a = q + 34, b = ln.find('\'', a);
                        if (b != std::string::npos)
                            names.insert(ln.substr(a, b - a) + "(");
                    }
                }
                for (size_t i = 0; i < n; i++)
                    for (const auto &nm : names)
                        if (src[i][k].find(nm) != std::string::npos)
                            suspects.insert(i);
            }
            for (int pass = 0; pass < 2 && rc != 0; pass++) {
            for (size_t i = 0; i < n; i++) {
                if (es[i].is_null() || !pexc[i][k].empty() || !cexc[i][k].empty())
                    continue;
                if (pass == 0 && !suspects.empty() && !suspects.count(i))
                    continue;
                std::string one = std::string(dir) + "/one.c";
                {
                    std::ofstream f(one);
                    f << "#include <math.h>\n#include <stdbool.h>\nstatic double f(double x, double y) { return " << src[i][k] << "; }\nint main(void){ return f(1, 2) > 0; }\n";
                }
                std::string err1 = std::string(dir) + "/one.err";
                std::string c1 = "LC_ALL=C cc " + std_ + " -O0 -o " + std::string(dir) + "/one " + one + " -lm 2> " + err1;
                if (system(c1.c_str()) != 0) {
                    // a call of a function the dialect's <math.h> does not declare is the printer's fallback for
                    // functions without a C counterpart (the caller supplies it): reported apart from malformed source
                    std::ifstream ef(err1);
                    std::string ln, fn;
                    bool other = false;
                    while (std::getline(ef, ln)) {
                        if (ln.find("error:") == std::string::npos)
                            continue;
                        size_t q = ln.find("implicit declaration of function");
                        if (q == std::string::npos) {
                            // (likewise a C99 <math.h> macro under the older dialect)
                            if (ln.find("'NAN' undeclared") != std::string::npos
                                || ln.find("'INFINITY' undeclared") != std::string::npos) {
                                if (fn.empty())
                                    fn = ln.find("'NAN'") != std::string::npos ? "NAN" : "INFINITY";
                            } else
                                other = true;
                            continue;
                        }
                        size_t a = ln.find_first_of("'`\xe2", q), b = std::string::npos;
                        if (fn.empty() && a != std::string::npos) {
                            while (a < ln.size() && !isalpha((unsigned char)ln[a]) && ln[a] != '_')
                                a++;
                            b = a;
                            while (b < ln.size() && (isalnum((unsigned char)ln[b]) || ln[b] == '_'))
                                b++;
                            fn = ln.substr(a, b - a);
                        }
                    }
                    cexc[i][k] = (!other && !fn.empty()) ? "external-function:" + fn : "does-not-compile";
                }
            }
            // and run the rest
            std::ofstream f(cfile);
            f << "#include <math.h>\n#include <stdio.h>\n#include <stdbool.h>\n";
            for (size_t i = 0; i < n; i++)
                if (!es[i].is_null() && pexc[i][k].empty() && cexc[i][k].empty())
                    f << "static double f" << i << "(double x, double y) { return " << src[i][k] << "; }\n";
            f << "int main(void) {\n";
            for (size_t i = 0; i < n; i++)
                if (!es[i].is_null() && pexc[i][k].empty() && cexc[i][k].empty())
                    f << "  printf(\"" << i << " %.17g\\n\", f" << i << "(" << lit(xv) << ", " << lit(yv) << "));\n";
            f << "  return 0;\n}\n";
            f.close();
            rc = system(cmd.c_str());
            }
        }
        if (rc == 0) {
            std::string cmd2 = exe + " > " + exe + ".out";
            if (system(cmd2.c_str()) == 0) {
                std::ifstream o(exe + ".out");
                size_t idx;
                std::string hex;
                while (o >> idx >> hex)
                    if (idx < n)
                        outv[idx][k] = hex;
            }
        }
    }
    std::string rm = std::string("rm -rf ") + dir;
    if (!getenv("SEV_KEEP_CC"))
        (void)!system(rm.c_str());
    J items = J::arr();
    for (size_t i = 0; i < n; i++) {
        J o = J::obj();
        o.set("bexc", bexc[i]);
        o.set("e", es[i].is_null() ? term("Null") : dump(es[i])); // the object that is printed
        J lib = J::obj();
        J lv = term("Null");
        lib.set("exc", es[i].is_null() ? std::string("-") : guarded([&] { lv = dump_double(eval_double(*es[i]->subs(m))); }));
        lib.set("v", lv);
        o.set("lib", lib);
        for (int k = 0; k < 3; k++) {
            J p = J::obj();
            std::string x = pexc[i][k].empty() ? cexc[i][k] : pexc[i][k];
            J v = term("Null");
            if (x.empty()) {
                if (outv[i][k].empty())
                    x = "no-output";
                else
                    v = dump_double(strtod(outv[i][k].c_str(), nullptr));
            }
            p.set("exc", x);
            p.set("v", v);
            p.set("src", src[i][k]);
            o.set(kinds[k], p);
        }
        items.push(o);
    }
    r.set("items", items);
}
