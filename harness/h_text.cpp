// Parser and printer (C16, C17, C18).
#include "drv.h"
#include <symengine/parser.h>
#include <symengine/parser/parser.h>
#include <symengine/printers.h>
#include <symengine/basic.h>

using namespace SymEngine;
using namespace sev;

// {"op":"parse","s":string,"t":recipe}: r.p dump(parse(s)), r.pexc; r.b dump(build(t)), r.bexc; r.eq
SEV_HANDLER(parse)
{
    RCP<const Basic> p, b;
    J dp = term("Null"), db = term("Null");
    r.set("pexc", guarded([&] {
              p = parse(c.at("s").s);
              dp = dump(p);
          }));
    r.set("bexc", guarded([&] {
              b = build(c.at("t"));
              db = dump(b);
          }));
    r.set("p", dp);
    r.set("b", db);
    r.set("eq", (long long)((!p.is_null() && !b.is_null() && eq(*p, *b)) ? 1 : 0));
}

// {"op":"pp","ts":[recipes]}: for each recipe: orig dump, printed string, dump of parse(printed), eq(parse(str(e)), e)
SEV_HANDLER(pp)
{
    J orig = J::arr(), strs = J::arr(), back = J::arr(), eqs = J::arr(), excs = J::arr();
    for (auto &t : c.at("ts").a) {
        RCP<const Basic> e, q;
        std::string s;
        J dq = term("Null");
        std::string x = guarded([&] {
            e = build(t);
            s = e->__str__();
            q = parse(s);
            dq = dump(q);
        });
        orig.push(e.is_null() ? term("Null") : dump(e));
        strs.push(J::str(s));
        back.push(dq);
        eqs.push(J::integer((!e.is_null() && !q.is_null() && eq(*e, *q)) ? 1 : 0));
        excs.push(J::str(x));
    }
    r.set("orig", orig);
    r.set("strs", strs);
    r.set("back", back);
    r.set("eqs", eqs);
    r.set("excs", excs);
}

// {"op":"parseseq","ss":[strings]}: one Parser object reused for all inputs vs a fresh parse of each:
//  r.reused[i], r.fresh[i] = {exc, v}
SEV_HANDLER(parseseq)
{
    Parser reused;
    J a = J::arr(), f = J::arr();
    for (auto &sj : c.at("ss").a) {
        const std::string &s = sj.s;
        J o1 = J::obj(), o2 = J::obj();
        J d1 = term("Null"), d2 = term("Null");
        o1.set("exc", guarded([&] { d1 = dump(reused.parse(s)); }));
        o1.set("v", d1);
        o2.set("exc", guarded([&] { d2 = dump(parse(s)); }));
        o2.set("v", d2);
        a.push(o1);
        f.push(o2);
    }
    r.set("reused", a);
    r.set("fresh", f);
}

// {"op":"parsetoks","seqs":[[tokens...]...]}: every input is the concatenation of its tokens (a token may be a
// list of byte values); one Parser object is reused for all inputs and compared with a fresh parse of each.
//  r.reused[i], r.fresh[i] = {exc, v};  r.sbml[i] = {exc} (parse_sbml of the same text: outcome only)
SEV_HANDLER(parsetoks)
{
    Parser reused;
    J a = J::arr(), f = J::arr(), sb = J::arr();
    for (auto &seq : c.at("seqs").a) {
        std::string s;
        for (auto &t : seq.a) {
            s += t.at("s").s;
            for (auto &b : t.at("b").a)
                s.push_back((char)(unsigned char)b.i);
        }
        J o1 = J::obj(), o2 = J::obj(), o3 = J::obj();
        J d1 = term("Null"), d2 = term("Null");
        o1.set("exc", guarded([&] { d1 = dump(reused.parse(s)); }));
        o1.set("v", d1);
        o2.set("exc", guarded([&] { d2 = dump(parse(s)); }));
        o2.set("v", d2);
        o3.set("exc", guarded([&] { parse_sbml(s); }));
        a.push(o1);
        f.push(o2);
        sb.push(o3);
    }
    r.set("reused", a);
    r.set("fresh", f);
    r.set("sbml", sb);
}
