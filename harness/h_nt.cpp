// Number-theoretic functions (C32).
#include "drv.h"
#include <symengine/ntheory.h>
#include <symengine/ntheory_funcs.h>
#include <symengine/integer.h>
#include <symengine/rational.h>
#include <symengine/functions.h>
#include <functional>

using namespace SymEngine;
using namespace sev;

namespace
{
RCP<const Integer> ZI(long long v)
{
    return integer((long)v);
}
J di(const RCP<const Integer> &i)
{
    return dump_int(i->as_integer_class());
}
J dz(const integer_class &i)
{
    return dump_int(i);
}
J ints(const std::vector<RCP<const Integer>> &v)
{
    J a = J::arr();
    for (auto &x : v)
        a.push(di(x));
    return a;
}
// run f filling o; on exception o = {"exc": name}
J att(std::function<void(J &)> f)
{
    J o = J::obj();
    o.set("exc", "");
    std::string e = guarded([&] { f(o); });
    if (!e.empty()) {
        o = J::obj();
        o.set("exc", e);
    }
    return o;
}
} // namespace

// {"op":"nt1","n":N}  one-argument functions of a non-negative integer
SEV_HANDLER(nt1)
{
    long long n = c.at("n").i;
    RCP<const Integer> N = ZI(n);
    r.set("fibonacci", att([&](J &o) { o.set("v", di(fibonacci((unsigned long)n))); }));
    r.set("lucas", att([&](J &o) { o.set("v", di(lucas((unsigned long)n))); }));
    r.set("fibonacci2", att([&](J &o) {
              RCP<const Integer> g, s;
              fibonacci2(outArg(g), outArg(s), (unsigned long)n);
              o.set("v", di(g));
              o.set("w", di(s));
          }));
    r.set("lucas2", att([&](J &o) {
              RCP<const Integer> g, s;
              lucas2(outArg(g), outArg(s), (unsigned long)n);
              o.set("v", di(g));
              o.set("w", di(s));
          }));
    r.set("factorial", att([&](J &o) { o.set("v", di(factorial((unsigned long)n))); }));
    auto fac = [&](const char *name, std::function<int(const Ptr<RCP<const Integer>> &)> f) {
        r.set(name, att([&](J &o) {
                  RCP<const Integer> g = ZI(0);
                  int rc = f(outArg(g));
                  o.set("rc", rc);
                  o.set("v", di(g));
              }));
    };
    fac("factor", [&](const Ptr<RCP<const Integer>> &g) { return factor(g, *N); });
    fac("factor_trial", [&](const Ptr<RCP<const Integer>> &g) { return factor_trial_division(g, *N); });
    fac("factor_lehman", [&](const Ptr<RCP<const Integer>> &g) { return factor_lehman_method(g, *N); });
    fac("factor_pm1", [&](const Ptr<RCP<const Integer>> &g) { return factor_pollard_pm1_method(g, *N); });
    fac("factor_rho", [&](const Ptr<RCP<const Integer>> &g) { return factor_pollard_rho_method(g, *N); });
    r.set("prime_factors", att([&](J &o) {
              std::vector<RCP<const Integer>> v;
              prime_factors(v, *N);
              o.set("v", ints(v));
          }));
    r.set("multiplicities", att([&](J &o) {
              map_integer_uint m;
              prime_factor_multiplicities(m, *N);
              J a = J::arr();
              for (auto &p : m) {
                  J pr = J::arr();
                  pr.push(di(p.first));
                  pr.push(J::integer((long long)p.second));
                  a.push(pr);
              }
              o.set("v", a);
          }));
    // (the exact fraction B_n needs seconds for n in the thousands)
    r.set("bernoulli", att([&](J &o) { o.set("v", n <= 100 ? dump(bernoulli((unsigned long)n)) : term("Null")); }));
    r.set("harmonic1", att([&](J &o) { o.set("v", dump(harmonic((unsigned long)n, 1))); }));
    r.set("harmonic2", att([&](J &o) { o.set("v", dump(harmonic((unsigned long)n, 2))); }));
    r.set("primitive_root", att([&](J &o) {
              RCP<const Integer> g = ZI(0);
              bool ok = primitive_root(outArg(g), *N);
              o.set("rc", ok ? 1 : 0);
              o.set("v", di(g));
          }));
    r.set("primitive_root_list", att([&](J &o) {
              std::vector<RCP<const Integer>> v;
              primitive_root_list(v, *N);
              o.set("v", ints(v));
          }));
    r.set("totient", att([&](J &o) { o.set("v", di(totient(N))); }));
    r.set("carmichael", att([&](J &o) { o.set("v", di(carmichael(N))); }));
    r.set("mobius", att([&](J &o) { o.set("v", J::integer(mobius(*N))); }));
    r.set("mertens", att([&](J &o) { o.set("v", J::integer(mertens((unsigned long)n))); }));
    r.set("nextprime", att([&](J &o) { o.set("v", di(nextprime(*N))); }));
    r.set("isprime", att([&](J &o) { o.set("v", J::integer(probab_prime_p(*N) ? 1 : 0)); }));
    r.set("primepi", att([&](J &o) { o.set("v", dump(primepi(N))); }));
    r.set("primorial", att([&](J &o) { o.set("v", dump(primorial(N))); }));
    r.set("quadratic_residues", att([&](J &o) {
              J a = J::arr();
              for (auto &x : quadratic_residues(*N))
                  a.push(dz(x));
              o.set("v", a);
          }));
    auto ppd = [&](const char *name, bool lowest) {
        r.set(name, att([&](J &o) {
                  auto p = mp_perfect_power_decomposition(integer_class((long)n), lowest);
                  o.set("v", dz(p.first));
                  o.set("w", dz(p.second));
              }));
    };
    ppd("perfect_power", false);
    ppd("perfect_power_lowest", true);
}

// {"op":"nt2","a":A,"b":B}
SEV_HANDLER(nt2)
{
    long long a = c.at("a").i, b = c.at("b").i;
    RCP<const Integer> A = ZI(a), B = ZI(b);
    r.set("gcd", att([&](J &o) { o.set("v", di(gcd(*A, *B))); }));
    r.set("lcm", att([&](J &o) { o.set("v", di(lcm(*A, *B))); }));
    r.set("gcd_ext", att([&](J &o) {
              RCP<const Integer> g, s, t;
              gcd_ext(outArg(g), outArg(s), outArg(t), *A, *B);
              o.set("v", di(g));
              o.set("s", di(s));
              o.set("t", di(t));
          }));
    auto one = [&](const char *name, std::function<RCP<const Integer>()> f) {
        r.set(name, att([&](J &o) { o.set("v", di(f())); }));
    };
    auto two = [&](const char *name, std::function<void(const Ptr<RCP<const Integer>> &, const Ptr<RCP<const Integer>> &)> f) {
        r.set(name, att([&](J &o) {
                  RCP<const Integer> q, m;
                  f(outArg(q), outArg(m));
                  o.set("v", di(q));
                  o.set("w", di(m));
              }));
    };
    if (b != 0) {
        one("mod", [&] { return mod(*A, *B); });
        one("quotient", [&] { return quotient(*A, *B); });
        one("mod_f", [&] { return mod_f(*A, *B); });
        one("quotient_f", [&] { return quotient_f(*A, *B); });
        two("quotient_mod", [&](const Ptr<RCP<const Integer>> &q, const Ptr<RCP<const Integer>> &m) { quotient_mod(q, m, *A, *B); });
        two("quotient_mod_f", [&](const Ptr<RCP<const Integer>> &q, const Ptr<RCP<const Integer>> &m) { quotient_mod_f(q, m, *A, *B); });
        r.set("divides", att([&](J &o) { o.set("v", J::integer(divides(*A, *B) ? 1 : 0)); }));
    }
    if (b >= 1) {
        r.set("mod_inverse", att([&](J &o) {
                  RCP<const Integer> inv = ZI(0);
                  int rc = mod_inverse(outArg(inv), *A, *B);
                  o.set("rc", rc != 0 ? 1 : 0);
                  o.set("v", di(inv));
              }));
        r.set("multiplicative_order", att([&](J &o) {
                  RCP<const Integer> ord = ZI(0);
                  bool ok = multiplicative_order(outArg(ord), A, B);
                  o.set("rc", ok ? 1 : 0);
                  o.set("v", di(ord));
              }));
        r.set("is_quad_residue", att([&](J &o) { o.set("v", J::integer(is_quad_residue(*A, *B) ? 1 : 0)); }));
    }
    if (b >= 0 && b <= 40)
        r.set("binomial", att([&](J &o) { o.set("v", di(binomial(*A, (unsigned long)b))); }));
    r.set("kronecker", att([&](J &o) { o.set("v", J::integer(kronecker(*A, *B))); }));
    if (b >= 1 && b % 2 == 1)
        r.set("jacobi", att([&](J &o) { o.set("v", J::integer(jacobi(*A, *B))); }));
    if (b >= 3 && b % 2 == 1 && probab_prime_p(*B))
        r.set("legendre", att([&](J &o) { o.set("v", J::integer(legendre(*A, *B))); }));
    if (a >= 3 && b >= 0) {
        r.set("polygonal_number", att([&](J &o) { o.set("v", dz(mp_polygonal_number(integer_class((long)a), integer_class((long)b)))); }));
        // root of the b-th a-gonal number (must be b), and of b itself (the largest k with P(a,k) <= b)
        r.set("polygonal_root_of_number", att([&](J &o) {
                  o.set("v", dz(mp_principal_polygonal_root(integer_class((long)a), mp_polygonal_number(integer_class((long)a), integer_class((long)b)))));
              }));
        r.set("polygonal_root", att([&](J &o) { o.set("v", dz(mp_principal_polygonal_root(integer_class((long)a), integer_class((long)b)))); }));
    }
}

// {"op":"nt3","a":A,"n":N,"m":M,"r":R,"s":S}: roots and powers modulo m; crt of (a mod m, n mod s)
SEV_HANDLER(nt3)
{
    long long a = c.at("a").i, n = c.at("n").i, m = c.at("m").i, rr = c.at("r").i, s = c.at("s").i;
    RCP<const Integer> A = ZI(a), N = ZI(n), M = ZI(m);
    r.set("nthroot_mod_list", att([&](J &o) {
              std::vector<RCP<const Integer>> v;
              nthroot_mod_list(v, A, N, M);
              o.set("v", ints(v));
          }));
    r.set("nthroot_mod", att([&](J &o) {
              RCP<const Integer> x = ZI(0);
              bool ok = nthroot_mod(outArg(x), A, N, M);
              o.set("rc", ok ? 1 : 0);
              o.set("v", di(x));
          }));
    r.set("is_nth_residue", att([&](J &o) { o.set("v", J::integer(is_nth_residue(*A, *N, *M) ? 1 : 0)); }));
    RCP<const Number> e = Rational::from_two_ints(*ZI(rr), *ZI(s));
    r.set("powermod", att([&](J &o) {
              RCP<const Integer> x = ZI(0);
              bool ok = powermod(outArg(x), A, e, M);
              o.set("rc", ok ? 1 : 0);
              o.set("v", di(x));
          }));
    r.set("powermod_list", att([&](J &o) {
              std::vector<RCP<const Integer>> v;
              powermod_list(v, A, e, M);
              o.set("v", ints(v));
          }));
    r.set("crt", att([&](J &o) {
              RCP<const Integer> x = ZI(0);
              bool ok = crt(outArg(x), {A, N}, {M, ZI(s)});
              o.set("rc", ok ? 1 : 0);
              o.set("v", di(x));
          }));
}
