// Structural queries (C39): free_symbols, has_symbol, function_symbols, atoms, coeff.
#include "drv.h"
#include <symengine/basic.h>
#include <symengine/visitor.h>
#include <symengine/symbol.h>
#include <symengine/integer.h>
#include <algorithm>

using namespace SymEngine;
using namespace sev;

namespace
{
J dump_set(const set_basic &s)
{
    std::vector<std::pair<std::string, J>> v;
    for (auto &b : s) {
        J d = dump(b);
        v.push_back({d.dump(), d});
    }
    std::sort(v.begin(), v.end(), [](const std::pair<std::string, J> &a, const std::pair<std::string, J> &b) { return a.first < b.first; });
    J a = J::arr();
    for (auto &p : v)
        a.push(p.second);
    return a;
}
} // namespace

// {"op":"struct","e":recipe,"x":symbol recipe,"probe":[symbol names],"deg":k}
//  r.e dump; r.free / r.fsyms / r.atoms_sym / r.atoms_fs: sorted lists of dumps; r.has: [0/1 per probe];
//  r.coeff: [dump of coeff(e, x, n) for n = 0..deg]
SEV_HANDLER(struct)
{
    RCP<const Basic> e = build(c.at("e"));
    r.set("e", dump(e));
    J fr = J::arr(), fs = J::arr(), as = J::arr(), af = J::arr(), has = J::arr(), co = J::arr();
    r.set("fexc", guarded([&] { fr = dump_set(free_symbols(*e)); }));
    r.set("fsexc", guarded([&] { fs = dump_set(function_symbols(*e)); }));
    r.set("aexc", guarded([&] {
              as = dump_set(atoms<Symbol>(*e));
              af = dump_set(atoms<FunctionSymbol>(*e));
          }));
    r.set("hexc", guarded([&] {
              for (auto &p : c.at("probe").a)
                  has.push(J::integer(has_symbol(*e, *symbol(p.s)) ? 1 : 0));
          }));
    r.set("free", fr);
    r.set("fsyms", fs);
    r.set("atoms_sym", as);
    r.set("atoms_fs", af);
    r.set("has", has);
    long long deg = c.geti("deg", -1);
    r.set("cexc", guarded([&] {
              if (deg >= 0) {
                  RCP<const Basic> x = build(c.at("x"));
                  for (long long n = 0; n <= deg; n++)
                      co.push(dump(coeff(*e, *x, *integer((long)n))));
              }
          }));
    r.set("coeff", co);
}
