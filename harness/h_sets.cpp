// Sets: build a set recipe, dump it, and ask contains() for every probe point.
#include "drv.h"
#include <symengine/sets.h>
#include <symengine/logic.h>

using namespace SymEngine;
using namespace sev;

static std::vector<RCP<const Basic>> &probes()
{
    static std::vector<RCP<const Basic>> p;
    return p;
}
// {"op":"setprobes","probes":[literal...]} : the probe points used by the following setev cases
SEV_HANDLER(setprobes)
{
    probes().clear();
    for (auto &p : c.at("probes").a)
        probes().push_back(build(p));
    r.set("n", (long long)probes().size());
}

// {"op":"setev","t":recipe}
// r.v = dump of the set, r.ve = exception; r.cont[i] = "T" / "F" / "?" (symbolic) / "!<exc>"
SEV_HANDLER(setev)
{
    J v = term("Null");
    RCP<const Set> s;
    std::string e = guarded([&] {
        s = build_set(c.at("t"));
        v = dump(s);
    });
    r.set("v", v);
    r.set("ve", e);
    J cont = J::arr();
    for (auto &p : probes()) {
        std::string res = "-";
        if (e.empty()) {
            std::string e2 = guarded([&] {
                RCP<const Boolean> b = s->contains(p);
                if (eq(*b, *boolTrue))
                    res = "T";
                else if (eq(*b, *boolFalse))
                    res = "F";
                else
                    res = "?";
            });
            if (!e2.empty())
                res = "!" + e2;
        }
        cont.push(J::str(res));
    }
    r.set("cont", cont);
}
