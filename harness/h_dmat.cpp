// Dense matrices over exact numbers: every algorithm variant on the same input.
#include "drv.h"
#include <symengine/matrix.h>
#include <symengine/integer.h>
#include <symengine/rational.h>

namespace SymEngine
{
// declared in dense_matrix.cpp (friends of DenseMatrix), not all in matrix.h
RCP<const Basic> det_bareis(const DenseMatrix &A);
void inverse_LU(const DenseMatrix &A, DenseMatrix &B);
void inverse_pivoted_LU(const DenseMatrix &A, DenseMatrix &B);
void fraction_free_LU(const DenseMatrix &A, DenseMatrix &LU);
void fraction_free_LDU(const DenseMatrix &A, DenseMatrix &L, DenseMatrix &D, DenseMatrix &U);
void pivoted_LU(const DenseMatrix &A, DenseMatrix &L, DenseMatrix &U, permutelist &pl);
void fraction_free_gaussian_elimination_solve(const DenseMatrix &A, const DenseMatrix &b, DenseMatrix &x);
} // namespace SymEngine

using namespace SymEngine;
using namespace sev;

namespace
{
DenseMatrix mk(unsigned r, unsigned c, const J &flat)
{
    vec_basic v;
    for (auto &t : flat.a)
        v.push_back(build(t));
    return DenseMatrix(r, c, v);
}
J mat(const DenseMatrix &m)
{
    J o = J::obj();
    o.set("exc", "");
    o.set("rows", (long long)m.nrows());
    o.set("cols", (long long)m.ncols());
    J e = J::arr();
    for (unsigned i = 0; i < m.nrows(); i++)
        for (unsigned j = 0; j < m.ncols(); j++)
            e.push(dump(m.get(i, j)));
    o.set("e", e);
    return o;
}
J fail(const std::string &e)
{
    J o = J::obj();
    o.set("exc", e);
    o.set("rows", 0);
    o.set("cols", 0);
    o.set("e", J::arr());
    return o;
}
template <class F>
J attempt(F f)
{
    J r;
    std::string e = guarded([&] { r = f(); });
    return e.empty() ? r : fail(e);
}
J scalar(const RCP<const Basic> &b)
{
    J o = J::obj();
    o.set("exc", "");
    o.set("rows", 1);
    o.set("cols", 1);
    J e = J::arr();
    e.push(dump(b));
    o.set("e", e);
    return o;
}
} // namespace

// {"op":"dmat","n":n,"a":[n*n terms],"b":[n terms],"c":[n*n terms]}
SEV_HANDLER(dmat)
{
    unsigned n = (unsigned)c.at("n").i;
    DenseMatrix A = mk(n, n, c.at("a")), b = mk(n, 1, c.at("b")), C = mk(n, n, c.at("c"));
    r.set("det", attempt([&] { return scalar(A.det()); }));
    r.set("det_bareis", attempt([&] { return scalar(det_bareis(A)); }));
    r.set("det_berkowitz", attempt([&] { return scalar(det_berkowitz(A)); }));
    // DenseMatrix::rank() is not implemented in this tree: the rank observable is the number of pivot columns
    // reported by reduced_row_echelon_form (both normalisation orders)
    r.set("rank", attempt([&] {
              DenseMatrix B(n, n);
              vec_uint piv;
              reduced_row_echelon_form(A, B, piv, false);
              return scalar(integer((long)piv.size()));
          }));
    r.set("rank_nl", attempt([&] {
              DenseMatrix B(n, n);
              vec_uint piv;
              reduced_row_echelon_form(A, B, piv, true);
              return scalar(integer((long)piv.size()));
          }));
    r.set("rref_nl", attempt([&] {
              DenseMatrix B(n, n);
              vec_uint piv;
              reduced_row_echelon_form(A, B, piv, true);
              return mat(B);
          }));
    if (c.has("d")) {
        unsigned dr = (unsigned)c.at("dr").i, dc = (unsigned)c.at("dc").i;
        DenseMatrix D = mk(dr, dc, c.at("d"));
        r.set("d_rref", attempt([&] {
                  DenseMatrix B(dr, dc);
                  vec_uint piv;
                  reduced_row_echelon_form(D, B, piv);
                  return mat(B);
              }));
        r.set("d_rank", attempt([&] {
                  DenseMatrix B(dr, dc);
                  vec_uint piv;
                  reduced_row_echelon_form(D, B, piv);
                  return scalar(integer((long)piv.size()));
              }));
        r.set("d_transpose", attempt([&] {
                  DenseMatrix B(dc, dr);
                  D.transpose(B);
                  return mat(B);
              }));
        r.set("d_gram", attempt([&] {
                  DenseMatrix T(dc, dr), B(dr, dr);
                  D.transpose(T);
                  D.mul_matrix(T, B);
                  return mat(B);
              }));
        r.set("d_add", attempt([&] {
                  DenseMatrix B(dr, dc);
                  D.add_matrix(D, B);
                  return mat(B);
              }));
    }
    auto inv = [&](void (*f)(const DenseMatrix &, DenseMatrix &)) {
        return attempt([&] {
            DenseMatrix B(n, n);
            f(A, B);
            return mat(B);
        });
    };
    r.set("inv", attempt([&] {
              DenseMatrix B(n, n);
              A.inv(B);
              return mat(B);
          }));
    r.set("inv_fflu", inv(inverse_fraction_free_LU));
    r.set("inv_lu", inv(inverse_LU));
    r.set("inv_plu", inv(inverse_pivoted_LU));
    r.set("inv_gj", inv(inverse_gauss_jordan));
    auto solve = [&](void (*f)(const DenseMatrix &, const DenseMatrix &, DenseMatrix &)) {
        return attempt([&] {
            DenseMatrix x(n, 1);
            f(A, b, x);
            return mat(x);
        });
    };
    r.set("solve_fflu", solve(fraction_free_LU_solve));
    r.set("solve_ffgj", attempt([&] {
              DenseMatrix x(n, 1);
              fraction_free_gauss_jordan_solve(A, b, x);
              return mat(x);
          }));
    r.set("solve_ffge", solve(fraction_free_gaussian_elimination_solve));
    r.set("solve_lu", solve(LU_solve));
    r.set("solve_plu", solve(pivoted_LU_solve));
    r.set("solve_ldl", solve(LDL_solve));
    // factorisations
    J L = fail("-"), U = fail("-");
    r.set("lu_e", guarded([&] {
              DenseMatrix l(n, n), u(n, n);
              LU(A, l, u);
              L = mat(l);
              U = mat(u);
          }));
    r.set("lu_l", L);
    r.set("lu_u", U);
    J L2 = fail("-"), D2 = fail("-");
    r.set("ldl_e", guarded([&] {
              DenseMatrix l(n, n), d(n, n);
              LDL(A, l, d);
              L2 = mat(l);
              D2 = mat(d);
          }));
    r.set("ldl_l", L2);
    r.set("ldl_d", D2);
    J L3 = fail("-"), D3 = fail("-"), U3 = fail("-");
    r.set("ffldu_e", guarded([&] {
              DenseMatrix l(n, n), d(n, n), u(n, n);
              fraction_free_LDU(A, l, d, u);
              L3 = mat(l);
              D3 = mat(d);
              U3 = mat(u);
          }));
    r.set("ffldu_l", L3);
    r.set("ffldu_d", D3);
    r.set("ffldu_u", U3);
    J Q = fail("-"), R = fail("-");
    r.set("qr_e", guarded([&] {
              DenseMatrix q(n, n), rr(n, n);
              QR(A, q, rr);
              Q = mat(q);
              R = mat(rr);
          }));
    r.set("qr_q", Q);
    r.set("qr_r", R);
    r.set("chol", attempt([&] {
              DenseMatrix l(n, n);
              cholesky(A, l);
              return mat(l);
          }));
    r.set("rref", attempt([&] {
              DenseMatrix B(n, n);
              vec_uint piv;
              reduced_row_echelon_form(A, B, piv);
              return mat(B);
          }));
    r.set("charpoly", attempt([&] {
              DenseMatrix B(n + 1, 1);
              char_poly(A, B);
              return mat(B);
          }));
    r.set("transpose", attempt([&] {
              DenseMatrix B(n, n);
              A.transpose(B);
              return mat(B);
          }));
    r.set("mul", attempt([&] {
              DenseMatrix B(n, n);
              A.mul_matrix(C, B);
              return mat(B);
          }));
    r.set("add", attempt([&] {
              DenseMatrix B(n, n);
              A.add_matrix(C, B);
              return mat(B);
          }));
    r.set("rowops", attempt([&] {
              DenseMatrix B = A;
              if (n >= 2) {
                  row_exchange_dense(B, 0, n - 1);
                  RCP<const Basic> k = integer(2);
                  row_add_row_dense(B, 0, 1, k);
                  RCP<const Basic> m = integer(-3);
                  row_mul_scalar_dense(B, n - 1, m);
                  column_exchange_dense(B, 0, 1);
              }
              return mat(B);
          }));
}
