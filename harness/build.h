// Recipe interpreter: builds real library objects from term JSON by calling
// the public API (one API call per lower-case operation node).
#ifndef SEV_BUILD_H
#define SEV_BUILD_H
#include "json.h"
#include <symengine/basic.h>
#include <symengine/sets.h>
#include <symengine/logic.h>
#include <symengine/number.h>

namespace sev
{
SymEngine::RCP<const SymEngine::Basic> build(const J &t);
SymEngine::RCP<const SymEngine::Set> build_set(const J &t);
SymEngine::RCP<const SymEngine::Boolean> build_bool(const J &t);
SymEngine::RCP<const SymEngine::Number> build_num(const J &t);
SymEngine::integer_class build_integer(const J &t);
double build_double(const J &t);
// literal constructors for C++ drivers
J lit_int(long long v);
J lit_rat(long long n, long long d);
J lit_sym(const std::string &s);
J op(const std::string &k, const std::vector<J> &a);
} // namespace sev
#endif
