// Homogeneous linear Diophantine systems (C46).
#include "drv.h"
#include <symengine/diophantine.h>
#include <symengine/matrix.h>
#include <symengine/integer.h>

using namespace SymEngine;
using namespace sev;

// {"op":"lde","rows":m,"cols":n,"a":[m*n ints]}
//  r.basis : list of solution vectors (lists of ints), r.bexc
SEV_HANDLER(lde)
{
    unsigned m = (unsigned)c.at("rows").i, n = (unsigned)c.at("cols").i;
    vec_basic v;
    for (auto &x : c.at("a").a)
        v.push_back(integer((long)x.i));
    DenseMatrix A(m, n, v);
    J basis = J::arr();
    r.set("bexc", guarded([&] {
              std::vector<DenseMatrix> b;
              homogeneous_lde(b, A);
              for (auto &x : b) {
                  J row = J::arr();
                  for (unsigned i = 0; i < x.nrows(); i++)
                      for (unsigned j = 0; j < x.ncols(); j++)
                          row.push(dump(x.get(i, j)));
                  basis.push(row);
              }
          }));
    r.set("basis", basis);
}
