// Multivariate polynomials (C22).
#include "drv.h"
#include <symengine/polys/msymenginepoly.h>
#include <symengine/polys/basic_conversions.h>
#include <symengine/symbol.h>
#include <symengine/integer.h>
#include <symengine/expression.h>

using namespace SymEngine;
using namespace sev;

namespace
{
template <class P>
struct Ops;
template <>
struct Ops<MIntPoly> {
    static RCP<const MIntPoly> mk(const J &vars, const J &mons)
    {
        vec_basic v;
        for (auto &n : vars.a)
            v.push_back(symbol(n.s));
        umap_uvec_mpz d;
        for (auto &m : mons.a) {
            vec_uint e;
            for (size_t i = 0; i + 1 < m.a.size(); i++)
                e.push_back((unsigned)m.a[i].i);
            integer_class c((long)m.a.back().at("n").i);
            d[e] = c;
        }
        return MIntPoly::from_dict(v, std::move(d));
    }
    static J ev(const MIntPoly &p, const J &pt)
    {
        std::map<RCP<const Basic>, integer_class, RCPBasicKeyLess> vals;
        for (auto &v : p.get_vars())
            vals[v] = integer_class((long)pt.at(down_cast<const Symbol &>(*v).get_name()).at("n").i);
        return dump_int(p.eval(vals));
    }
};
template <>
struct Ops<MExprPoly> {
    static RCP<const MExprPoly> mk(const J &vars, const J &mons)
    {
        vec_basic v;
        for (auto &n : vars.a)
            v.push_back(symbol(n.s));
        umap_vec_expr d;
        for (auto &m : mons.a) {
            vec_int e;
            for (size_t i = 0; i + 1 < m.a.size(); i++)
                e.push_back((int)m.a[i].i);
            d[e] = Expression(build(m.a.back()));
        }
        return MExprPoly::from_dict(v, std::move(d));
    }
    static J ev(const MExprPoly &p, const J &pt)
    {
        std::map<RCP<const Basic>, Expression, RCPBasicKeyLess> vals;
        for (auto &v : p.get_vars())
            vals[v] = Expression(build(pt.at(down_cast<const Symbol &>(*v).get_name())));
        return dump(p.eval(vals).get_basic());
    }
};
template <class F>
J att(F f)
{
    J o = J::obj();
    J v = term("Null");
    std::string e = guarded([&] { v = f(); });
    o.set("exc", e);
    o.set("v", v);
    return o;
}
template <class P>
void run(const J &c, J &r)
{
    RCP<const P> a, b;
    r.set("a", att([&] { a = Ops<P>::mk(c.at("av"), c.at("a")); return dump(a); }));
    r.set("b", att([&] { b = Ops<P>::mk(c.at("bv"), c.at("b")); return dump(b); }));
    if (a.is_null() || b.is_null())
        return;
    unsigned k = (unsigned)c.at("k").i;
    RCP<const P> m;
    r.set("add", att([&] { return dump(add_mpoly(*a, *b)); }));
    r.set("sub", att([&] { return dump(sub_mpoly(*a, *b)); }));
    r.set("mul", att([&] { m = mul_mpoly(*a, *b); return dump(m); }));
    r.set("neg", att([&] { return dump(neg_mpoly(*a)); }));
    r.set("pow", att([&] { return dump(pow_mpoly(*a, k)); }));
    r.set("eval", att([&] { return Ops<P>::ev(*a, c.at("pt")); }));
    r.set("evalmul", att([&] { return m.is_null() ? term("Null") : Ops<P>::ev(*m, c.at("pt")); }));
    r.set("sym", att([&] { return dump(a->as_symbolic()); }));
    r.set("symmul", att([&] { return m.is_null() ? term("Null") : dump(m->as_symbolic()); }));
    // back from the symbolic form, with the polynomial's own generators (symbols in coefficients stay coefficients)
    r.set("back", att([&] {
              set_basic g = a->get_vars();
              return dump(from_basic<P>(a->as_symbolic(), g));
          }));
    r.set("backmul", att([&] {
              if (m.is_null())
                  return term("Null");
              set_basic g = m->get_vars();
              return dump(from_basic<P>(m->as_symbolic(), g));
          }));
    // conversion of an unexpanded product of the symbolic forms (expansion requested)
    r.set("fromprod", att([&] {
              if (m.is_null())
                  return term("Null");
              set_basic g = m->get_vars();
              return dump(from_basic<P>(mul(a->as_symbolic(), b->as_symbolic()), g, true));
          }));
    // generators found automatically (integer coefficients only: every symbol is a generator)
    r.set("backauto", att([&] { return dump(from_basic<P>(a->as_symbolic())); }));
    r.set("eqself", att([&] { return J::integer(eq(*add_mpoly(*a, *b), *add_mpoly(*b, *a)) ? 1 : 0); }));
}
} // namespace

// {"op":"mpoly","kind":"Int"|"Expr","av":[names],"a":[[e1,..,en,coef]...],"bv":..,"b":..,"k":pow,"pt":{name: term}}
SEV_HANDLER(mpoly)
{
    if (c.at("kind").s == "Int")
        run<MIntPoly>(c, r);
    else
        run<MExprPoly>(c, r);
}
