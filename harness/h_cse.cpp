// Common-subexpression elimination (C37).
#include "drv.h"
#include <symengine/basic.h>
#include <symengine/symbol.h>
#include <symengine/subs.h>

using namespace SymEngine;
using namespace sev;

// {"op":"cse","ts":[recipes]}
//  r.ins     dumps of the inputs
//  r.repl    [[symbol dump, expression dump], ...] in the order returned
//  r.reduced dumps of the reduced expressions
//  r.back    dumps of the reduced expressions after substituting the replacements back, last to first
//  r.same    1 where back[i] is structurally equal to the input
SEV_HANDLER(cse)
{
    vec_basic ins;
    for (auto &t : c.at("ts").a)
        ins.push_back(build(t));
    J jin = J::arr();
    for (auto &e : ins)
        jin.push(dump(e));
    r.set("ins", jin);
    vec_pair repl;
    vec_basic red;
    J jr = J::arr(), jred = J::arr(), jback = J::arr(), jsame = J::arr();
    r.set("cexc", guarded([&] {
              cse(repl, red, ins);
              for (auto &p : repl) {
                  J pr = J::arr();
                  pr.push(dump(p.first));
                  pr.push(dump(p.second));
                  jr.push(pr);
              }
              for (auto &e : red)
                  jred.push(dump(e));
              for (size_t i = 0; i < red.size(); i++) {
                  RCP<const Basic> b = red[i];
                  for (size_t k = repl.size(); k-- > 0;) {
                      map_basic_basic m;
                      m[repl[k].first] = repl[k].second;
                      b = b->xreplace(m);
                  }
                  jback.push(dump(b));
                  jsame.push(J::integer(i < ins.size() && eq(*b, *ins[i]) ? 1 : 0));
              }
          }));
    r.set("repl", jr);
    r.set("reduced", jred);
    r.set("back", jback);
    r.set("same", jsame);
}
