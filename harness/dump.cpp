#include <cstdio>
#include <cstdlib>
#include "dump.h"
#include <symengine/add.h>
#include <symengine/mul.h>
#include <symengine/pow.h>
#include <symengine/integer.h>
#include <symengine/rational.h>
#include <symengine/complex.h>
#include <symengine/real_double.h>
#include <symengine/complex_double.h>
#include <symengine/infinity.h>
#include <symengine/nan.h>
#include <symengine/constants.h>
#include <symengine/symbol.h>
#include <symengine/functions.h>
#include <symengine/polys/uintpoly.h>
#include <symengine/polys/uratpoly.h>
#include <symengine/polys/uexprpoly.h>
#include <symengine/polys/msymenginepoly.h>
#include <symengine/matrices/matrix_symbol.h>
#include <symengine/matrices/immutable_dense_matrix.h>
#include <symengine/symengine_exception.h>
#include <algorithm>
#include <cmath>
#include <cstring>
#include <cxxabi.h>
#include <typeinfo>

using namespace SymEngine;

namespace sev
{

J term(const std::string &k, const std::vector<J> &a, const std::string &s,
       long long n, long long d)
{
    J t = J::obj();
    t.set("k", k);
    J arr = J::arr();
    arr.a = a;
    t.set("a", arr);
    t.set("s", s);
    t.set("n", n);
    t.set("d", d);
    return t;
}

static const long long SMALL = 1000000000LL; // fits TLC's 32-bit integers

J dump_int(const integer_class &i)
{
    if (mp_fits_slong_p(i)) {
        long v = mp_get_si(i);
        if (v > -SMALL && v < SMALL)
            return term("Int", {}, "", v, 1);
    }
    // big integer: sign in n, limbs base 10^4 (least significant first)
    integer_class m = mp_abs(i);
    std::vector<J> limbs;
    integer_class base(10000), q, r;
    while (m != 0) {
        mp_fdiv_qr(q, r, m, base);
        limbs.push_back(term("Int", {}, "", mp_get_si(r), 1));
        m = q;
    }
    return term("Big", limbs, "", mp_sign(i), 1);
}

J dump_rat(const rational_class &q)
{
    integer_class n = get_num(q), d = get_den(q);
    if (d == 1)
        return dump_int(n);
    if (mp_fits_slong_p(n) && mp_fits_slong_p(d)) {
        long a = mp_get_si(n), b = mp_get_si(d);
        if (a > -SMALL && a < SMALL && b < SMALL && b > 0)
            return term("Rat", {}, "", a, b);
    }
    return term("BigRat", {dump_int(n), dump_int(d)});
}

// Doubles: s = class, n = sign; finite non-zero values carry
// a = [mant_hi, mant_lo, exp] with value = sign*(mant_hi*2^26+mant_lo)*2^exp
// and the mantissa reduced to an odd integer.
J dump_double(double x)
{
    int sign = std::signbit(x) ? -1 : 1;
    if (std::isnan(x))
        return term("Dbl", {}, "nan", 1, 0);
    if (std::isinf(x))
        return term("Dbl", {}, "inf", sign, 0);
    if (x == 0.0)
        return term("Dbl", {}, "zero", sign, 0);
    int e;
    double m = std::frexp(std::fabs(x), &e); // m in [0.5,1)
    uint64_t mant = (uint64_t)std::ldexp(m, 53);
    e -= 53;
    while ((mant & 1) == 0) {
        mant >>= 1;
        e++;
    }
    long long hi = (long long)(mant >> 26), lo = (long long)(mant & ((1ULL << 26) - 1));
    // second, normalised representation for closeness tests in the
    // specification: 53-bit mantissa in [2^52, 2^53) as (nhi, nlo), exponent ne
    int ne;
    double nm = std::frexp(std::fabs(x), &ne);
    uint64_t nmant = (uint64_t)std::ldexp(nm, 53);
    ne -= 53;
    long long nhi = (long long)(nmant >> 26), nlo = (long long)(nmant & ((1ULL << 26) - 1));
    return term("Dbl",
                {term("Int", {}, "", hi, 1), term("Int", {}, "", lo, 1),
                 term("Int", {}, "", e, 1), term("Int", {}, "", nhi, 1),
                 term("Int", {}, "", nlo, 1), term("Int", {}, "", ne, 1)},
                "fin", sign, 0);
}

static void sort_by_dump(std::vector<J> &v)
{
    std::vector<std::pair<std::string, J>> k;
    for (auto &j : v)
        k.push_back({j.dump(), j});
    std::stable_sort(k.begin(), k.end(),
                     [](const std::pair<std::string, J> &x,
                        const std::pair<std::string, J> &y) {
                         return x.first < y.first;
                     });
    for (size_t i = 0; i < v.size(); i++)
        v[i] = k[i].second;
}

// dictionary containers are dumped as [coef, Pair(k1,v1), Pair(k2,v2), ...]
// with the pairs sorted by their own dump text (independent of hash order and
// of the library's comparison functions)
template <class D>
static std::vector<J> dump_dict(const D &d)
{
    std::vector<J> pairs;
    for (auto &p : d)
        pairs.push_back(term("Pair", {dump(p.first), dump(p.second)}));
    sort_by_dump(pairs);
    return pairs;
}

J dump_vec(const vec_basic &v)
{
    J a = J::arr();
    for (auto &b : v)
        a.push(dump(b));
    return a;
}

J chars(const std::string &s)
{
    J a = J::arr();
    for (char c : s)
        a.push(J::str(std::string(1, c)));
    return a;
}

std::string exc_name()
{
    try {
        throw;
    } catch (const VerifAssertionError &e) {
        if (getenv("SEV_VERBOSE"))
            fprintf(stderr, "assertion: %s\n", e.what());
        return "VerifAssertionError";
    } catch (const DivisionByZeroError &) {
        return "DivisionByZeroError";
    } catch (const NotImplementedError &) {
        return "NotImplementedError";
    } catch (const DomainError &) {
        return "DomainError";
    } catch (const ParseError &) {
        return "ParseError";
    } catch (const SerializationError &) {
        return "SerializationError";
    } catch (const SymEngineException &) {
        return "SymEngineException";
    } catch (const std::exception &e) {
        int st = 0;
        char *n = abi::__cxa_demangle(typeid(e).name(), nullptr, nullptr, &st);
        std::string r = n ? n : typeid(e).name();
        free(n);
        return r;
    } catch (...) {
        return "unknown";
    }
}

static J dump_children(const std::string &k, const vec_basic &args,
                       bool sorted = false, const std::string &s = "",
                       long long n = 0, long long d = 0)
{
    std::vector<J> ch;
    for (auto &b : args)
        ch.push_back(dump(b));
    if (sorted)
        sort_by_dump(ch);
    return term(k, ch, s, n, d);
}

J dump(const RCP<const Basic> &b)
{
    if (b.is_null())
        return term("Null");
    return dump(*b);
}

J dump(const Basic &b)
{
    switch (b.get_type_code()) {
        case SYMENGINE_INTEGER:
            return dump_int(down_cast<const Integer &>(b).as_integer_class());
        case SYMENGINE_RATIONAL: {
            const rational_class &q
                = down_cast<const Rational &>(b).as_rational_class();
            integer_class n = get_num(q), d = get_den(q);
            // NB: not through dump_rat: a Rational object with den 1 must be
            // visible as such (canonical-form violation)
            if (mp_fits_slong_p(n) && mp_fits_slong_p(d)) {
                long a = mp_get_si(n), c = mp_get_si(d);
                if (a > -SMALL && a < SMALL && c < SMALL && c > -SMALL)
                    return term("Rat", {}, "", a, c);
            }
            return term("BigRat", {dump_int(n), dump_int(d)});
        }
        case SYMENGINE_COMPLEX: {
            const Complex &c = down_cast<const Complex &>(b);
            return term("Complex", {dump_rat(c.real_), dump_rat(c.imaginary_)});
        }
        case SYMENGINE_REAL_DOUBLE:
            return dump_double(down_cast<const RealDouble &>(b).i);
        case SYMENGINE_COMPLEX_DOUBLE: {
            std::complex<double> z = down_cast<const ComplexDouble &>(b).i;
            return term("CDbl", {dump_double(z.real()), dump_double(z.imag())});
        }
        case SYMENGINE_INFTY: {
            const Infty &i = down_cast<const Infty &>(b);
            return term("Inf", {dump(i.get_direction())});
        }
        case SYMENGINE_NOT_A_NUMBER:
            return term("NaN");
        case SYMENGINE_SYMBOL:
            return term("Sym", {}, down_cast<const Symbol &>(b).get_name());
        case SYMENGINE_DUMMY: {
            const Dummy &d = down_cast<const Dummy &>(b);
            return term("Dummy", {}, d.get_name(), (long long)d.get_index());
        }
        case SYMENGINE_CONSTANT:
            return term("Const", {}, down_cast<const Constant &>(b).get_name());
        case SYMENGINE_ADD: {
            const Add &a = down_cast<const Add &>(b);
            std::vector<J> ch = dump_dict(a.get_dict());
            ch.insert(ch.begin(), dump(a.get_coef()));
            return term("Add", ch);
        }
        case SYMENGINE_MUL: {
            const Mul &m = down_cast<const Mul &>(b);
            std::vector<J> ch = dump_dict(m.get_dict());
            ch.insert(ch.begin(), dump(m.get_coef()));
            return term("Mul", ch);
        }
        case SYMENGINE_POW: {
            const Pow &p = down_cast<const Pow &>(b);
            return term("Pow", {dump(p.get_base()), dump(p.get_exp())});
        }
        case SYMENGINE_FUNCTIONSYMBOL: {
            const FunctionSymbol &f = down_cast<const FunctionSymbol &>(b);
            return dump_children("FunctionSymbol", f.get_args(), false,
                                 f.get_name());
        }
        case SYMENGINE_DERIVATIVE: {
            const Derivative &d = down_cast<const Derivative &>(b);
            std::vector<J> ch;
            ch.push_back(dump(d.get_arg()));
            std::vector<J> vars;
            for (auto &s : d.get_symbols())
                vars.push_back(dump(s));
            sort_by_dump(vars);
            for (auto &v : vars)
                ch.push_back(v);
            return term("Derivative", ch);
        }
        case SYMENGINE_SUBS: {
            const Subs &s = down_cast<const Subs &>(b);
            std::vector<J> ch = dump_dict(s.get_dict());
            ch.insert(ch.begin(), dump(s.get_arg()));
            return term("Subs", ch);
        }
        case SYMENGINE_PIECEWISE: {
            const Piecewise &p = down_cast<const Piecewise &>(b);
            std::vector<J> ch;
            for (auto &pr : p.get_vec())
                ch.push_back(term("Pair", {dump(pr.first), dump(pr.second)}));
            return term("Piecewise", ch);
        }
        case SYMENGINE_BOOLEAN_ATOM:
            return term(down_cast<const BooleanAtom &>(b).get_val() ? "True"
                                                                     : "False");
        case SYMENGINE_INTERVAL: {
            const Interval &i = down_cast<const Interval &>(b);
            return term("Interval", {dump(i.get_start()), dump(i.get_end())},
                        "", i.get_left_open() ? 1 : 0,
                        i.get_right_open() ? 1 : 0);
        }
        case SYMENGINE_FINITESET: {
            std::vector<J> ch;
            for (auto &e : down_cast<const FiniteSet &>(b).get_container())
                ch.push_back(dump(e));
            sort_by_dump(ch);
            return term("FiniteSet", ch);
        }
        case SYMENGINE_UNION: {
            std::vector<J> ch;
            for (auto &e : down_cast<const Union &>(b).get_container())
                ch.push_back(dump(e));
            sort_by_dump(ch);
            return term("Union", ch);
        }
        case SYMENGINE_INTERSECTION: {
            std::vector<J> ch;
            for (auto &e : down_cast<const Intersection &>(b).get_container())
                ch.push_back(dump(e));
            sort_by_dump(ch);
            return term("Intersection", ch);
        }
        case SYMENGINE_COMPLEMENT: {
            const Complement &c = down_cast<const Complement &>(b);
            return term("Complement",
                        {dump(c.get_universe()), dump(c.get_container())});
        }
        case SYMENGINE_AND: {
            std::vector<J> ch;
            for (auto &e : down_cast<const And &>(b).get_container())
                ch.push_back(dump(e));
            sort_by_dump(ch);
            return term("And", ch);
        }
        case SYMENGINE_OR: {
            std::vector<J> ch;
            for (auto &e : down_cast<const Or &>(b).get_container())
                ch.push_back(dump(e));
            sort_by_dump(ch);
            return term("Or", ch);
        }
        case SYMENGINE_XOR:
            return dump_children("Xor", b.get_args(), true);
        case SYMENGINE_MAX:
            return dump_children("Max", b.get_args(), true);
        case SYMENGINE_MIN:
            return dump_children("Min", b.get_args(), true);
        case SYMENGINE_UINTPOLY: {
            const UIntPoly &p = down_cast<const UIntPoly &>(b);
            std::vector<J> ch;
            ch.push_back(dump(p.get_var()));
            for (auto &kv : p.get_poly().get_dict())
                ch.push_back(term("Pair", {term("Int", {}, "", kv.first, 1),
                                           dump_int(kv.second)}));
            return term("UIntPoly", ch);
        }
        case SYMENGINE_URATPOLY: {
            const URatPoly &p = down_cast<const URatPoly &>(b);
            std::vector<J> ch;
            ch.push_back(dump(p.get_var()));
            for (auto &kv : p.get_poly().get_dict())
                ch.push_back(term("Pair", {term("Int", {}, "", kv.first, 1),
                                           dump_rat(kv.second)}));
            return term("URatPoly", ch);
        }
        case SYMENGINE_UEXPRPOLY: {
            const UExprPoly &p = down_cast<const UExprPoly &>(b);
            std::vector<J> ch;
            ch.push_back(dump(p.get_var()));
            for (auto &kv : p.get_poly().get_dict())
                ch.push_back(term("Pair", {term("Int", {}, "", kv.first, 1),
                                           dump(kv.second.get_basic())}));
            return term("UExprPoly", ch);
        }
        case SYMENGINE_MINTPOLY: {
            const MIntPoly &p = down_cast<const MIntPoly &>(b);
            std::vector<J> vars;
            for (auto &v : p.get_vars())
                vars.push_back(dump(v));
            std::vector<J> ch;
            ch.push_back(term("Vars", vars));
            std::vector<J> mons;
            for (auto &kv : p.get_poly().dict_) {
                std::vector<J> ex;
                for (auto e : kv.first)
                    ex.push_back(term("Int", {}, "", (long long)e, 1));
                mons.push_back(
                    term("Pair", {term("Exps", ex), dump_int(kv.second)}));
            }
            sort_by_dump(mons);
            for (auto &m : mons)
                ch.push_back(m);
            return term("MIntPoly", ch);
        }
        case SYMENGINE_MEXPRPOLY: {
            const MExprPoly &p = down_cast<const MExprPoly &>(b);
            std::vector<J> vars;
            for (auto &v : p.get_vars())
                vars.push_back(dump(v));
            std::vector<J> ch;
            ch.push_back(term("Vars", vars));
            std::vector<J> mons;
            for (auto &kv : p.get_poly().dict_) {
                std::vector<J> ex;
                for (auto e : kv.first)
                    ex.push_back(term("Int", {}, "", (long long)e, 1));
                mons.push_back(term(
                    "Pair", {term("Exps", ex), dump(kv.second.get_basic())}));
            }
            sort_by_dump(mons);
            for (auto &m : mons)
                ch.push_back(m);
            return term("MExprPoly", ch);
        }
        case SYMENGINE_MATRIXSYMBOL:
            return term("MatrixSymbol", {},
                        down_cast<const MatrixSymbol &>(b).get_name());
        case SYMENGINE_IMMUTABLEDENSEMATRIX: {
            const ImmutableDenseMatrix &m
                = down_cast<const ImmutableDenseMatrix &>(b);
            return dump_children("ImmutableDenseMatrix", m.get_values(), false,
                                 "", (long long)m.nrows(),
                                 (long long)m.ncols());
        }
        default:
            return dump_children(type_code_name(b.get_type_code()),
                                 b.get_args());
    }
}

} // namespace sev
