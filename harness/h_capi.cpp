// C API and Expression wrapper against the core API (C42).
#include "drv.h"
#include <symengine/cwrapper.h>
#include <symengine/expression.h>
#include <symengine/basic.h>
#include <functional>
#include <map>

using namespace SymEngine;
using namespace sev;

namespace
{
// same layout as the private struct CRCPBasic of cwrapper.cpp
struct Handle {
    RCP<const Basic> m;
};
RCP<const Basic> peek(const basic b)
{
    return reinterpret_cast<const Handle *>(b)->m;
}
struct B {
    basic b;
    B() { basic_new_stack(b); }
    ~B() { basic_free_stack(b); }
    B(const B &) = delete;
};
typedef CWRAPPER_OUTPUT_TYPE (*U1)(basic, const basic);
typedef CWRAPPER_OUTPUT_TYPE (*U2)(basic, const basic, const basic);
const std::map<std::string, U1> &u1()
{
    static std::map<std::string, U1> m = {
        {"expand", basic_expand}, {"neg", basic_neg}, {"abs", basic_abs}, {"erf", basic_erf}, {"erfc", basic_erfc}, {"sin", basic_sin},
        {"cos", basic_cos}, {"tan", basic_tan}, {"asin", basic_asin}, {"acos", basic_acos}, {"atan", basic_atan}, {"csc", basic_csc},
        {"sec", basic_sec}, {"cot", basic_cot}, {"acsc", basic_acsc}, {"asec", basic_asec}, {"acot", basic_acot}, {"sinh", basic_sinh},
        {"cosh", basic_cosh}, {"tanh", basic_tanh}, {"asinh", basic_asinh}, {"acosh", basic_acosh}, {"atanh", basic_atanh},
        {"csch", basic_csch}, {"sech", basic_sech}, {"coth", basic_coth}, {"acsch", basic_acsch}, {"asech", basic_asech},
        {"acoth", basic_acoth}, {"lambertw", basic_lambertw}, {"zeta", basic_zeta}, {"dirichlet_eta", basic_dirichlet_eta},
        {"gamma", basic_gamma}, {"loggamma", basic_loggamma}, {"sqrt", basic_sqrt}, {"cbrt", basic_cbrt}, {"exp", basic_exp},
        {"log", basic_log}, {"floor", basic_floor}, {"ceiling", basic_ceiling}, {"sign", basic_sign}};
    return m;
}
const std::map<std::string, U2> &u2()
{
    static std::map<std::string, U2> m = {{"add", basic_add}, {"sub", basic_sub}, {"mul", basic_mul}, {"div", basic_div}, {"pow", basic_pow},
                                          {"atan2", basic_atan2}, {"lowergamma", basic_lowergamma}, {"uppergamma", basic_uppergamma},
                                          {"beta", basic_beta}, {"polygamma", basic_polygamma}, {"diff", basic_diff}};
    return m;
}
// build a recipe through the C API only; returns the first non-zero error code (0 = fine), -1 for an unsupported recipe
int cbuild(const J &t, basic out)
{
    const std::string &k = t.at("k").s;
    const J &a = t.at("a");
    if (k == "Int")
        return integer_set_si(out, (long)t.at("n").i);
    if (k == "Rat")
        return rational_set_si(out, (long)t.at("n").i, (long)t.at("d").i);
    if (k == "Sym")
        return symbol_set(out, t.at("s").s.c_str());
    if (k == "Const") {
        basic_const_set(out, t.at("s").s.c_str());
        return 0;
    }
    if (k == "Complex") {
        B re, im;
        int e = cbuild(a.a[0], re.b);
        if (e)
            return e;
        e = cbuild(a.a[1], im.b);
        if (e)
            return e;
        return complex_set(out, re.b, im.b);
    }
    if (k == "Inf") {
        long d = (long)a.a[0].at("n").i;
        if (d > 0)
            basic_const_infinity(out);
        else if (d < 0)
            basic_const_neginfinity(out);
        else
            basic_const_complex_infinity(out);
        return 0;
    }
    if (k == "NaN") {
        basic_const_nan(out);
        return 0;
    }
    auto i1 = u1().find(k);
    if (i1 != u1().end() && a.a.size() == 1) {
        B x;
        int e = cbuild(a.a[0], x.b);
        if (e)
            return e;
        return i1->second(out, x.b);
    }
    auto i2 = u2().find(k);
    if (i2 != u2().end() && a.a.size() == 2) {
        B x, y;
        int e = cbuild(a.a[0], x.b);
        if (e)
            return e;
        e = cbuild(a.a[1], y.b);
        if (e)
            return e;
        return i2->second(out, x.b, y.b);
    }
    return -1;
}
int code_of(const std::string &exc)
{
    if (exc.empty())
        return 0;
    if (exc == "DivisionByZeroError")
        return 2;
    if (exc == "NotImplementedError")
        return 3;
    if (exc == "DomainError")
        return 4;
    if (exc == "ParseError")
        return 5;
    if (exc == "SerializationError")
        return 6;
    return 1;
}
} // namespace

// {"op":"capi","t":recipe}: r.c = {code, v, str} through the C API; r.p = {exc, code, v} through the C++ API; r.escaped
SEV_HANDLER(capi)
{
    J cv = term("Null"), pv = term("Null");
    long long code = 0, ceq = -1;
    std::string cstr;
    B out;
    std::string escaped = guarded([&] {
        code = cbuild(c.at("t"), out.b);
        if (code == 0) {
            cv = dump(peek(out.b));
            char *s = basic_str(out.b);
            cstr = s;
            basic_str_free(s);
        }
    });
    std::string pexc = guarded([&] {
        RCP<const Basic> e = build(c.at("t"));
        pv = dump(e);
        if (code == 0 && !peek(out.b).is_null()) {
            // compare through the C API as well
            B tmp;
            reinterpret_cast<Handle *>(tmp.b)->m = e;
            ceq = basic_eq(out.b, tmp.b);
        }
    });
    J jc = J::obj(), jp = J::obj();
    jc.set("code", code);
    jc.set("v", cv);
    jc.set("str", cstr);
    jc.set("eq", ceq);
    jp.set("exc", pexc);
    jp.set("code", (long long)code_of(pexc));
    jp.set("v", pv);
    r.set("c", jc);
    r.set("p", jp);
    r.set("escaped", escaped);
}

// {"op":"ccont","ops":[[name, i, j]...],"vals":[recipes]}: one CVecBasic, one CSetBasic, one CMapBasicBasic driven by the
// operations (arguments index into vals); r.steps[k] = {rc, v, size}
SEV_HANDLER(ccont)
{
    std::vector<RCP<const Basic>> vals;
    for (auto &t : c.at("vals").a)
        vals.push_back(build(t));
    CVecBasic *vec = vecbasic_new();
    CSetBasic *set = setbasic_new();
    CMapBasicBasic *map = mapbasicbasic_new();
    J steps = J::arr();
    auto val = [&](long long i, basic b) { reinterpret_cast<Handle *>(b)->m = vals.at((size_t)(i - 1)); };   // 1-based
    for (auto &opj : c.at("ops").a) {
        const std::string &name = opj.a[0].s;
        long long i = opj.a[1].i, j = opj.a[2].i;
        J st = J::obj();
        long long rc = 0, size = -1;
        J v = term("Null");
        std::string esc = guarded([&] {
            B x, y, res;
            if (name == "VecPush") {
                val(i, x.b);
                rc = vecbasic_push_back(vec, x.b);
                size = (long long)vecbasic_size(vec);
            } else if (name == "VecGet") {
                rc = vecbasic_get(vec, (size_t)i, res.b);
                if (rc == 0)
                    v = dump(peek(res.b));
                size = (long long)vecbasic_size(vec);
            } else if (name == "VecSet") {
                val(j, x.b);
                rc = vecbasic_set(vec, (size_t)i, x.b);
                size = (long long)vecbasic_size(vec);
            } else if (name == "VecErase") {
                rc = vecbasic_erase(vec, (size_t)i);
                size = (long long)vecbasic_size(vec);
            } else if (name == "SetInsert") {
                val(i, x.b);
                rc = setbasic_insert(set, x.b);
                size = (long long)setbasic_size(set);
            } else if (name == "SetFind") {
                val(i, x.b);
                rc = setbasic_find(set, x.b);
                size = (long long)setbasic_size(set);
            } else if (name == "SetErase") {
                val(i, x.b);
                rc = setbasic_erase(set, x.b);
                size = (long long)setbasic_size(set);
            } else if (name == "MapInsert") {
                val(i, x.b);
                val(j, y.b);
                mapbasicbasic_insert(map, x.b, y.b);
                size = (long long)mapbasicbasic_size(map);
            } else if (name == "MapGet") {
                val(i, x.b);
                rc = mapbasicbasic_get(map, x.b, res.b);
                if (rc != 0)
                    v = dump(peek(res.b));
                size = (long long)mapbasicbasic_size(map);
            }
        });
        st.set("rc", rc);
        st.set("v", v);
        st.set("size", size);
        st.set("esc", esc);
        steps.push(st);
    }
    // final contents
    J fv = J::arr(), fs = J::arr();
    for (size_t k = 0; k < vecbasic_size(vec); k++) {
        B res;
        vecbasic_get(vec, k, res.b);
        fv.push(dump(peek(res.b)));
    }
    for (size_t k = 0; k < setbasic_size(set); k++) {
        B res;
        setbasic_get(set, (int)k, res.b);
        fs.push(dump(peek(res.b)));
    }
    r.set("steps", steps);
    r.set("fvec", fv);
    r.set("fset", fs);
    J dv = J::arr();
    for (auto &e : vals)
        dv.push(dump(e));
    r.set("vals", dv);
    vecbasic_free(vec);
    setbasic_free(set);
    mapbasicbasic_free(map);
}

// {"op":"exprops","a":recipe,"b":recipe}: Expression operators against the core functions: r.same = {add, sub, mul, div, neg, eq, ...}
SEV_HANDLER(exprops)
{
    RCP<const Basic> a, b;
    // (an operand the library refuses to construct, tan(zoo), decides nothing)
    std::string bexc = guarded([&] {
        a = build(c.at("a"));
        b = build(c.at("b"));
    });
    r.set("bexc", bexc);
    if (!bexc.empty() && bexc != "VerifAssertionError")
        return;
    if (!bexc.empty())
        throw VerifAssertionError(__FILE__, __LINE__, "operand construction");
    Expression A(a), Bx(b);
    J o = J::obj();
    auto put = [&](const char *name, std::function<bool()> f) {
        long long v = -1;
        std::string x = guarded([&] { v = f() ? 1 : 0; });
        J p = J::obj();
        p.set("exc", x);
        p.set("v", v);
        o.set(name, p);
    };
    // each comparison evaluates both sides; an exception on one side only shows as an exception here and is
    // resolved by evaluating the core function alone
    auto both = [&](const char *name, std::function<Expression()> fe, std::function<RCP<const Basic>()> fc) {
        std::string xe, xc;
        RCP<const Basic> re, rc;
        xe = guarded([&] { re = fe().get_basic(); });
        xc = guarded([&] { rc = fc(); });
        J p = J::obj();
        p.set("xe", xe);
        p.set("xc", xc);
        p.set("same", (long long)((xe.empty() && xc.empty()) ? (eq(*re, *rc) ? 1 : 0) : -1));
        o.set(name, p);
    };
    both("add", [&] { return A + Bx; }, [&] { return add(a, b); });
    both("sub", [&] { return A - Bx; }, [&] { return sub(a, b); });
    both("mul", [&] { return A * Bx; }, [&] { return mul(a, b); });
    both("div", [&] { return A / Bx; }, [&] { return div(a, b); });
    both("neg", [&] { return -A; }, [&] { return neg(a); });
    both("iadd", [&] { Expression t = A; t += Bx; return t; }, [&] { return add(a, b); });
    both("isub", [&] { Expression t = A; t -= Bx; return t; }, [&] { return sub(a, b); });
    both("imul", [&] { Expression t = A; t *= Bx; return t; }, [&] { return mul(a, b); });
    both("idiv", [&] { Expression t = A; t /= Bx; return t; }, [&] { return div(a, b); });
    both("pow", [&] { return pow(A, Bx); }, [&] { return pow(a, b); });
    both("expand", [&] { return expand(A); }, [&] { return expand(a); });
    put("eq", [&] { return (A == Bx) == eq(*a, *b); });
    put("ne", [&] { return (A != Bx) == neq(*a, *b); });
    r.set("o", o);
}
