// Finite-difference weights (C38).
#include "drv.h"
#include <symengine/finitediff.h>

using namespace SymEngine;
using namespace sev;

// {"op":"fdiff","grid":[terms],"m":max_deriv,"around":term}
//  r.w : weights (column major: index i + k*len(grid)), r.wexc
SEV_HANDLER(fdiff)
{
    vec_basic grid;
    for (auto &t : c.at("grid").a)
        grid.push_back(build(t));
    RCP<const Basic> around = build(c.at("around"));
    J w = J::arr();
    r.set("wexc", guarded([&] {
              vec_basic ws = generate_fdiff_weights_vector(grid, (unsigned)c.at("m").i, around);
              for (auto &b : ws)
                  w.push(dump(b));
          }));
    r.set("w", w);
}
