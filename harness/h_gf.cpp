// Polynomials over GF(p): GaloisFieldDict operations on coefficient vectors.
#include "drv.h"
#include <symengine/fields.h>

using namespace SymEngine;
using namespace sev;

namespace
{
GaloisFieldDict mk(const J &l, long p)
{
    std::vector<integer_class> v;
    for (auto &e : l.a)
        v.push_back(integer_class((long)e.i));
    return GaloisFieldDict::from_vec(v, integer_class(p));
}
J coefs(const GaloisFieldDict &g)
{
    J a = J::arr();
    for (auto &c : g.get_dict())
        a.push(J::integer(mp_get_si(c)));
    return a;
}
J res(const GaloisFieldDict &g)
{
    J o = J::obj();
    o.set("exc", "");
    o.set("c", coefs(g));
    return o;
}
J fail(const std::string &e)
{
    J o = J::obj();
    o.set("exc", e);
    o.set("c", J::arr());
    return o;
}
template <class F>
J attempt(F f)
{
    J r;
    std::string e = guarded([&] { r = res(f()); });
    return e.empty() ? r : fail(e);
}
template <class S>
J factor_list(const S &s)
{
    J a = J::arr();
    for (auto &f : s) {
        J o = J::obj();
        o.set("c", coefs(f.first));
        o.set("m", (long long)f.second);
        a.push(o);
    }
    return a;
}
} // namespace

// {"op":"gf","p":p,"a":[...],"b":[...],"k":n}
SEV_HANDLER(gf)
{
    long p = (long)c.at("p").i;
    GaloisFieldDict a = mk(c.at("a"), p), b = mk(c.at("b"), p);
    unsigned long k = (unsigned long)c.at("k").i;
    r.set("a", res(a));
    r.set("add", attempt([&] { return a + b; }));
    r.set("sub", attempt([&] { return a - b; }));
    r.set("mul", attempt([&] { return a * b; }));
    r.set("neg", attempt([&] { return -a; }));
    r.set("addc", attempt([&] { return a + integer_class(3); }));
    J quo = fail("-"), rem = fail("-");
    std::string de = guarded([&] {
        GaloisFieldDict q, rr;
        a.gf_div(b, outArg(q), outArg(rr));
        quo = res(q);
        rem = res(rr);
    });
    r.set("dive", de);
    r.set("quo", quo);
    r.set("rem", rem);
    r.set("pow", attempt([&] { return a.gf_pow(k); }));
    r.set("sqr", attempt([&] { return a.gf_sqr(); }));
    r.set("powmod", attempt([&] { return b.gf_pow_mod(a, k); }));       // a**k mod b
    r.set("compmod", attempt([&] { return b.gf_compose_mod(a, a); }));  // a(a) mod b
    r.set("gcd", attempt([&] { return a.gf_gcd(b); }));
    r.set("lcm", attempt([&] { return a.gf_lcm(b); }));
    r.set("diff", attempt([&] { return a.gf_diff(); }));
    J mon = fail("-");
    long long lc = 0;
    r.set("monice", guarded([&] {
              integer_class l;
              GaloisFieldDict m;
              a.gf_monic(l, outArg(m));
              lc = mp_get_si(l);
              mon = res(m);
          }));
    r.set("monic", mon);
    r.set("lc", lc);
    J ev = J::arr();
    r.set("evale", guarded([&] {
              for (long x = 0; x < p; x++)
                  ev.push(J::integer(mp_get_si(a.gf_eval(integer_class(x)))));
          }));
    r.set("eval", ev);
    long long issqf = -1;
    J sqf = J::arr();
    r.set("sqfe", guarded([&] {
              issqf = a.gf_is_sqf() ? 1 : 0;
              sqf = factor_list(a.gf_sqf_list());
          }));
    r.set("issqf", issqf);
    r.set("sqf", sqf);
    J fac = J::arr();
    long long flc = 0;
    r.set("face", guarded([&] {
              auto f = a.gf_factor();
              flc = mp_get_si(f.first);
              fac = factor_list(f.second);
          }));
    r.set("fac", fac);
    r.set("faclc", flc);
    // the two factorisation algorithms for square-free monic input (three runs each: randomised)
    J zas = J::arr(), sho = J::arr();
    r.set("alge", guarded([&] {
              if (a.gf_is_sqf() && a.get_dict().size() > 1) {
                  integer_class l;
                  GaloisFieldDict m;
                  a.gf_monic(l, outArg(m));
                  for (int rep = 0; rep < 3; rep++) {
                      J z = J::arr(), s = J::arr();
                      for (auto &f : m.gf_zassenhaus())
                          z.push(coefs(f));
                      for (auto &f : m.gf_shoup())
                          s.push(coefs(f));
                      zas.push(z);
                      sho.push(s);
                  }
              }
          }));
    r.set("zas", zas);
    r.set("sho", sho);
}
