// LLVM evaluators (C14).  Compiled in every configuration; does something only with HAVE_SYMENGINE_LLVM.
//  {"op":"llvm","ts":[recipes],"x":<double dump term>,"y":<double dump term>}
//  r.items[i] = {bexc, lib:{exc,v}, d:[{opt,cse,exc,v}...8], f:[{cse,exc,v}...2], ld:[...2], rl:{exc,v,same}}
//  r.vec = {exc, idx:[item indices], cse1:[values], cse0:[values]}: all expressions as the outputs of ONE function
#include "drv.h"
#include <symengine/symengine_config.h>
#include <symengine/eval_double.h>
#include <symengine/real_double.h>
#include <symengine/symbol.h>
#include <symengine/subs.h>
#ifdef HAVE_SYMENGINE_LLVM
#include <symengine/llvm_double.h>
#endif

using namespace SymEngine;
using namespace sev;

#ifdef HAVE_SYMENGINE_LLVM
SEV_HANDLER(llvm)
{
    double xv = down_cast<const RealDouble &>(*build(c.at("x"))).i;
    double yv = down_cast<const RealDouble &>(*build(c.at("y"))).i;
    map_basic_basic m;
    m[symbol("x")] = real_double(xv);
    m[symbol("y")] = real_double(yv);
    vec_basic inputs = {symbol("x"), symbol("y")};
    const double in_d[2] = {xv, yv};
    const float in_f[2] = {(float)xv, (float)yv};
    size_t n = c.at("ts").a.size();
    J items = J::arr();
    vec_basic good;
    std::vector<size_t> good_idx;
    for (size_t i = 0; i < n; i++) {
        J o = J::obj();
        RCP<const Basic> e;
        o.set("bexc", guarded([&] { e = build(c.at("ts").a[i]); }));
        // the object that is compiled (its value, not that of the recipe, is what the function must return)
        o.set("e", e.is_null() ? term("Null") : dump(e));
        J lib = J::obj(), lv = term("Null");
        lib.set("exc", e.is_null() ? std::string("-") : guarded([&] { lv = dump_double(eval_double(*e->subs(m))); }));
        lib.set("v", lv);
        o.set("lib", lib);
        J dl = J::arr(), fl = J::arr(), ll = J::arr(), rl = J::obj();
        bool any = false;
        if (!e.is_null()) {
            for (unsigned opt = 0; opt <= 3; opt++)
                for (int cse = 0; cse <= 1; cse++) {
                    J p = J::obj(), v = term("Null");
                    p.set("opt", (long long)opt);
                    p.set("cse", (long long)cse);
                    p.set("exc", guarded([&] {
                              LLVMDoubleVisitor vis;
                              vis.init(inputs, *e, cse != 0, opt);
                              double out = 0;
                              vis.call(&out, in_d);
                              v = dump_double(out);
                              any = true;
                          }));
                    p.set("v", v);
                    dl.push(p);
                }
            for (int cse = 0; cse <= 1; cse++) {
                J p = J::obj(), v = term("Null");
                p.set("cse", (long long)cse);
                p.set("exc", guarded([&] {
                          LLVMFloatVisitor vis;
                          vis.init(inputs, *e, cse != 0, 3);
                          float out = 0;
                          vis.call(&out, in_f);
                          v = dump_double((double)out);
                      }));
                p.set("v", v);
                fl.push(p);
            }
#ifdef SYMENGINE_HAVE_LLVM_LONG_DOUBLE
            for (int cse = 0; cse <= 1; cse++) {
                J p = J::obj(), v = term("Null");
                p.set("cse", (long long)cse);
                p.set("exc", guarded([&] {
                          LLVMLongDoubleVisitor vis;
                          vis.init(inputs, *e, cse != 0, 3);
                          long double out = 0;
                          const long double in_l[2] = {(long double)xv, (long double)yv};
                          vis.call(&out, in_l);
                          v = dump_double((double)out);
                      }));
                p.set("v", v);
                ll.push(p);
            }
#endif
            // save, reload into a fresh object, call
            J v = term("Null");
            long long same = 0;
            rl.set("exc", guarded([&] {
                       LLVMDoubleVisitor vis;
                       vis.init(inputs, *e, true, 2);
                       double o1 = 0;
                       vis.call(&o1, in_d);
                       std::string s = vis.dumps();
                       LLVMDoubleVisitor vis2;
                       vis2.loads(s);
                       double o2 = 0;
                       vis2.call(&o2, in_d);
                       v = dump_double(o2);
                       same = (memcmp(&o1, &o2, sizeof o1) == 0) ? 1 : 0;
                   }));
            rl.set("v", v);
            rl.set("same", same);
        }
        if (any) {
            good.push_back(e);
            good_idx.push_back(i);
        }
        o.set("d", dl);
        o.set("f", fl);
        o.set("ld", ll);
        o.set("rl", rl);
        items.push(o);
    }
    r.set("items", items);
    // every accepted expression as one output of a single function (shared sub-expressions across outputs)
    J vec = J::obj(), idx = J::arr(), c1 = J::arr(), c0 = J::arr(), re = J::arr();
    for (size_t i : good_idx)
        idx.push(J::integer((long long)i + 1));
    vec.set("exc", guarded([&] {
                if (good.empty())
                    return;
                std::vector<double> o1(good.size()), o0(good.size()), o2(good.size());
                LLVMDoubleVisitor v1, v0;
                v1.init(inputs, good, true, 3);
                v1.call(o1.data(), in_d);
                // the same object initialised again with other settings
                v1.init(inputs, good, false, 0);
                v1.call(o0.data(), in_d);
                v0.init(inputs, good, true, 1);
                LLVMDoubleVisitor v2;
                v2.loads(v0.dumps());
                v2.call(o2.data(), in_d);
                for (double d : o1)
                    c1.push(dump_double(d));
                for (double d : o0)
                    c0.push(dump_double(d));
                for (double d : o2)
                    re.push(dump_double(d));
            }));
    vec.set("idx", idx);
    vec.set("cse1", c1);
    vec.set("cse0", c0);
    vec.set("reloaded", re);
    r.set("vec", vec);
}
#endif
