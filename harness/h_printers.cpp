// Alternative printers (C44).
#include "drv.h"
#include <symengine/printers.h>
#include <symengine/parser.h>
#include <symengine/basic.h>
#include <functional>
#include <cctype>

using namespace SymEngine;
using namespace sev;

namespace
{
// LaTeX: the sequence of grouping tokens  "{" "}" "\left" "\right" (escaped braces \{ \} are not groups)
J latex_tokens(const std::string &s)
{
    J a = J::arr();
    for (size_t i = 0; i < s.size(); i++) {
        if (s[i] == '\\') {
            if (s.compare(i, 5, "\\left") == 0 && (i + 5 >= s.size() || !isalpha((unsigned char)s[i + 5]))) {
                a.push(J::str("L"));
                i += 4;
            } else if (s.compare(i, 6, "\\right") == 0 && (i + 6 >= s.size() || !isalpha((unsigned char)s[i + 6]))) {
                a.push(J::str("R"));
                i += 5;
            } else {
                i++; // escaped character or command name start
            }
        } else if (s[i] == '{') {
            a.push(J::str("{"));
        } else if (s[i] == '}') {
            a.push(J::str("}"));
        }
    }
    return a;
}
// MathML: the sequence of tags [name, kind] with kind 1 open, -1 close, 0 self-closing; "" name with kind 9 on a lexical error
J xml_tags(const std::string &s)
{
    J a = J::arr();
    auto push = [&](const std::string &n, long long k) {
        J p = J::arr();
        p.push(J::str(n));
        p.push(J::integer(k));
        a.push(p);
    };
    for (size_t i = 0; i < s.size(); i++) {
        if (s[i] == '<') {
            size_t j = s.find('>', i);
            if (j == std::string::npos) {
                push("", 9);
                break;
            }
            std::string tag = s.substr(i + 1, j - i - 1);
            long long kind = 1;
            if (!tag.empty() && tag[0] == '/') {
                kind = -1;
                tag = tag.substr(1);
            } else if (!tag.empty() && tag.back() == '/') {
                kind = 0;
                tag.pop_back();
            }
            size_t sp = tag.find_first_of(" \t\n");
            std::string name = tag.substr(0, sp);
            if (name.empty() || tag.find('<') != std::string::npos)
                push("", 9);
            else
                push(name, kind);
            i = j;
        } else if (s[i] == '>') {
            push("", 9);
        } else if (s[i] == '&') {
            // an entity must be terminated
            size_t j = s.find(';', i);
            if (j == std::string::npos || j - i > 10)
                push("", 9);
        }
    }
    return a;
}
} // namespace

// {"op":"printers","ts":[recipes]}: r.items[i] = {bexc, latex:{exc,toks}, mathml:{exc,tags}, unicode:{exc,len}, julia:{exc,len},
//                                                  sbml:{exc,s,pexc,eq}}
SEV_HANDLER(printers)
{
    J items = J::arr();
    for (auto &t : c.at("ts").a) {
        J o = J::obj();
        RCP<const Basic> e;
        o.set("bexc", guarded([&] { e = build(t); }));
        auto part = [&](const char *name, std::function<void(J &)> f) {
            J p = J::obj();
            std::string x = e.is_null() ? std::string("-") : guarded([&] { f(p); });
            p.set("exc", x);
            o.set(name, p);
        };
        part("latex", [&](J &p) { p.set("toks", latex_tokens(latex(*e))); });
        part("mathml", [&](J &p) { p.set("tags", xml_tags(mathml(*e))); });
        part("unicode", [&](J &p) { p.set("len", (long long)unicode(*e).size()); });
        part("julia", [&](J &p) { p.set("len", (long long)julia_str(*e).size()); });
        part("sbml", [&](J &p) {
            std::string s = sbml(*e);
            p.set("s", s);
            long long same = 0;
            p.set("pexc", guarded([&] { same = eq(*parse_sbml(s), *e) ? 1 : 0; }));
            p.set("eq", same);
        });
        items.push(o);
    }
    r.set("items", items);
}
