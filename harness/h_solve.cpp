// Equation solving (C30).
#include "drv.h"
#include <symengine/solve.h>
#include <symengine/sets.h>
#include <symengine/symbol.h>
#include <symengine/eval_double.h>
#include <cmath>
#include <complex>

using namespace SymEngine;
using namespace sev;

namespace
{
// fixed-point approximation (units of 2^-20) of a number expression: {v, re, im, ok}
J member(const RCP<const Basic> &m)
{
    J o = J::obj();
    o.set("v", dump(m));
    long long re = 0, im = 0, ok = 0;
    try {
        std::complex<double> z = eval_complex_double(*m);
        if (std::isfinite(z.real()) && std::isfinite(z.imag()) && std::fabs(z.real()) < 1000 && std::fabs(z.imag()) < 1000) {
            re = std::llround(z.real() * 1048576.0);
            im = std::llround(z.imag() * 1048576.0);
            ok = 1;
        }
    } catch (...) {
    }
    o.set("re", re);
    o.set("im", im);
    o.set("ok", ok);
    return o;
}
J node(const char *t)
{
    J o = J::obj();
    o.set("t", t);
    o.set("m", J::arr());
    o.set("a", J::arr());
    return o;
}
// the structure of a solution set: fin(members) | empty | reals | complexes | universal |
// inter(a...) | union(a...) | compl(a = [universe, container]) | other
J tree(const RCP<const Set> &s)
{
    if (is_a<FiniteSet>(*s)) {
        J o = node("fin");
        J m = J::arr();
        for (auto &e : down_cast<const FiniteSet &>(*s).get_container())
            m.push(member(e));
        o.set("m", m);
        return o;
    }
    if (is_a<EmptySet>(*s))
        return node("empty");
    if (is_a<Reals>(*s))
        return node("reals");
    if (is_a<Complexes>(*s))
        return node("complexes");
    if (is_a<UniversalSet>(*s))
        return node("universal");
    auto many = [&](const char *t, const set_set &c) {
        J o = node(t);
        J a = J::arr();
        for (auto &e : c)
            a.push(tree(e));
        o.set("a", a);
        return o;
    };
    if (is_a<Intersection>(*s))
        return many("inter", down_cast<const Intersection &>(*s).get_container());
    if (is_a<Union>(*s))
        return many("union", down_cast<const Union &>(*s).get_container());
    if (is_a<Complement>(*s)) {
        const Complement &c = down_cast<const Complement &>(*s);
        J o = node("compl");
        J a = J::arr();
        a.push(tree(c.get_universe()));
        a.push(tree(c.get_container()));
        o.set("a", a);
        return o;
    }
    return node("other");
}
} // namespace

// {"op":"solve","f":recipe,"x":name,"dom":"C"|"R"|"U"}
//  r.s : dump of the returned set; r.sexc
SEV_HANDLER(solve)
{
    RCP<const Basic> f = build(c.at("f"));
    RCP<const Symbol> x = symbol(c.at("x").s);
    const std::string &dom = c.at("dom").s;
    J s = term("Null"), tr = node("other");
    r.set("sexc", guarded([&] {
              RCP<const Set> res;
              if (dom == "R")
                  res = solve(f, x, reals());
              else if (dom == "C")
                  res = solve(f, x, complexes());
              else
                  res = solve(f, x);
              s = dump(res);
              tr = tree(res);
          }));
    r.set("s", s);
    r.set("tree", tr);
}

// {"op":"linsolve","eqs":[recipes],"syms":[names]}
//  r.sol : dumps of the solution vector; r.sexc
SEV_HANDLER(linsolve)
{
    vec_basic eqs;
    for (auto &t : c.at("eqs").a)
        eqs.push_back(build(t));
    vec_sym syms;
    for (auto &t : c.at("syms").a)
        syms.push_back(symbol(t.s));
    J sol = J::arr();
    r.set("sexc", guarded([&] {
              for (auto &b : linsolve(eqs, syms))
                  sol.push(dump(b));
          }));
    r.set("sol", sol);
}
