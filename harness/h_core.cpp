// Generic handlers: evaluate recipes and dump the objects the API returned.
#include "drv.h"
#include <symengine/number.h>
#include <symengine/integer.h>
#include <symengine/add.h>
#include <symengine/mul.h>
#include <symengine/pow.h>

using namespace SymEngine;
using namespace sev;

// {"op":"ev","ts":[recipe,...]} -> r.vs = [{"exc":"","v":dump},...]
SEV_HANDLER(ev)
{
    J vs = J::arr();
    for (auto &t : c.at("ts").a) {
        J e = J::obj();
        J v = term("Null");
        std::string exc = guarded([&] { v = dump(build(t)); });
        e.set("exc", exc);
        e.set("v", v);
        vs.push(e);
    }
    r.set("vs", vs);
}

// Number-level double dispatch: {"op":"numop","f":"add|sub|mul|div|pow|rsub|rdiv|rpow","a":lit,"b":lit}
// -> r.v: a->f(b) through the Number virtuals, r.w: the Basic-level function
SEV_HANDLER(numop)
{
    RCP<const Number> a = build_num(c.at("a"));
    RCP<const Number> b = build_num(c.at("b"));
    const std::string &f = c.at("f").s;
    J v = term("Null"), w = term("Null");
    std::string e1 = guarded([&] {
        RCP<const Number> x;
        if (f == "add")
            x = a->add(*b);
        else if (f == "sub")
            x = a->sub(*b);
        else if (f == "mul")
            x = a->mul(*b);
        else if (f == "div")
            x = a->div(*b);
        else if (f == "pow")
            x = a->pow(*b);
        else
            throw std::runtime_error("numop: bad f");
        v = dump(x);
    });
    std::string e2 = guarded([&] {
        RCP<const Basic> x;
        RCP<const Basic> a = build(c.at("a")), b = build(c.at("b"));
        if (f == "add")
            x = add(a, b);
        else if (f == "sub")
            x = sub(a, b);
        else if (f == "mul")
            x = mul(a, b);
        else if (f == "div")
            x = div(a, b);
        else
            x = pow(a, b);
        w = dump(x);
    });
    r.set("v", v);
    r.set("ve", e1);
    r.set("w", w);
    r.set("we", e2);
}
