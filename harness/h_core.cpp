// Generic handlers: evaluate recipes and dump the objects the API returned.
#include "drv.h"
#include <symengine/number.h>
#include <symengine/integer.h>
#include <symengine/add.h>
#include <symengine/mul.h>
#include <symengine/pow.h>

using namespace SymEngine;
using namespace sev;

// {"op":"ev","ts":[recipe,...]} -> r.vs = [{"exc":"","v":dump},...]
SEV_HANDLER(ev)
{
    J vs = J::arr();
    for (auto &t : c.at("ts").a) {
        J e = J::obj();
        J v = term("Null");
        std::string exc = guarded([&] { v = dump(build(t)); });
        e.set("exc", exc);
        e.set("v", v);
        vs.push(e);
    }
    r.set("vs", vs);
}

// Number arithmetic through both entry points and in both operand orders:
// {"op":"numop","f":"add|sub|mul|div|pow","a":lit,"b":lit}
//  r.v  = a->f(b)  (Number virtuals, double dispatch)   r.ve = exception
//  r.w  = f(a, b)  (Basic-level function)               r.we
//  r.x  = b->f(a), r.y = f(b, a)  (reversed operands)   r.xe, r.ye
static RCP<const Number> num_apply(const std::string &f,
                                   const RCP<const Number> &a,
                                   const RCP<const Number> &b)
{
    if (f == "add")
        return a->add(*b);
    if (f == "sub")
        return a->sub(*b);
    if (f == "mul")
        return a->mul(*b);
    if (f == "div")
        return a->div(*b);
    if (f == "pow")
        return a->pow(*b);
    throw std::runtime_error("numop: bad f");
}
static RCP<const Basic> basic_apply(const std::string &f,
                                    const RCP<const Basic> &a,
                                    const RCP<const Basic> &b)
{
    if (f == "add")
        return add(a, b);
    if (f == "sub")
        return sub(a, b);
    if (f == "mul")
        return mul(a, b);
    if (f == "div")
        return div(a, b);
    if (f == "pow")
        return pow(a, b);
    throw std::runtime_error("numop: bad f");
}
SEV_HANDLER(numop)
{
    RCP<const Number> a = build_num(c.at("a"));
    RCP<const Number> b = build_num(c.at("b"));
    const std::string &f = c.at("f").s;
    J v = term("Null"), w = term("Null"), x = term("Null"), y = term("Null");
    r.set("ve", guarded([&] { v = dump(num_apply(f, a, b)); }));
    r.set("we", guarded([&] { w = dump(basic_apply(f, a, b)); }));
    r.set("xe", guarded([&] { x = dump(num_apply(f, b, a)); }));
    r.set("ye", guarded([&] { y = dump(basic_apply(f, b, a)); }));
    r.set("v", v);
    r.set("w", w);
    r.set("x", x);
    r.set("y", y);
}
