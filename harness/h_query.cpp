// Property queries under assumptions (C34).
#include "drv.h"
#include <symengine/basic.h>
#include <symengine/number.h>
#include <symengine/assumptions.h>
#include <symengine/test_visitors.h>
#include <symengine/visitor.h>
#include <functional>

using namespace SymEngine;
using namespace sev;

namespace
{
const char *tri(tribool t)
{
    return is_true(t) ? "T" : (is_false(t) ? "F" : "U");
}
} // namespace

// {"op":"query","e":recipe,"st":[statement recipes],"vars":[symbols]}
//  r.e  dump of the expression;  r.q  {name: "T"|"F"|"U"|"X:<exception>"}
SEV_HANDLER(query)
{
    RCP<const Basic> e = build(c.at("e"));
    r.set("e", dump(e));
    set_basic st;
    for (auto &s : c.at("st").a)
        st.insert(build(s));
    Assumptions as(st);
    const Assumptions *a = c.at("st").a.empty() ? nullptr : &as;
    J q = J::obj();
    auto put = [&](const char *name, std::function<tribool()> f) {
        std::string v;
        std::string x = guarded([&] { v = tri(f()); });
        q.set(name, x.empty() ? v : "X:" + x);
    };
    put("zero", [&] { return is_zero(*e, a); });
    put("nonzero", [&] { return is_nonzero(*e, a); });
    put("positive", [&] { return is_positive(*e, a); });
    put("negative", [&] { return is_negative(*e, a); });
    put("nonnegative", [&] { return is_nonnegative(*e, a); });
    put("nonpositive", [&] { return is_nonpositive(*e, a); });
    put("real", [&] { return is_real(*e, a); });
    put("integer", [&] { return is_integer(*e, a); });
    put("complex", [&] { return is_complex(*e, a); });
    put("rational", [&] { return is_rational(*e); });
    put("irrational", [&] { return is_irrational(*e); });
    put("finite", [&] { return is_finite(*e, a); });
    put("infinite", [&] { return is_infinite(*e, a); });
    put("even", [&] { return is_even(*e, a); });
    put("odd", [&] { return is_odd(*e, a); });
    put("algebraic", [&] { return is_algebraic(*e, a); });
    put("transcendental", [&] { return is_transcendental(*e, a); });
    set_basic vars;
    if (c.has("vars"))
        for (auto &s : c.at("vars").a)
            vars.insert(build(s));
    put("polynomial", [&] { return is_polynomial(*e, vars) ? tribool::tritrue : tribool::trifalse; });
    r.set("q", q);
}
