#!/usr/bin/env python3
"""Regenerates the section 'Build log' of DESIGN.md (between the markers) from claims.py,
known_findings.jsonl and seeded/*/meta.json; the hand-written notes live in design_notes.md."""
import json, os, glob, re, sys
V = "/verif"
sys.path.insert(0, V + "/bin")
import claims

def rows():
    out = []
    out.append("### 12.1 Status per property\n")
    out.append("| id | status | technique |")
    out.append("|----|--------|-----------|")
    for i in range(1, 47):
        pid = "C%02d" % i
        if pid in claims.CLAIMS:
            out.append("| %s | claimed (quick + thorough) | %s |" % (pid, claims.CLAIMS[pid][-1]))
        else:
            out.append("| %s | not claimed | %s |" % (pid, claims.NOT_APPLICABLE.get(pid, "not built")[:160]))
    out.append("\n### 12.2 Genuine defects repaired in /repo (`fix:` commits) and known findings\n")
    out.append("| property | status | commit | what |")
    out.append("|----------|--------|--------|------|")
    for line in open(V + "/known_findings.jsonl"):
        line = line.strip()
        if not line or line.startswith("#"):
            continue
        k = json.loads(line)
        what = k.get("what", "").replace("|", "\\|")
        out.append("| %s | %s | %s | %s |" % (k["property"], k["status"], k.get("commit", ""), what[:400]))
    out.append("\n### 12.3 Seeded changes (sub-agents, confirmed) and the checks that catch them\n")
    out.append("| seed | property | change | caught by | history |")
    out.append("|------|----------|--------|-----------|---------|")
    for d in sorted(glob.glob(V + "/seeded/*/meta.json")):
        m = json.load(open(d))
        out.append("| %s | %s | %s | %s | %s |" % (os.path.basename(os.path.dirname(d)), m["property"],
                   m["summary"].replace("|", "\\|")[:260], m["detected_by"].replace("|", "\\|")[:260],
                   m.get("history", "").replace("|", "\\|")[:420]))
    return "\n".join(out) + "\n"

def main():
    p = V + "/DESIGN.md"
    s = open(p).read()
    notes = open(V + "/design_notes.md").read()
    body = "<!-- BUILDLOG-BEGIN -->\n## 12. Build log (what exists, what was corrected, what was found)\n\n" + notes + "\n" + rows() + "<!-- BUILDLOG-END -->\n"
    if "<!-- BUILDLOG-BEGIN -->" in s:
        s = re.sub(r"<!-- BUILDLOG-BEGIN -->.*<!-- BUILDLOG-END -->\n", lambda m: body, s, flags=re.S)
    else:
        s = s.rstrip("\n") + "\n\n" + body
    open(p, "w").write(s)

main()
