"""Per-property plans (see plans.py for the Ctx API)."""
import json
import os

import sevlib as L
from sevlib import log, Infra
from plans import plan, Ctx


# ====================================================================== plans
def simple(ctx, gen_module, trace_module, cfg="base", shards=None, floor=0.5, gen_env=None,
           stage=None, val_env=None, timeout=1800):
    cases = ctx.gen(gen_module, stage=stage, env=gen_env)
    events = ctx.drive(cfg, cases)
    bad = ctx.validate(trace_module, events, shards=shards, floor=floor, env=val_env, timeout=timeout)
    ctx.judge(bad, cases)


@plan("C05")
def c05(ctx):
    ctx.rule = ("TLC enumerates every ordered pair of exact numbers (rationals n/d and Gaussian "
                "rationals from a grid) under add/sub/mul/div and every number under integer powers "
                "-4..4; each call is replayed through the Number virtuals and the expression-level "
                "function; decisive = the specification computed the exact expected value")
    ctx.exhaustive = True
    simple(ctx, "MC_Num", "Trace_C05")


@plan("C06")
def c06(ctx):
    ctx.rule = ("TLC enumerates every ordered pair of 21 representative numbers (integers, rationals, "
                "Gaussian rationals, doubles, complex doubles, +oo, -oo, zoo, nan) under add/sub/mul/div; "
                "each call is replayed in both operand orders through the Number virtuals and the "
                "expression-level functions")
    ctx.exhaustive = True
    simple(ctx, "MC_C06", "Trace_C06", floor=0.3)


@plan("C29")
def c29(ctx):
    ctx.rule = ("TLC enumerates every ordered pair of 18 real numbers (integers, rationals, doubles incl. "
                "+0.0/-0.0 and values equal to exact ones, +oo, -oo); each pair is compared with "
                "Lt/Le/Gt/Ge/Eq/Ne directly, with swapped operands, and by substituting the numbers into "
                "symbolic relationals; decisive = the specification could order the two values")
    ctx.exhaustive = True
    simple(ctx, "MC_C29", "Trace_C29")


@plan("C33")
def c33(ctx):
    ctx.rule = ("TLC explores every call history of the sieve state machine (generate, clear, set_clear, "
                "segment size, iterator new/next/destroy; two iterators) up to the depth bound, checking the "
                "implementation-shaped model against the abstract contract in every state, and emits every "
                "maximal history; each is replayed on the real process-global Sieve (segment size set in bits "
                "through hook H4) and TLC re-runs the specification along the recorded results; seeded random "
                "histories of length 12-40 go through the same trace specification")
    depth = 4 if ctx.thorough else 3
    # negative model: the pre-repair segment end must be refuted (vacuity guard for NoOutOfBounds)
    ctx.model_check("MC_Sieve", cfg="MC_SieveNeg.cfg", expect_violation=True, env={"OUT": "/dev/null"})
    cases = ctx.gen("MC_Sieve", cfg="MC_Sieve%d.cfg" % depth, workers=4, heap="8g")
    # random deeper histories from the harness driver
    n_rand = 3000 if ctx.thorough else 300
    rows = L.read_ndjson(cases)
    base = len(rows)
    if ctx.replay_rows is None:
        import random
        rg = random.Random(ctx.seed)
        for i in range(n_rand):
            rows.append({"op": "sieve_random", "seed": rg.randrange(1 << 30), "len": rg.choice([12, 20, 40]),
                         "maxlimit": rg.choice([60, 200, 450]), "id": base + i + 1, "_stage": "MC_Sieve"})
        L.write_ndjson(cases, rows)
    events = ctx.drive("base", cases)
    bad = ctx.validate("Trace_Sieve", events, shards=6 if ctx.thorough else 4, floor=0.9)
    ctx.judge(bad, cases)
    ctx.exhaustive = True
    ctx.extra["depth_bound"] = depth
    ctx.extra["random_histories"] = n_rand


@plan("C25")
def c25(ctx):
    ctx.rule = ("model MC_CSR: from every canonical matrix of the bounded shapes every set(i,c,v) transition "
                "(TLC checks the transcribed binary search keeps the format canonical and refines the dense "
                "update; a wrong-search variant must be refuted); every transition is replayed on a real "
                "CSRMatrix and the logged arrays must equal the specification's; model MC_CSROps: all pairs of "
                "small dense matrices through from_coo (with duplicates), transpose, conjugate, binop add/sub, "
                "elementwise product, row/column scaling, diagonal and eq, validated against the dense meaning")
    ctx.model_check("MC_CSR", cfg="MC_CSR_neg.cfg", expect_violation=True, env={"OUT": "/dev/null"})
    shapes = ["t1", "t2"] if ctx.thorough else ["q1", "q2"]
    for sh in shapes:
        cases = ctx.gen("MC_CSR", stage="set_" + sh, cfg="MC_CSR_%s.cfg" % sh, workers=4, heap="8g")
        events = ctx.drive("base", cases)
        bad = ctx.validate("Trace_CSR", events, floor=0.9)
        ctx.judge(bad, cases)
    cases = ctx.gen("MC_CSROps", stage="ops")
    events = ctx.drive("base", cases)
    bad = ctx.validate("Trace_CSR", events, floor=0.9)
    ctx.judge(bad, cases)
    ctx.exhaustive = True


@plan("C07")
def c07(ctx):
    ctx.rule = ("TLC enumerates every depth-1 recipe over 20 atoms x {add,sub,mul,div,pow (14 exponents),sqrt,"
                "cbrt,neg} and seeded random subsets of depth-2 and depth-3 recipes; each is built through the "
                "API and TLC compares the value of the recipe with the value of the returned expression at six "
                "assignments (positive, negative, perfect-square, fractional, Gaussian) in the exact/modular "
                "value domain; decisive = some assignment gave a definite comparison")
    simple(ctx, "MC_C07", "Trace_Val", floor=0.4)


@plan("C04")
def c04(ctx):
    ctx.rule = ("TLC enumerates multisets of exact operands (28-atom alphabet: integers, rationals, Gaussian "
                "rationals, symbols, pi, integer/rational powers, radicals, function applications, sums, products): "
                "all pairs and a seeded random subset of triples, each in every permutation, both bracketings and "
                "through the n-ary entry point, for add and mul; all triples over 11 values for max/min and over 9 "
                "relational atoms for and/or; all variants of one case must be structurally identical")
    simple(ctx, "MC_C04", "Trace_Val", floor=0.5)


@plan("C08")
def c08(ctx):
    ctx.rule = ("TLC enumerates, for every function constructor of the statement, the arguments at which the "
                "constructor evaluates or rewrites and the specification's function table (module Func) knows the "
                "exact value: trig at r + k*pi/12 (six residuals, |k| <= 26/60), inverse trig at all table values, "
                "hyperbolic at integers, exp/log at unit/log-smooth arguments, abs/sign/floor/ceiling/truncate/"
                "conjugate on a 28-element pool, gamma/zeta/eta/polygamma/beta at (half-)integers, max/min, "
                "kronecker_delta, levi_civita, primepi, primorial; the result's value is compared with the "
                "function applied to the argument value at the environments of the named set")
    simple(ctx, "MC_C08", "Trace_Val", floor=0.3)


@plan("C09")
def c09(ctx):
    ctx.rule = ("TLC enumerates sums, products and integer powers (-2..4) of sums over x, y, z, f(x), numeric and "
                "complex coefficients (two levels exhaustively over the alphabet, a seeded random third level); "
                "expand(e) must have the value of e (six assignments, modular polynomial identity testing), be "
                "idempotent and contain no product or positive integer power of a sum; pairs of recipes equal as "
                "polynomials (reordered factors, distributivity, binomial identities, regrouping) must expand to "
                "one and the same object")
    simple(ctx, "MC_C09", "Trace_Val", floor=0.5)


@plan("C11")
def c11(ctx):
    ctx.rule = ("TLC enumerates 36 expressions (arithmetic, powers, functions, relationals, undefined functions) x 41 "
                "substitution maps (numbers, symbols, expressions, two-key maps incl. swaps) for subs and seeded "
                "subsets for xreplace/msubs/ssubs, each with and without the cache; the value of the result at six "
                "assignments must equal the value of the expression under the substituted environment and both cache "
                "settings must return the same object; substituting an absent symbol or the identity map must return "
                "the input itself")
    simple(ctx, "MC_C11", "Trace_Val", floor=0.3)


@plan("C13")
def c13(ctx):
    ctx.rule = ("TLC explores every init/call history of one evaluator object up to the depth bound (5 output "
                "lists with 0-3 shared sub-expressions so that the CSE buffer grows and shrinks between "
                "initialisations, both cse settings, 3 input vectors; real and complex visitors) and emits each "
                "history ending in a call; each is replayed on ONE real visitor object; for every call TLC demands "
                "outputs bit-identical to a fresh object and to a fresh object without CSE, and equal to the exact "
                "value wherever the expression stays in the exact fragment (dyadic inputs: IEEE arithmetic is exact)")
    depth = 5 if ctx.thorough else 4
    for kind in ("r", "c"):
        cases = ctx.gen("MC_Lambda", stage="lambda_" + kind, cfg="MC_Lambda_%s%d.cfg" % (kind, depth), workers=4, heap="6g")
        events = ctx.drive("base", cases)
        bad = ctx.validate("Trace_Lambda", events, floor=0.5)
        ctx.judge(bad, cases)
    ctx.exhaustive = True
    ctx.extra["depth_bound"] = depth


def judge_witnesses(ctx, bad, cases):
    """Rejections of the form 'bad:<axiom>@i,j,k' are attributed to the objects i,j,k of the
    case (indices into ts), so that a known finding names the offending objects, not the batch."""
    import re
    rows = {r["id"]: r for r in L.read_ndjson(cases)}
    for b in bad:
        c = rows[b["id"]]
        m = re.match(r"^(bad:[A-Za-z]+)@(-?\d+(?:,-?\d+)*)$", b["why"])
        if not m or any(int(i) < 1 for i in m.group(2).split(",")):
            ctx.flag(c, b["why"])
            continue
        idx = [int(i) for i in m.group(2).split(",")]
        objs = [c["ts"][i - 1] for i in idx]
        ctx.flag({"op": c["op"], "axiom": m.group(1)[4:], "ts": objs}, m.group(1))


def order_plan(ctx, axioms):
    cases = ctx.gen("MC_Order")
    events = ctx.drive("base", cases)
    bad = ctx.validate("Trace_Order", events, shards=4, env={"AXIOMS": axioms}, floor=0.9)
    judge_witnesses(ctx, bad, cases)
    sizes = [len(r["ts"]) for r in L.read_ndjson(cases)]
    ctx.extra["universes"] = len(sizes)
    ctx.extra["objects"] = sum(sizes)
    ctx.extra["ordered_pairs"] = sum(n * n for n in sizes)
    ctx.extra["triples"] = sum(n * n * n for n in sizes)
    ctx.decisive = ctx.extra["ordered_pairs"]
    ctx.exhaustive = True


@plan("C01")
def c01(ctx):
    ctx.rule = ("one universe of objects of every kind named by the property (all number kinds incl. signed zeros, "
                "NaN and infinities as doubles, symbols, constants, sums, products, powers, functions, relationals, "
                "booleans, Piecewise, every set class, derivatives) with alternative construction paths of the same "
                "value; the library's eq / hash / container behaviour over ALL ordered pairs and triples is validated "
                "by TLC against the axioms of module Order (eq is an equivalence, eq implies equal hash, the hash "
                "cache is stable, hash- and order-keyed containers hold one entry per eq-class, alternative paths are eq)")
    order_plan(ctx, "C01")


@plan("C02")
def c02(ctx):
    ctx.rule = ("same universe as C01; TLC validates over ALL ordered pairs and triples that __cmp__ ranges over "
                "{-1,0,1}, is 0 exactly on eq, antisymmetric and transitive, that the container key order is a strict "
                "weak order whose incomparability is eq, and that set_basic iterates in the same sorted order for "
                "8 insertion permutations")
    order_plan(ctx, "C02")


@plan("C03")
def c03(ctx):
    ctx.rule = ("TLC enumerates 12 binary operations on every ordered pair, 49 unary operations on every element and "
                "4 n-ary operations on triples of a 66-element operand pool built around the boundary cases of the "
                "canonicalising constructors (zeros, units, radicals, nested powers, pi shifts, infinities, floats); "
                "every call is replayed; a failed SYMENGINE_ASSERT (hook H1: raised as an exception) or a result that "
                "violates the transcribed Add/Mul/Pow/number invariants at any depth is a violation; the same monitor "
                "runs inside every Trace_Val check (C04, C07, C08, C09, C11)")
    simple(ctx, "MC_C03", "Trace_Val", floor=0.5)
    ctx.exhaustive = True


@plan("C27")
def c27(ctx):
    ctx.rule = ("TLC enumerates ordered pairs of 55 (thorough 110) primitive sets over a grid (intervals with all "
                "open/closed and infinite end combinations, finite sets, the named number sets, empty and universal "
                "set) under union / intersection / complement through the free functions and the methods, seeded "
                "three-set combinations, and closure / interior / boundary of interval-and-finite-set unions; each "
                "result is probed at 35 points (every grid value, a rational and an irrational inside every gap, two "
                "non-real numbers): membership in the dumped result must equal the boolean combination of the "
                "operands' memberships, and contains() must not contradict it")
    cases = ctx.gen("MC_C27")
    events = ctx.drive("base", cases, env={"SEV_CASE_TIMEOUT": "5"}, max_crashes=400)
    bad = ctx.validate("Trace_C27", events, floor=0.5)
    ctx.judge(bad, cases)


@plan("C28")
def c28(ctx):
    ctx.rule = ("TLC enumerates formulas with and/or/not/xor/nand/nor/xnor over 12 atoms (relationals between x, y and "
                "numbers, Contains in finite sets and an interval, True, False) and their negations: all binary "
                "combinations of literals, seeded ternary and nested combinations, and Piecewise expressions with such "
                "conditions; the simplified formula the library returns must have the same truth value as the recipe "
                "at all 25 assignments of x, y over a grid that realises every cell of the atoms")
    simple(ctx, "MC_C28", "Trace_Val", floor=0.5)


@plan("C21")
def c21(ctx):
    ctx.rule = ("model MC_Kron: TLC checks the transcription of UIntDict::mul (Kronecker substitution, signed-digit "
                "decoding) against schoolbook multiplication for all pairs of integer polynomials of length <= 3 over "
                "{-7,-3,-1,0,1,2,7} (the pre-repair digit width must be refuted); model MC_C21: pairs of integer and "
                "rational coefficient lists (all small pairs, seeded larger ones, squares); every operation (from_vec, "
                "add, sub, mul, neg, pow, diff, eval, degree, divides with quotient, as_symbolic/from_basic round "
                "trip, from_basic of a product) is replayed and validated against the schoolbook arithmetic of module Poly")
    ctx.model_check("MC_Kron", cfg="MC_KronNeg.cfg", expect_violation=True)
    if ctx.thorough:
        ctx.model_check("MC_Kron", cfg="MC_Kron.cfg", workers=8)
    else:
        ctx.model_check("MC_Kron", cfg="MC_KronQ.cfg", workers=4)
    simple(ctx, "MC_C21", "Trace_C21", floor=0.5)


@plan("C23")
def c23(ctx):
    ctx.rule = ("TLC enumerates pairs of polynomials over GF(p), p in {2,3,5,7} (all pairs up to a degree bound per "
                "prime or a seeded subset, plus lists with unreduced entries); add, sub, mul, neg, scalar add, division "
                "with remainder, pow, sqr, pow_mod, compose_mod, gcd, lcm, diff, monic, evaluation at every field "
                "element are validated against arithmetic modulo p by definition (module GF); is_sqf, sqf_list, "
                "gf_factor, gf_zassenhaus and gf_shoup (three runs each) against their contracts: product, monic "
                "irreducible (no monic divisor of degree <= deg/2, by exhaustive search) distinct factors")
    simple(ctx, "MC_C23", "Trace_C23", floor=0.9)


@plan("C24")
def c24(ctx):
    ctx.rule = ("TLC enumerates all 2x2 matrices over {-2..2} and over {-1,0,1,1/2}, a seeded set of 3x3 matrices over "
                "{-1,0,1,2}, all symmetric 3x3 matrices of a positive-definite-biased family and hand-picked zero-pivot / "
                "rank-deficient / complex ones; every determinant algorithm, inverse algorithm, solver, LU, LDL, QR, "
                "Cholesky, RREF, rank, characteristic polynomial, transpose, product, sum and row/column operations are "
                "replayed and validated against module Mat: Laplace determinant, unique exact RREF, and multiply-back "
                "contracts (A*inv = I, A*x = b, L*U = A, L*D*L^T = A, Q*R = A with Q^T*Q = I, L*L^T = A) evaluated "
                "in the exact/modular value domain")
    simple(ctx, "MC_C24", "Trace_C24", floor=0.9)


@plan("C10")
def c10(ctx):
    ctx.rule = ("TLC enumerates ~500 expressions (algebraic, all trigonometric/hyperbolic functions and their inverses "
                "composed with 9 inner arguments, products, quotients, powers, nested) and differentiates each by the "
                "textbook rules of operator D in module Term; the library's derivative (with and without the cache: same "
                "object), second derivatives and mixed partials must have the value of the model's derivative at every "
                "assignment where it is defined; the derivative with respect to an absent symbol must be the integer 0")
    simple(ctx, "MC_C10", "Trace_Val", floor=0.3)


@plan("C36")
def c36(ctx):
    ctx.rule = ("TLC enumerates rational expressions (quotients, negative and fractional powers, sums/products/quotients "
                "of them) for as_numer_denom, complex-coefficient expressions and functions of complex arguments for "
                "as_real_imag, trigonometric and hyperbolic expressions for rewrite_as_exp/sin/cos, expand_as_exp and "
                "trig_to_sqrt (incl. all special angles k*pi/12, k*pi/5, k*pi/8, pi/10), and a mixed pool for "
                "conjugate; TLC validates n/d = e with no negative exponent or fraction at the top level of n and d, "
                "re + I*im = e with re and im real at positive assignments, and value preservation of every rewriting")
    simple(ctx, "MC_C36", "Trace_Val", floor=0.3)


@plan("C35")
def c35(ctx):
    ctx.rule = ("TLC enumerates abs/sign/floor/ceiling/conjugate/log/sqrt of 18 arguments, max/min families, nested "
                "powers (b^k)^n over 4 bases x 10 inner x 11 outer exponents, logarithms of powers and of perfect powers, "
                "and reciprocal trigonometric products, each under 12 assumption sets (none, real, positive, negative, "
                "nonnegative, nonpositive, integer, positive integer, nonzero, rational, and two-symbol sets) through "
                "refine and simplify; TLC validates that the result has the value of the input at every assignment of "
                "the environment set attached to the assumption set (all of whose assignments satisfy it)")
    simple(ctx, "MC_C35", "Trace_Val", floor=0.3)


@plan("C34")
def c34(ctx):
    ctx.rule = ("TLC enumerates 34 number expressions and ~190 symbolic expressions (arithmetic, powers, 17 functions, "
                "max/min) under 12 assumption sets; the 17 tribool queries and is_polynomial are recorded and TLC "
                "validates every definite answer against the three-valued truth of the property on the value of the "
                "expression at every assignment of the environment set attached to the assumption set (all of whose "
                "assignments satisfy it); is_polynomial is validated against the structural definition on the dump")
    simple(ctx, "MC_C34", "Trace_C34", floor=0.5)


@plan("C38")
def c38(ctx):
    ctx.rule = ("TLC enumerates grids (as sequences: the recurrence depends on the order) of 1-5 distinct points out "
                "of 9 rationals, 6 centres (and a symbolic one) and maximum derivative orders 0-5; TLC validates the "
                "returned weights against the exactness equations sum_i w[i,k]*(g_i-a)^m = k!*[m=k] for all m < n, "
                "k <= max order, in exact rational arithmetic")
    simple(ctx, "MC_C38", "Trace_C38", floor=0.9)


@plan("C46")
def c46(ctx):
    ctx.rule = ("TLC enumerates all 1x2 matrices over -3..3, all 1x3 and 2x2 over -2..2, seeded 2x3 over -2..2, 1x4, "
                "2x4 and 3x3 over small entries; TLC computes the Hilbert basis by definition (all non-zero vectors "
                "of a box that dominates every minimal solution, minimal under the componentwise order) and demands "
                "that homogeneous_lde returns exactly that set, every vector once")
    simple(ctx, "MC_C46", "Trace_C46", floor=0.9)


@plan("C32")
def c32(ctx):
    ctx.rule = ("TLC enumerates n in 0..130 and selected larger n for 31 one-argument functions, all pairs in -12..12 "
                "(plus larger samples) for 19 two-argument functions, and seeded (a, n, m, r/s) tuples for modular "
                "roots, rational modular powers and CRT; TLC validates every recorded result against the definition "
                "written in module NT (brute force: divisors, Euclid-free gcd, residues by enumeration, symbols by "
                "factorisation, recurrences over exact rationals)")
    simple(ctx, "MC_C32", "Trace_C32", floor=0.9)


@plan("C37")
def c37(ctx):
    ctx.rule = ("TLC enumerates lists of one to three expressions built around 14 shared parts (sub-sums, "
                "sub-products, powers, functions) in 15 contexts, and lists whose own symbols are named like "
                "replacement symbols; TLC validates freshness and distinctness of the replacement symbols, that each "
                "replacement mentions earlier replacement symbols only, that back-substitution (last to first) "
                "returns objects equal to the inputs, and independently that each reduced expression evaluated in the "
                "environment extended by the replacements has the value of its input")
    simple(ctx, "MC_C37", "Trace_C37", floor=0.9)


@plan("C39")
def c39(ctx):
    ctx.rule = ("TLC enumerates arithmetic expressions (incl. cancelling symbols), undefined functions, derivatives and "
                "Subs objects produced by differentiating them, image / condition sets, relationals and piecewise "
                "expressions, and ~170 expanded polynomials in two choices of variable; TLC validates free_symbols "
                "against the definition on the dump (binders: Subs, ImageSet, ConditionSet), has_symbol for five probe "
                "symbols, function_symbols and atoms against the subterms of the matching kind, and coeff by "
                "reconstruction of the polynomial's value with coefficients free of the variable")
    simple(ctx, "MC_C39", "Trace_C39", floor=0.9)


@plan("C31")
def c31(ctx):
    ctx.rule = ("TLC enumerates 14 functions of 9 inner arguments vanishing at 0, logarithms, roots and rational powers "
                "of 1+u, reciprocals, shifted arguments (pi, pi/6, pi/4, 1, 2), and products, sums, quotients and "
                "compositions of them, at several truncation orders; TLC computes the Taylor coefficients from the "
                "defining differential equations (module Series: exp, log, sin/cos, sinh/cosh, general power, "
                "integrals for the inverse functions) in the exact/modular value domain and compares every "
                "coefficient returned by series()")
    simple(ctx, "MC_C31", "Trace_C31", floor=0.5, shards=5)


@plan("C30")
def c30(ctx):
    ctx.rule = ("TLC builds polynomial equations of degree 1-4 from their roots (9 rational roots, 6 irreducible "
                "quadratics with complex / irrational roots, repeated roots, three leading coefficients), rational "
                "equations from numerator and denominator factor lists that share factors, 14 linear trigonometric "
                "equations and 2x2 / 3x3 linear systems, over the default, complex and real domains; TLC validates "
                "that every returned member is a solution (exactly where its value is defined, and to 2^-20 against "
                "the known roots otherwise), that no pole is returned, that every solution in the domain is returned, "
                "that membership of 61 probes k*pi/12 in the trigonometric solution sets coincides with f = 0, and "
                "that linsolve's vector satisfies every equation of a uniquely solvable system")
    simple(ctx, "MC_C30", "Trace_C30", floor=0.3, shards=5)


@plan("C22")
def c22(ctx):
    ctx.rule = ("TLC enumerates pairs of integer- and expression-coefficient polynomials over 10 variable lists (empty, "
                "equal, permuted, overlapping, disjoint) with 0-3 monomials (exponents 0-2, zero coefficients included); "
                "TLC validates from_dict, add, sub, mul, neg, pow, eval, as_symbolic and from_basic (also of an "
                "unexpanded product) against bag-of-monomials arithmetic over the union of the variables, with the "
                "structural conditions: variables of the result exactly the union, no zero coefficient stored")
    simple(ctx, "MC_C22", "Trace_C22", floor=0.5, shards=5)


@plan("C26")
def c26(ctx):
    ctx.rule = ("TLC enumerates matrix-expression trees of depth 0-2 over dense, diagonal, identity and zero leaves of "
                "shapes 2x2, 2x3, 3x2, 3x3 (numeric, Gaussian and symbolic entries), matrix add, multiply (with scalar "
                "factors), Hadamard product, transpose and conjugate, plus mismatched shapes and matrix symbols with "
                "symbolic dimensions; TLC evaluates recipe and returned expression to concrete matrices (MVal) and "
                "demands equal values, predicates (zero, diagonal, symmetric, lower, upper, real, square, Toeplitz) not "
                "contradicted by the concrete matrix, correct sizes and trace")
    simple(ctx, "MC_C26", "Trace_C26", floor=0.5, shards=5)


@plan("C17")
def c17(ctx):
    ctx.rule = ("TLC prints abstract syntax trees (depth <= 3 over identifiers, integers, floating-point literals, pi, "
                "+ - * / ** unary minus, 15 function names) with the printer of module Syntax, which states the "
                "conventional rules (precedence, associativity, where a unary sign may stand) in 32 styles (spaces, "
                "redundant parentheses, ^ for **, leading zeros, implicit multiplication), including the classical "
                "traps in every style; the parser's result must be the expression built directly from the tree")
    simple(ctx, "MC_C17", "Trace_C17", floor=0.9)


@plan("C16")
def c16(ctx):
    ctx.rule = ("TLC enumerates expressions of the parseable fragment (23 atoms: identifiers with digits and "
                "underscores, integers, rationals, Gaussian numbers, floats, constants, infinities, nan; arithmetic, "
                "negative and complex coefficients, nested powers, 25 functions, relationals, logic), commutative ones in "
                "several operand orders; TLC validates that constructions giving equal objects print to the same string "
                "and that parse(str(e)) is the same object as e (close in value when floats are involved)")
    simple(ctx, "MC_C16", "Trace_C16", floor=0.5)


@plan("C18")
def c18(ctx):
    ctx.rule = ("TLC enumerates every token string up to length 3 (thorough: 4) over 30 tokens (identifiers, numbers, "
                "operators, brackets, separators, junk and non-ASCII / NUL bytes) plus long nestings, grouped into "
                "runs of 8 consecutive inputs for one parser object; every input is parsed by the reused object, by "
                "a fresh parse() and by parse_sbml(); TLC validates that every outcome is an expression or a library "
                "exception and that the reused object's outcome equals the fresh one at every position; crashes, "
                "hangs and (thorough tier, ASan+UBSan build) sanitizer reports are attributed to the case")
    cfg = "asan" if ctx.thorough else "base"
    simple(ctx, "MC_C18", "Trace_C18", cfg=cfg, floor=0.9)


@plan("C19")
def c19(ctx):
    ctx.rule = ("TLC enumerates expressions of every kind the dumper knows (27 numbers incl. multi-limb integers, "
                "signed zeros, infinities and NaN doubles; symbols and constants; arithmetic; 43 one-argument and 9 "
                "two-argument functions; undefined functions; relationals and logic; 17 sets; derivatives, Subs, "
                "piecewise) alone, in triples and nested, and expressions with one object in several places; TLC "
                "validates that loads(dumps(e)) has the identical structural dump (doubles bit for bit), is eq, has "
                "the same node count and no more distinct objects than e, and that a DenseMatrix of them round-trips")
    simple(ctx, "MC_C19", "Trace_C19", floor=0.5)


@plan("C20")
def c20(ctx):
    ctx.rule = ("TLC enumerates structured mutations (8 replacement values, 8 xor masks, truncation, suffix duplication) "
                "at byte positions 0..200 (every third; thorough: every position to 260) of the serialized form of 21 "
                "base expressions of all archive shapes; every mutated string is loaded and the result printed, hashed "
                "and compared; TLC validates that every outcome is a usable expression or an exception of the library / "
                "archive layer and that no canonical-form assertion fired; crashes, hangs and (thorough tier, "
                "ASan+UBSan build) sanitizer reports are attributed to the case")
    cfg = "asan" if ctx.thorough else "base"
    cases = ctx.gen("MC_C20")
    # attacker-controlled length fields make the archive layer allocate gigabytes: cap allocations so that they
    # fail fast (bad_alloc is an acceptable outcome)
    env = {"SEV_CASE_TIMEOUT": "30", "SEV_NEW_CAP_MB": "256"}
    if cfg == "asan":
        env["ASAN_OPTIONS"] = "allocator_may_return_null=1:max_allocation_size_mb=256:detect_leaks=0"
        # a throwing operator new that the sanitizer refuses is reported as a fatal error by ASan; it stands for bad_alloc
        ctx.crash_ignore = r"AddressSanitizer: (allocator is out of memory|requested allocation size|failed to allocate)|allocation-size-too-big|out-of-memory"
    else:
        env["SEV_AS_LIMIT_MB"] = "1024"
    events = ctx.drive(cfg, cases, env=env, max_crashes=3000 if ctx.thorough else 60)
    if ctx.ignored_crashes:
        ctx.notes.append("%d mutated archives made the sanitizer refuse a giant allocation (counted as bad_alloc)" % ctx.ignored_crashes)
    bad = ctx.validate("Trace_C20", events, floor=0.9)
    ctx.judge(bad, cases)


@plan("C44")
def c44(ctx):
    ctx.rule = ("TLC enumerates the expression pool of module ExprPool (numbers of every kind, functions, relationals, "
                "logic, sets, derivatives, piecewise), sums / products / powers / quotients and functions of them, and "
                "an SBML fragment; LaTeX, MathML, Unicode, Julia and SBML printers are run on each; TLC validates "
                "totality (an expression or a 'not supported' exception), balanced LaTeX groups and \\left/\\right pairs "
                "and well-formed MathML by pushdown automata over the extracted token sequences, and the SBML round "
                "trip parse_sbml(sbml(e)) = e on the fragment")
    simple(ctx, "MC_C44", "Trace_C44", floor=0.5)


@plan("C42")
def c42(ctx):
    ctx.rule = ("TLC enumerates 15 atoms, every one- and two-argument C API function on them and nested combinations, "
                "built once through the C API only (handles, error codes) and once through the C++ API; container "
                "histories (all short ones per container, seeded ones of length 6 and 10 over all 33 operations) on a "
                "CVecBasic, CSetBasic and CMapBasicBasic with values of three equality classes; Expression operators on "
                "pairs; TLC validates equal results, error codes exactly where C++ throws and of the right class, no "
                "escaping exception, every container outcome and the final contents against module Containers")
    simple(ctx, "MC_C42", "Trace_C42", floor=0.5)
    # container histories from the state machine MC_C42H (invariants TypeOK, Bounded checked in every state)
    n = 1500 if ctx.thorough else 60
    hist = ctx.gen("MC_C42H", simulate="num=%d" % n, extra=("-depth", "9"), workers=4)
    ev2 = ctx.drive("base", hist)
    ctx.judge(ctx.validate("Trace_C42", ev2, floor=0.5), hist)


@plan("C40")
def c40(ctx):
    import random
    ctx.rule = ("TLC model-checks the reference-counting design (module RC: counts equal referrers, cascading release, a "
                "quiescent caller leaves no live object; a variant without cascading release must be refuted); the "
                "same state machine is simulated and every history of 14 handle operations (node construction over live "
                "arguments, copy, destruction, assignment from a handle and from a reference to an argument stored in the "
                "pointee; wrong release-first assignment refuted) is replayed on real RCP<const Basic> handles, TLC replaying "
                "the recorded history on module RC and comparing every use_count and the live-object count after every "
                "operation; the leak workload is a seeded sample of the cases of 15 generator models (construction, substitution, "
                "differentiation, polynomials, matrices, sets, solving, series, parsing, printing, serialization, C "
                "API), every case replayed twice in a row; TLC validates that the live-object count (hook H2) is "
                "unchanged across the repeated run of every case; crashes and (thorough tier: ASan+UBSan+LeakSanitizer "
                "build) sanitizer reports are attributed to the case")
    ctx.model_check("RC", cfg="RC.cfg")
    ctx.model_check("RC", cfg="RCNeg.cfg", expect_violation=True)
    ctx.model_check("RC", cfg="RCNeg2.cfg", expect_violation=True)
    # handle semantics: histories simulated from the state machine (invariants checked in every state), replayed on real
    # RCP<const Basic> handles; TLC replays each recorded history on module RC and compares every count
    hcfg = "asan" if ctx.thorough else "base"
    hist = ctx.gen("MC_RCH", simulate="num=%d" % (4000 if ctx.thorough else 600), extra=("-depth", "15"), workers=4)
    hev = ctx.drive(hcfg, hist)
    ctx.judge(ctx.validate("Trace_RC", hev, floor=0.9), hist)
    rnd = random.Random(ctx.seed)
    per = 400 if ctx.thorough else 90
    rows = []
    for mod in ["MC_C03", "MC_C10", "MC_C11", "MC_C21", "MC_C22", "MC_C24", "MC_C26", "MC_C30", "MC_C31", "MC_C17", "MC_C19", "MC_C42", "MC_C44", "MC_C37", "MC_C39"]:
        f = ctx.gen(mod, stage=mod)
        rs = L.read_ndjson(f)
        rnd.shuffle(rs)
        rows += rs[:per]
    cases = os.path.join(ctx.dir, "workload.cases")
    out = []
    for r in rows:
        for rep in (1, 2):
            c = dict(r)
            c.pop("id", None)
            c["rep"] = rep
            c["id"] = len(out) + 1
            c["_stage"] = "workload"
            out.append(c)
    L.write_ndjson(cases, out)
    cfg = "asan" if ctx.thorough else "base"
    env = {"SEV_CASE_TIMEOUT": "60"}
    if cfg == "asan":
        env["ASAN_OPTIONS"] = "detect_leaks=1"
    events = ctx.drive(cfg, cases, env=env, max_crashes=40)
    ctx.judge(ctx.validate("Trace_C40", events, floor=0.4), cases)


@plan("C12")
def c12(ctx):
    ctx.rule = ("TLC enumerates number expressions: ~600 with an exact rational value (arithmetic and integer powers of 15 "
                "rationals, rounding functions, max/min, perfect-power roots, functions at special points) and ~2500 "
                "with irrational values (37 functions of rationals, constants and radicals, nested); eval_double in its "
                "visitor, single-dispatch and default forms, evalf at 53 bits, eval_complex_double and the lambda visitor "
                "are run on each; TLC validates the exact cases against the 53-bit quotient computed by long division "
                "(module Dbl) and the mutual agreement of the evaluators on all cases, to 2^-40")
    simple(ctx, "MC_C12", "Trace_C12", floor=0.5)


@plan("C15")
def c15(ctx):
    ctx.rule = ("TLC enumerates expressions in x, y (arithmetic, integer / fractional / symbolic powers, 27 functions, "
                "atan2, max/min, piecewise, constants, rationals, floats; nested one level) in batches at two numeric "
                "bindings; ccode, the C89 and the C99 printer print each, the C compiler compiles the printed source "
                "(-std=c89 / -std=c99) and the program is run; TLC validates that what was printed compiles and that "
                "the computed double agrees to 2^-40 with the library's evaluation of the expression at the binding")
    # (a batch compiles three C files: generous per-case limit on a loaded machine)
    cases = ctx.gen("MC_C15")
    events = ctx.drive("base", cases, env={"SEV_CASE_TIMEOUT": "300"}, timeout=7200)
    ctx.judge(ctx.validate("Trace_C15", events, floor=0.5), cases)


# ---------------------------------------------------------------------- C43
BACKENDS = ("base", "gmpxx", "boost")


def across_backends(ctx, cases, trace_module, floor, shards=None, backends=BACKENDS, every=1, skip_spec=(),
                    any_valid=()):
    """Replay one case file on every integer back end, validate each trace with the same specification (every
    n-th event when every > 1), then validate that the results are identical (Trace_C43X)."""
    evs = {}
    for cfg in backends:
        evs[cfg] = ctx.drive(cfg, cases)
        if cfg in skip_spec:
            continue
        sel = evs[cfg]
        if every > 1:
            sel = evs[cfg] + ".sel"
            with open(evs[cfg]) as f, open(sel, "w") as g:
                for i, line in enumerate(f):
                    if i % every == 0:
                        g.write(line)
        bad = ctx.validate(trace_module, sel, floor=floor, shards=shards)
        for b in bad:
            b["why"] += "@" + cfg
        ctx.judge(bad, cases)
    merged = cases.replace(".cases", "") + ".merged.events"
    per = []
    for c in backends:
        d = {}
        for e in L.read_ndjson(evs[c]):
            d[e["c"]["id"]] = e
        per.append(d)
    with open(merged, "w") as out:
        for i in sorted(per[0]):
            if not all(i in d for d in per):
                continue          # (a crash on one back end is flagged by drive)
            es = [d[i] for d in per]
            for e in es:
                # results characterised by a contract only (whether and which factor a randomised method finds):
                # validated per back end by the trace specification, not compared
                for k in any_valid:
                    e["r"].pop(k, None)
            out.write(json.dumps({"c": es[0]["c"], "r": {"exc": "", "names": list(backends),
                                  "res": [json.dumps(e["r"], sort_keys=True) for e in es]}}) + "\n")
    bad = ctx.validate("Trace_C43X", merged, floor=0.9)
    ctx.judge(bad, cases)


@plan("C43")
def c43(ctx):
    ctx.rule = ("TLC enumerates calls of the integer back-end wrappers (50 mp_* functions and the integer / rational "
                "class operators: arithmetic, the three division conventions, gcd / lcm / Bezout, modular inverse and "
                "power, roots, primality, perfect powers, next prime, Fibonacci / Lucas / factorial / primorial / "
                "binomial, Legendre / Jacobi / Kronecker, bit operations, conversions, fractions) on small, limb-"
                "boundary, word-boundary and multi-word integers up to 10^40 and 2^127; every case is replayed on "
                "the GMP, GMP C++ and Boost.Multiprecision builds of the library; TLC validates each trace against "
                "the school arithmetic of module BigInt (contracts for roots, Bezout coefficients and inverses; "
                "Lucas certificates and factorisations for large primes and composites) and then that the three "
                "results are identical; the number-theory, exact-arithmetic and polynomial workloads of C32, C05, "
                "C21 and C23 are replayed and validated the same way on every back end")
    ctx.model_check("MC_BigInt", cfg="MC_BigInt.cfg", workers=1, env={"OUT": "/dev/null"})
    cases = ctx.gen("MC_C43")
    across_backends(ctx, cases, "Trace_C43", 0.9)
    reuse = [("MC_C32", "Trace_C32", 0.9), ("MC_Num", "Trace_C05", 0.5)]
    if ctx.thorough:
        reuse += [("MC_C21", "Trace_C21", 0.5), ("MC_C23", "Trace_C23", 0.9)]
    for mc, tr, fl in reuse:
        cs = ctx.gen(mc)
        # (the GMP build's trace of these workloads is validated in full by the property the workload belongs to;
        #  the quick tier validates every 8th event of the other back ends and compares all of them)
        across_backends(ctx, cs, tr, fl, every=2 if ctx.thorough else 8, skip_spec=("base",),
                        shards=5, any_valid=("factor_rho", "factor_pm1"))


@plan("C14")
def c14(ctx):
    ctx.rule = ("TLC enumerates expressions in x, y (the pool of C15: arithmetic, every special-cased power in every "
                "embedding, 27 functions, atan2, max/min, piecewise; nested one level) in batches of 25 at two (three) "
                "bindings; in a build configured with LLVM 14 every expression is compiled by LLVMDoubleVisitor at the "
                "four optimisation levels with and without symbolic CSE, by the single and extended precision visitors, "
                "saved / loaded into a fresh object, and all expressions of a batch as the outputs of one function on an "
                "object that is then initialised again; TLC validates every returned value against the exact value "
                "(module Dbl) where the specification has one and against the library's own evaluation")
    cases = ctx.gen("MC_C14")
    events = ctx.drive("llvm", cases, env={"SEV_CASE_TIMEOUT": "300"}, timeout=7200)     # (thorough: ~1700 batches)
    ctx.judge(ctx.validate("Trace_C14", events, floor=0.5), cases)


@plan("C41")
def c41(ctx):
    ctx.rule = ("TLC model-checks the thread-safe design (module Conc: reference count, lazily cached hash and Dummy "
                "counter shared by 3 threads x 2 rounds; with the plain read-modify-write of the single-threaded build the "
                "invariants CountsRestored, NeverFreedWhileShared and DummiesDistinct must each be refuted); TLC generates "
                "programs of 8 operations (hash, print, compare, add, mul, pow, sub, diff, subs, expand, free symbols, "
                "numeric evaluation, argument access) over 10 shared expressions; in a build configured "
                "WITH_SYMENGINE_THREAD_SAFE 4 or 8 threads run each program repeatedly on the same objects, started "
                "together at staggered positions; TLC validates that every thread obtained the results of the sequential "
                "run in every repetition, that the reference counts of the shared objects are restored, that the Dummy "
                "indices drawn concurrently are pairwise distinct and complete; the same cases run under ThreadSanitizer "
                "(halt on the first report), which attributes a data race to the case")
    ctx.model_check("Conc", cfg="Conc.cfg")
    for neg in ("ConcNeg1.cfg", "ConcNeg2.cfg", "ConcNeg3.cfg"):
        ctx.model_check("Conc", cfg=neg, expect_violation=True)
    cases = ctx.gen("MC_C41")
    # (a corrupted count can leave threads spinning where signals are not delivered: the driver's own time limit applies)
    tmo = 1500 if ctx.thorough else 90
    ev = ctx.drive("thread", cases, max_crashes=2, timeout=tmo)
    ctx.judge(ctx.validate("Trace_C41", ev, floor=0.9), cases)
    # under ThreadSanitizer (about ten times slower): a tenth of the repetitions
    rows = L.read_ndjson(cases)
    for r in rows:
        r["reps"] = max(20, r["reps"] // 10)
        r["budget_s"] = 120
    tcases = cases.replace(".cases", "") + ".tsan.cases"
    L.write_ndjson(tcases, rows)
    env = {"TSAN_OPTIONS": "halt_on_error=1 abort_on_error=1 report_signal_unsafe=0", "SEV_CASE_TIMEOUT": "300"}
    ev2 = ctx.drive("tsan", tcases, env=env, max_crashes=1, timeout=tmo)
    ctx.judge(ctx.validate("Trace_C41", ev2, floor=0.9), tcases)
