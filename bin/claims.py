"""Claimed checks and reasons for unclaimed properties (data for mkmanifest.py)."""
TRUSTED = ("TLC evaluates the TLA+ specification; trusted: TLC, the specification modules under spec/, "
           "the structural dumper of the harness (public accessors only), the C++ toolchain")

# pid -> (category, text, design_ref, level_note, technique)
CLAIMS = {
    "C05": ("model_checking",
            "TLC enumerates the whole grid of exact operands (model MC_Num), every call is replayed on the library "
            "and TLC validates each recorded result against exact rational/Gaussian arithmetic and the "
            "normal-form predicate of module Num (trace spec Trace_C05); exhaustive within the grid",
            "6/C05", TRUSTED + "; operands beyond the grid (multi-limb integers) are not explored by this check",
            "TLA+ model (exact Gaussian-rational arithmetic) + TLC trace validation of replayed API calls"),
    "C06": ("model_checking",
            "TLC enumerates all ordered pairs of representative numbers of all nine kinds under + - * /, replayed in "
            "both operand orders through both entry points; TLC validates commutativity, the oo/nan rules of the "
            "statement and 'float stays float' on every recorded result (Trace_C06)",
            "6/C06", TRUSTED + "; where the statement leaves a combination open (complex factor times infinity, "
            "float divided by zero) any result is accepted",
            "TLA+ model of the extended number tower + TLC trace validation"),
    "C29": ("model_checking",
            "TLC enumerates all ordered pairs of real numbers of all kinds; the six relations, their swapped forms "
            "and their substitution instances are replayed and TLC validates each truth value against the numeric "
            "order of the specification (Trace_C29)",
            "6/C29", TRUSTED, "TLA+ model of the numeric order + TLC trace validation"),
    "C33": ("model_checking",
            "TLC explores all call histories of the sieve state machine up to the depth bound (quick 3, thorough 4; "
            "14 limits, segment sizes 2/3/8 bits and 8192, two iterators), checking the implementation-shaped "
            "model (transcribed segmented _extend, vector storage with high-water mark) against the abstract "
            "contract and against out-of-bounds indices in every state; a pre-repair variant must be refuted; every "
            "maximal history plus seeded random histories of length 12-40 are replayed on the real Sieve and "
            "re-executed by the trace specification",
            "6/C33", TRUSTED + "; hook H4 sets the segment size in bits so that segment boundaries fall at small limits",
            "TLA+ state machine (L1 contract + L2 transcription) checked by TLC; behaviours replayed; TLC trace validation"),
    "C25": ("model_checking",
            "TLC checks the transcription of CSRMatrix::set/get from every canonical matrix of the bounded shapes "
            "(canonical format preserved, dense refinement, get = dense cell; a wrong-search variant must be refuted), "
            "replays every transition on a real CSRMatrix demanding identical arrays, and validates from_coo with "
            "duplicates, transpose, conjugate(-transpose), binop add/sub, elementwise product, row/column scaling, "
            "diagonal and eq on all pairs of small matrices against their dense meaning",
            "6/C25", TRUSTED + "; csr_matmat_pass1/2 have no public entry point (mul_matrix throws NotImplemented, the "
            "passes need private array sizes) and are not covered; jacobian is covered by C10-style checks only",
            "TLA+ transcription + refinement checked by TLC; TLC trace validation of replayed transitions"),
}

NOT_APPLICABLE = {
    "C45": "needs MPFR+MPC builds (mpc.h is absent, cmake fails) and is a statement about correctly rounded "
           "real-number evaluation at arbitrary precision, which a TLC-evaluated TLA+ specification "
           "(32-bit integers, no reals) cannot express; see DESIGN.md section 7",
}



CLAIMS["C07"] = (
    "model_checking",
    "TLC enumerates all depth-1 recipes over a 20-atom alphabet, structured families around the rewrites named "
    "in the property (nested powers, powers of products/quotients, exponent merging, radical extraction) and "
    "seeded random depth-2/3 recipes; each is built through the API and TLC compares the value of the recipe "
    "with the value of the dump of the returned expression at six assignments, in a value domain combining "
    "exact Gaussian rationals with a ring homomorphism into GF(p) (two primes) that interprets radicals of "
    "2,3,5,7, roots of unity and i exactly (principal branch)",
    "4, 6/C07", TRUSTED + "; a comparison rejects only when the residues of two defined finite values differ, so it "
    "can miss but not invent a difference; points where a needed root is not representable are not decisive",
    "TLA+ denotational semantics (exact + modular evaluation) + TLC trace validation")

CLAIMS["C04"] = (
    "model_checking",
    "TLC enumerates multisets of exact operands (28-atom alphabet) - all pairs, a seeded random subset of triples "
    "(all triples in the thorough tier) - in every permutation, both bracketings and through the n-ary entry "
    "point for add and mul, all triples over 11 values for max/min and over 9 relational atoms for and/or; TLC "
    "demands that all variants of one case are one and the same dumped object and that its value is the "
    "sum/product of the operand values",
    "6/C04", TRUSTED + "; structural identity is decided on dumps whose unordered containers are sorted by their own "
    "text, independent of the library's hash order and comparison functions",
    "TLA+ generated operand multisets + TLC trace validation (structural identity and value)")
CLAIMS["C08"] = (
    "model_checking",
    "TLC enumerates for every function constructor of the statement the arguments at which it evaluates or "
    "rewrites and where the specification's table of mathematical facts (module Func: special angles via the "
    "24th roots of unity in GF(p), inverse tables, hyperbolic functions at integers through E, logs of smooth "
    "rationals, gamma/zeta/eta/polygamma/beta at (half-)integers, rounding, sign, abs, conjugate, max/min, "
    "kronecker_delta, levi_civita, primepi, primorial) knows the exact value; each result's value is compared "
    "with the function applied to the argument value; the table checks itself in MC_ValSelf",
    "6/C08", TRUSTED + "; arguments whose value is not in the tables (e.g. sin(1)) are not decisive",
    "TLA+ function-fact tables + denotational semantics + TLC trace validation")
CLAIMS["C09"] = (
    "model_checking",
    "TLC enumerates sums, products and integer powers of sums (two levels over the alphabet, a seeded random third "
    "level) and pairs of recipes equal as polynomials; for each, expand(e) must keep the value (polynomial "
    "identity testing in GF(p) at six points), equal expand(expand(e)), satisfy the structural predicate "
    "IsExpanded of module Expand, and equal polynomials must expand to one object",
    "6/C09", TRUSTED + "; identity of polynomials is established by value at 6 points in two prime fields "
    "(Schwartz-Zippel), not by a symbolic normal form",
    "TLA+ structural predicate + modular polynomial identity testing + TLC trace validation")

CLAIMS["C11"] = (
    "model_checking",
    "TLC enumerates 36 expressions x 41 substitution maps for subs (seeded subsets for xreplace, msubs, ssubs), "
    "each with and without the cache, plus absent-symbol and identity maps; TLC validates that the value of the "
    "result equals the value of the expression in the substituted environment (simultaneous substitution "
    "semantics of module Term), that cache on/off give one and the same object, and that absent/identity maps "
    "return the input itself",
    "6/C11", TRUSTED + "; maps with non-symbol keys are not covered by the value clause",
    "TLA+ denotational semantics of substitution + TLC trace validation")

CLAIMS["C13"] = (
    "model_checking",
    "TLC explores every init/call history of one evaluator object (state = the arguments of the last init) up to "
    "depth 4 (thorough 5) over 5 output lists whose CSE replacement counts differ, both cse settings and 3 input "
    "vectors, for the real and the complex visitor; every history ending in a call is replayed on ONE visitor "
    "object; TLC re-runs the state machine on the recorded steps and demands agreement with a fresh object and "
    "with a fresh object without CSE (2^-40) and the exact value on the exact fragment",
    "6/C13", TRUSTED + "; rounding accuracy of transcendental nodes at arbitrary arguments is not decided "
    "(TLA+ has no reals); transcendental outputs are only compared across evaluators",
    "TLA+ state machine of the evaluator object + behaviours replayed + TLC trace validation")

CLAIMS["C01"] = (
    "model_checking",
    "one universe of about 120 objects of every kind named by the property, with boundary numbers (signed zeros, "
    "NaN and infinite doubles, complex doubles with such parts, equal values of different kinds) and alternative "
    "construction paths; the library's eq/hash/container observations over all ordered pairs and triples are "
    "validated by TLC against the relational axioms of module Order (eq equivalence, eq implies hash, cached hash "
    "stable and equal to __hash__(), set_basic/umap_basic_num/unordered_set hold one entry per eq-class)",
    "6/C01", TRUSTED + "; polynomial classes enter this universe through the polynomial checks only",
    "TLA+ relational model of eq/hash + TLC validation of recorded relation matrices")
CLAIMS["C02"] = (
    "model_checking",
    "same universe; TLC validates over all pairs and triples that __cmp__ is in {-1,0,1}, zero exactly on eq, "
    "antisymmetric, transitive, that RCPBasicKeyLess is a strict weak order with incomparability = eq, and that "
    "set_basic has the same sorted iteration order for 8 insertion permutations",
    "6/C02", TRUSTED, "TLA+ relational model of the ordering + TLC validation of recorded relation matrices")

CLAIMS["C03"] = (
    "model_checking",
    "TLC enumerates 12 binary operations on every ordered pair, 49 unary operations on every element and 4 n-ary "
    "operations on all pairs-with-a-third of a 66-element operand pool built around the boundary cases of the "
    "canonicalising constructors (68 672 API calls); each result is validated by TLC against the canonical-form "
    "predicates of module Canon (Add, Mul, Pow, exact numbers; at every depth), and hook H1 turns a failed "
    "SYMENGINE_ASSERT inside the library into a recorded exception that no event may carry; the same monitor "
    "runs in every Trace_Val check",
    "6/C03", TRUSTED + "; the predicates cover Add/Mul/Pow/number classes structurally, other classes through the "
    "library's own assertions (hook H1) only",
    "TLA+ canonical-form predicates + assertion hook + TLC trace validation")

CLAIMS["C27"] = (
    "model_checking",
    "TLC enumerates ordered pairs of 55 (thorough 110) primitive sets over a grid under union, intersection and "
    "complement (free functions and methods), seeded three-set combinations and closure/interior/boundary of "
    "interval-and-finite-set unions; the pointwise semantics Mem of module SetsAlg (three-valued, by recursion on "
    "set terms; topological operators by definition on the cell decomposition) is evaluated by TLC on the recipe "
    "and on the dumped result at 35 probe points covering every grid value and every (gap, kind) cell, and "
    "contains() answers are validated against it",
    "6/C27", TRUSTED + "; completeness of the probe set holds for sets whose break points lie on the grid "
    "{-2,-1,0,1/2,1,3/2,2,3}; sup/inf are not checked yet",
    "TLA+ pointwise set semantics on a complete probe grid + TLC trace validation")

CLAIMS["C28"] = (
    "model_checking",
    "TLC enumerates formulas over 12 atoms (relationals, Contains in finite sets and an interval, constants) and "
    "their negations under and/or/not/xor/nand/nor/xnor (all binary combinations of literals, seeded ternary and "
    "nested ones) and Piecewise expressions; the truth-value semantics of module Term (three-valued, membership "
    "through SetsAlg) is evaluated on the recipe and on the dumped simplified formula at 25 assignments realising "
    "every cell of the atoms: a complete truth table over the atoms' cells",
    "6/C28", TRUSTED, "TLA+ truth-table semantics + TLC trace validation")

CLAIMS["C21"] = (
    "model_checking",
    "TLC checks the transcription of UIntDict::mul (Kronecker substitution with signed-digit decoding, modelled on "
    "base-2^N digit sequences) against schoolbook multiplication for all pairs of bounded integer polynomials (the "
    "pre-repair digit width must be refuted), enumerates pairs of integer- and rational-coefficient lists "
    "(all small pairs incl. the zero polynomial and constants, seeded larger ones, squares) and validates every "
    "recorded operation (from_vec, add, sub, mul, neg, pow, diff, eval, degree, divides with quotient, as_symbolic / "
    "from_basic round trip, from_basic of a product) against the schoolbook arithmetic of module Poly",
    "6/C21", TRUSTED + "; UExprPoly and multi-limb coefficients are not covered yet",
    "TLA+ transcription checked by TLC + schoolbook oracle in TLA+ + TLC trace validation")

CLAIMS["C23"] = (
    "model_checking",
    "TLC enumerates pairs of polynomials over GF(p), p in {2,3,5,7}; every operation is validated against arithmetic "
    "modulo p written by definition in module GF (schoolbook product, long division, Euclidean gcd, Horner), and "
    "the square-free and full factorisations (gf_factor, gf_zassenhaus, gf_shoup, three randomised runs each) "
    "against their contract: factors monic, irreducible (exhaustive search for monic divisors of degree <= deg/2), "
    "distinct, product times leading coefficient equals the input",
    "6/C23", TRUSTED, "TLA+ arithmetic mod p by definition + factorisation contracts + TLC trace validation")

CLAIMS["C24"] = (
    "model_checking",
    "TLC enumerates all 2x2 matrices over {-2..2} and over {-1,0,1,1/2}, seeded 3x3 matrices over {-1,0,1,2}, a "
    "symmetric 3x3 family, hand-picked zero-pivot / rank-deficient / Gaussian ones and rectangular 2x3, 3x2, 3x4, "
    "4x3 matrices; every determinant and inverse algorithm, every solver, LU, LDL, fraction-free LDU, QR, Cholesky, "
    "RREF (both normalisation orders), rank (pivot columns), characteristic polynomial, transpose, product, sum and "
    "row/column operations are replayed and TLC validates them against module Mat: Laplace determinant, the unique "
    "exact RREF, and multiply-back contracts (A*inv = I, A*x = b, L*U = A, L*D*L^T = A, L*D^-1*U = A, Q*R = A with "
    "Q^T*Q = I, L*L^T = A, triangular/unit/diagonal shapes)",
    "6/C24", TRUSTED + "; DenseMatrix::rank() itself throws NotImplementedError in this tree, the rank observable is "
    "the pivot list of reduced_row_echelon_form; homogeneous_lde (diophantine.cpp) is not covered",
    "TLA+ exact linear algebra oracle + contracts + TLC trace validation")

CLAIMS["C10"] = (
    "model_checking",
    "TLC enumerates ~500 expressions (algebraic; all trigonometric, hyperbolic and inverse functions composed with 9 "
    "inner arguments; products, quotients, powers, nestings; functions without a rule) and differentiates each by "
    "the textbook rules written as operator D of module Term (linearity, product, quotient, general power, chain "
    "rule, true principal-branch derivatives with branch-cut points excluded); TLC validates that the library's "
    "derivative - with and without the cache, which must return the same object - second derivatives and mixed "
    "partials have the value of the model's derivative wherever it is defined, and that the derivative with "
    "respect to an absent symbol is the integer 0",
    "6/C10", TRUSTED + "; the chain rule for unevaluated Derivative/Subs objects of undefined functions is only "
    "checked for cache consistency, canonical form and zero (their value cannot be evaluated); the derivative of acosh "
    "in the left half plane is not decidable in the value domain (no Gaussian perfect-square point within range)",
    "TLA+ symbolic differentiation + denotational semantics + TLC trace validation")

CLAIMS["C36"] = (
    "model_checking",
    "TLC enumerates ~1000 rational expressions for as_numer_denom (n/d must have the value of e at positive "
    "assignments and neither n nor d may carry a negative numeric exponent or a fraction at its top level), ~1500 "
    "number expressions with Gaussian constants, integer and fractional powers, exponentials and functions of "
    "complex arguments for as_real_imag (re + I*im = e, re and im real, decided exactly or from the polar form), "
    "trigonometric and hyperbolic expressions for rewrite_as_exp / rewrite_as_sin / rewrite_as_cos / expand_as_exp "
    "/ trig_to_sqrt (all special angles k*pi/12, k*pi/5, k*pi/8, pi/10) and a mixed pool for conjugate at complex "
    "points; TLC validates value preservation at every assignment where both sides are defined",
    "6/C36", TRUSTED + "; as_real_imag throws for any expression containing a symbol (pinned by the test-suite), so it "
    "is exercised on number expressions only; expand_as_exp is implemented for hyperbolic functions only "
    "(NotImplementedError elsewhere is accepted)",
    "TLA+ denotational semantics + TLC trace validation")

CLAIMS["C35"] = (
    "model_checking",
    "TLC enumerates abs/sign/floor/ceiling/conjugate/log/sqrt of 18 arguments, max/min families, nested powers "
    "(b^k)^n over 4 bases x 10 inner x 11 outer exponents, logarithms of powers and of perfect powers, and "
    "reciprocal trigonometric products, each under 12 assumption sets (none, real, positive, negative, nonnegative, "
    "nonpositive, integer, positive integer, nonzero, rational, two-symbol sets) through refine and simplify (a seeded "
    "subset in the quick tier, everything in the thorough tier); TLC validates that the result has the value of the "
    "input at every assignment of the environment set attached to the assumption set, all of whose assignments "
    "satisfy it",
    "6/C35", TRUSTED + "; only assumption forms the Assumptions class understands (Contains in a number set, "
    "comparisons of one symbol with a number) are generated",
    "TLA+ denotational semantics + assumption-indexed environments + TLC trace validation")

CLAIMS["C34"] = (
    "model_checking",
    "TLC enumerates 34 number expressions and ~190 symbolic expressions (arithmetic, powers, 17 functions, max/min) "
    "under 12 assumption sets; the 17 tribool queries and is_polynomial (three variable sets) are recorded and TLC "
    "validates every definite answer against the three-valued truth of the property on the value of the expression "
    "(exact part, residues, polar form) at every assignment of the environment set attached to the assumption set, "
    "all of whose assignments satisfy it; is_polynomial is validated in both directions against the structural "
    "definition evaluated on the dump",
    "6/C34", TRUSTED + "; the number-theoretic classification of floating-point values (is 3.0 an integer?) is a "
    "convention and not decided; truth is 'unknown' wherever the value domain cannot decide (e.g. algebraicity of "
    "sin(1))",
    "TLA+ three-valued property semantics on the value domain + TLC trace validation")

CLAIMS["C38"] = (
    "model_checking",
    "TLC enumerates grids (as sequences: the recurrence depends on the order) of 1-5 distinct points out of 9 "
    "rationals, 6 centres (and a symbolic centre) and maximum derivative orders 0-5; the weights are computed by the "
    "library and TLC validates them against the exactness equations sum_i w[i,k]*(g_i-a)^m = k!*[m=k] for all "
    "m < n and k up to the maximum order, in exact rational arithmetic (the equations determine the weights uniquely "
    "for k < n)",
    "6/C38", TRUSTED, "TLA+ exactness contract over exact rationals + TLC trace validation")

CLAIMS["C46"] = (
    "model_checking",
    "TLC enumerates all 1x2 matrices over -3..3, all 1x3 and 2x2 over -2..2, seeded 2x3 over -2..2 and 1x4, 2x4, 3x3 "
    "over small entries; for every vector returned by homogeneous_lde TLC checks by definition that it is a "
    "non-zero non-negative solution with no smaller non-zero solution below it and that no vector is returned twice, "
    "and for completeness computes all minimal solutions inside a box that bounds the components of every minimal "
    "solution of the shape (Lambert's bound max|a_j| for one equation, (n-r)*D_r for a system) and demands that each "
    "is returned",
    "6/C46", TRUSTED + "; completeness relies on the published component bounds for minimal solutions (a returned "
    "vector outside the box is still checked for minimality directly, so the bound cannot cause an alarm)",
    "TLA+ definition of the Hilbert basis + TLC trace validation")

CLAIMS["C32"] = (
    "model_checking",
    "TLC enumerates n in 0..130 and selected larger n (perfect powers, primorials) for 31 one-argument functions, all "
    "pairs in -12..12 plus larger samples for 19 two-argument functions, and seeded (a, n, m, r/s) tuples for modular "
    "roots, rational modular powers, n-th power residues and CRT; TLC validates every recorded result against the "
    "definition written in module NT (divisibility and gcd by enumeration, both rounding conventions, residues and "
    "roots by enumeration, Legendre/Jacobi/Kronecker by factorisation, orders / totient / Carmichael / primitive "
    "roots by definition, Mobius and Mertens, Fibonacci/Lucas recurrences, Bernoulli and harmonic numbers over exact "
    "rationals, perfect powers, polygonal numbers); factor-finding methods are validated by contract (a reported "
    "factor is proper; complete methods must factor every composite; documented argument limits may be refused)",
    "6/C32", TRUSTED + "; 'random large arguments' of the property are not covered: results beyond TLC's 32-bit "
    "integers are not decided",
    "TLA+ definitions (module NT) + TLC trace validation")

CLAIMS["C37"] = (
    "model_checking",
    "TLC enumerates lists of one to three expressions built around 14 shared parts (sub-sums, sub-products, powers, "
    "functions) in 15 contexts, and lists whose own symbols are named like replacement symbols (x0, x1); TLC "
    "validates that every replacement symbol is a symbol absent from the inputs and that they are pairwise "
    "distinct, that each replacement mentions replacement symbols of smaller index only, that substituting back "
    "last to first (xreplace on the real objects) returns objects equal to the inputs, and independently that each "
    "reduced expression evaluated in the environment extended by the replacements in order has the value of its "
    "input",
    "6/C37", TRUSTED, "TLA+ contract (freshness, ordering, denotational faithfulness) + TLC trace validation")

CLAIMS["C39"] = (
    "model_checking",
    "TLC enumerates arithmetic expressions (incl. cancelling symbols), undefined functions, the Derivative and Subs "
    "objects produced by differentiating them, image and condition sets, relationals and piecewise expressions, and "
    "~170 expanded polynomials in two choices of variable (and in a function symbol); TLC validates free_symbols "
    "against the definition on the dump (binders: Subs, ImageSet, ConditionSet), has_symbol for five probe symbols, "
    "function_symbols and atoms<Symbol>/<FunctionSymbol> against the subterms of the matching kind without "
    "repetition, and coeff by reconstructing the value of the polynomial from the coefficients, none of which may "
    "mention the variable",
    "6/C39", TRUSTED + "; coeff is exercised on expanded polynomials only (it is a syntactic query)",
    "TLA+ structural definitions on dumps + TLC trace validation")

CLAIMS["C31"] = (
    "model_checking",
    "TLC enumerates 14 functions of 9 inner arguments vanishing at 0, logarithms, roots and rational powers of 1+u, "
    "reciprocals, arguments shifted by pi, pi/6, pi/4, 1, 2, and products, sums, quotients and compositions of them "
    "at truncation orders 1, 2, 5, 6, 7 (a seeded subset in the quick tier); TLC computes the Taylor coefficients "
    "from the defining differential equations (module Series: f' = u'f for exp, f' = u'/u for log, the coupled pair "
    "for sin/cos and sinh/cosh, u f' = a u' f for powers, integrals of u'/(1+u^2), u'/sqrt(1-u^2), ... for the "
    "inverse functions) in the exact/modular value domain and compares every coefficient returned by series()",
    "6/C31", TRUSTED + "; Lambert W is compared with the tabulated coefficients (-k)^(k-1)/k! composed with the "
    "argument; gamma and Laurent/Puiseux cases (cot, csc at 0) are outside 'analytic at 0' and not generated",
    "TLA+ power-series semantics from differential equations + TLC trace validation")

CLAIMS["C30"] = (
    "model_checking",
    "TLC builds polynomial equations of degree 1-4 from their roots (9 rational roots, 6 irreducible quadratics with "
    "complex or irrational roots, repeated roots, three leading coefficients, expanded and factored, as expression "
    "and as Eq), rational equations from numerator and denominator factor lists that share factors, 14 linear "
    "trigonometric equations and 2x2 / 3x3 linear systems, over the default, complex and real domains; the harness "
    "records the structure of the returned set (finite parts, intersections, unions, complements) with every member "
    "to 2^-20; TLC evaluates three-valued membership of all roots, poles and listed members in that structure and "
    "demands: member => solution, pole never, solution in the domain => member; the equation evaluated exactly at "
    "every member whose value is defined; membership of 61 probes k*pi/12 in the trigonometric solution sets "
    "coincides with f = 0; linsolve's vector satisfies every equation of a uniquely solvable system",
    "6/C30", TRUSTED + "; eval_complex_double of the library provides the 2^-20 approximations of members in "
    "Cardano/Ferrari radical form (their exact values are outside the value domain); image sets over (-oo, oo) are "
    "read as indexed by the integers (the library's stand-in) and the literal reading is reported as a known finding",
    "TLA+ solution-set semantics (three-valued membership) + exact/fixed-point root comparison + TLC trace validation")

CLAIMS["C22"] = (
    "model_checking",
    "TLC enumerates pairs of integer- and expression-coefficient multivariate polynomials over 10 variable lists "
    "(empty, equal, permuted, overlapping, disjoint) with 0-3 monomials (exponents 0-2, zero coefficients included, "
    "symbolic and irrational coefficients); TLC validates from_dict, add, sub, mul, neg, pow (0, 1, 2, 3), eval, "
    "as_symbolic and from_basic (with given and with automatically found generators, also of an unexpanded product) "
    "against bag-of-monomials arithmetic over the union of the variables, with the structural conditions that the "
    "variables of a result are exactly the union, exponent vectors are aligned with them and no zero coefficient is "
    "stored",
    "6/C22", TRUSTED + "; coefficients are compared in the value domain at one assignment of the coefficient symbols",
    "TLA+ monomial-bag arithmetic + TLC trace validation")

CLAIMS["C26"] = (
    "model_checking",
    "TLC enumerates matrix-expression trees of depth 0-2 over dense, diagonal, identity and zero leaves of shapes 2x2, "
    "2x3, 3x2, 3x3 (rational, Gaussian and symbolic entries) combined by matrix add, multiply (with scalar factors), "
    "Hadamard product, transpose and conjugate, plus mismatched shapes and matrix symbols with symbolic dimensions; "
    "TLC evaluates the recipe and the returned expression to concrete matrices (operator MVal) and demands equal "
    "values, that every definite answer of is_zero / is_diagonal / is_symmetric / is_lower / is_upper / is_real / "
    "is_square / is_toeplitz agrees with the three-valued truth on the concrete matrix, that size() gives its shape "
    "and trace() its trace",
    "6/C26", TRUSTED + "; expressions containing matrix symbols are only required not to fail an assertion (their "
    "answers cannot be contradicted by a concrete matrix)",
    "TLA+ dense semantics of matrix expressions + three-valued predicate truth + TLC trace validation")

CLAIMS["C17"] = (
    "model_checking",
    "The conventional rules are stated once, as the printer of module Syntax (precedence sum < product < unary sign "
    "< power < atom, left associativity of + - * /, right associativity of ** and ^, where a unary sign may stand, "
    "function call syntax); TLC prints abstract syntax trees of depth <= 3 over identifiers (with digits and "
    "underscores), integers, floating-point literals, pi, + - * / ** unary minus and 15 function names in 32 styles "
    "(spaces, redundant parentheses, ^ for **, leading zeros, implicit multiplication of a number and an "
    "identifier), the classical traps (a-b-c, a/b/c, a/b*c, -x**2, 2**-x, x**y**2, ...) in every style; the parser's "
    "result must be the very expression the library builds directly from the tree",
    "6/C17", TRUSTED + "; only strings produced by the printer are parsed (ill-formed input belongs to C18); literals "
    "are restricted to dyadic floating-point values so that the expected double is exact",
    "TLA+ printer as the definition of the syntax + TLC trace validation (parse vs direct construction)")
CLAIMS["C14"] = (
    "model_checking",
    "TLC enumerates expressions in x, y (the pool of C15: arithmetic, every special-cased power in every embedding, 27 "
    "functions, atan2, max/min, piecewise; nested one level; 3000 in the quick tier) in batches of 25 at two (three) "
    "bindings; in a build of the library configured with LLVM 14 every expression is compiled by LLVMDoubleVisitor at "
    "optimisation levels 0-3 with and without symbolic CSE, by LLVMFloatVisitor and LLVMLongDoubleVisitor, saved with "
    "dumps and loaded into a fresh object, and all expressions of a batch as the outputs of one function (CSE across "
    "outputs) on an object that is then initialised again with other settings; TLC validates every returned value "
    "against the exact rational value where the specification has one (long division, module Dbl) and against the "
    "library's own evaluation (bound to the specification by C12), that an expression is accepted at all settings or "
    "at none, and that the reloaded function returns bit-identical values",
    "6/C14", TRUSTED + "; LLVM 14 itself; single precision is compared to 2^-10 (absolute below 1) because "
    "cancellation in one-level expressions is not bounded more tightly; inputs are two fixed dyadic points per batch",
    "TLA+ exact value oracle + replay on the LLVM build + TLC trace validation")

CLAIMS["C15"] = (
    "model_checking",
    "TLC enumerates expressions in x, y (the five arithmetic operators over rationals, floats, pi, E and the symbols; "
    "integer, fractional and symbolic powers; 27 functions incl. the reciprocal trigonometric ones; atan2, max/min, "
    "piecewise; nested one level; 1200 sampled in the quick tier, ~30000 in the thorough one) in batches of 100 at "
    "two (three) numeric bindings; ccode, C89CodePrinter and C99CodePrinter print each; cc -std=c99 / -std=c89 "
    "compiles the printed source and the program is run; TLC validates per printer that what was printed compiles, "
    "that the computed double equals the exact rational value of the expression at the binding where the "
    "specification has one (long division, module Dbl), and in every case agrees to 2^-40 with the library's own "
    "evaluation (bound to the specification by C12)",
    "6/C15", TRUSTED + "; the host C compiler and libm; a printed call of a function the dialect's <math.h> does not "
    "declare (loggamma, truncate; erf, fmin, asinh under C89) is the printers' by-name fallback for functions "
    "without a C counterpart and decides nothing; float / long double precisions are printed but only the double "
    "precision source is compiled",
    "TLA+ exact value oracle + compile-and-run of the printed source + TLC trace validation")

CLAIMS["C16"] = (
    "model_checking",
    "TLC enumerates expressions of the parseable fragment (23 atoms: identifiers with digits and underscores, "
    "integers, rationals, Gaussian numbers, floats, constants, infinities, nan; arithmetic with negative and complex "
    "coefficients, nested powers, 25 parser-known functions, relationals, And/Or/Xor/Not), commutative ones in several "
    "operand orders; TLC validates that constructions giving the same object print to the same string and that "
    "parse(str(e)) is the same object as e (for expressions holding floats, printed to 15 digits: not different in "
    "value)",
    "6/C16", TRUSTED + "; truncate and conjugate are not known to the parser and are outside the fragment",
    "TLA+ generated fragment + TLC trace validation of the print/parse round trip")

CLAIMS["C18"] = (
    "model_checking",
    "The parser is specified as a machine without state: TLC enumerates every token string up to length 3 (thorough: "
    "4, sampled) over 30 tokens (identifiers, numbers, operators, brackets, separators, logic signs, junk, non-ASCII "
    "and NUL bytes) plus long nestings, in runs of 8 consecutive inputs for one parser object; each input is parsed "
    "by the reused object, by a fresh parse() and by parse_sbml(); TLC validates that every outcome is an expression "
    "or a library exception and that the reused object's outcome equals the fresh one at every position (after "
    "failed parses too); crashes and hangs end the harness and are attributed to the case; the thorough tier replays "
    "on an ASan+UBSan build so that out-of-bounds accesses and undefined behaviour are reported",
    "6/C18", TRUSTED + ", AddressSanitizer/UBSan (thorough tier); 'all byte strings' is approximated by exhaustive "
    "short token strings, not by coverage-guided fuzzing",
    "TLA+ stateless-parser contract + exhaustive token strings + TLC trace validation (+ sanitizers)")

CLAIMS["C19"] = (
    "model_checking",
    "TLC enumerates expressions of every kind the dumper knows (27 numbers incl. multi-limb integers, signed zeros, "
    "infinite and NaN doubles; symbols, the empty name, constants; arithmetic; 43 one-argument and 9 two-argument "
    "functions; undefined functions; relationals and logic; 17 sets; derivatives, Subs, piecewise) alone, in triples "
    "and nested, and expressions holding one object in several places; TLC validates that loads(dumps(e)) has the "
    "identical structural dump (doubles bit for bit through their bit fields), is eq, has the same node count and no "
    "more distinct objects than e (sharing restored), and that a DenseMatrix of the expressions round-trips",
    "6/C19", TRUSTED + "; types whose dumps raises NotImplementedError / SerializationError are not decisive; Dummy "
    "symbols have no recipe and are not generated",
    "TLA+ generated universe + TLC trace validation of the round trip")
CLAIMS["C20"] = (
    "model_checking",
    "TLC enumerates structured mutations (8 replacement values, 8 xor masks, truncation, duplication of a suffix) at "
    "byte positions 0..200 (every third; thorough: every position to 260) of the serialized form of 21 base "
    "expressions of all archive shapes; each mutated string is loaded and the result printed, hashed and compared; "
    "TLC validates that every outcome is a usable expression or an exception of the library / archive layer and that "
    "no canonical-form assertion fired; crashes and hangs end the harness and are attributed to the case; the "
    "thorough tier replays on an ASan+UBSan build",
    "6/C20", TRUSTED + ", AddressSanitizer/UBSan (thorough tier); allocations are capped (address-space limit, "
    "sanitizer allocation limit) because corrupted length fields make the archive layer request gigabytes; "
    "'any byte string' is approximated by structured mutations of valid archives, not by coverage-guided fuzzing",
    "TLA+ generated mutation grid + outcome contract + TLC trace validation (+ sanitizers)")

CLAIMS["C43"] = (
    "model_checking",
    "TLC enumerates ~2800 calls of the integer back-end wrappers (50 mp_* functions and the integer / rational class "
    "operators) on small, limb-boundary, word-boundary and multi-word integers up to 10^40 and 2^127; every case is "
    "replayed on three builds of the library (GMP through the C wrapper, GMP C++ classes, Boost.Multiprecision); TLC "
    "validates each trace against the school arithmetic on limb sequences of module BigInt (self-tested against TLC's "
    "native integers by MC_BigInt): sums, products, the three division conventions, gcd / lcm, Bezout identity, "
    "modular inverse and power, integer roots by their contract, primality by definition / by a Lucas certificate "
    "TLC verifies itself / by a factorisation, perfect powers, next prime, Fibonacci / Lucas / factorial / primorial "
    "/ binomial, Legendre / Jacobi / Kronecker by Euler's criterion and multiplicativity, bit operations, hex text, "
    "conversions, fractions in lowest terms; a second specification (Trace_C43X) then requires the three results of "
    "every case to be identical; the number-theory and exact-arithmetic workloads of C32 and C05 (thorough: also "
    "C21, C23) are replayed on every back end, validated by their own specifications and compared",
    "6/C43", TRUSTED + "; FLINT and Piranha are not installed in the sandbox (two of the five INTEGER_CLASS values "
    "cannot be built); whether and which factor the randomised Pollard methods find is validated per back end but not "
    "compared; the rounding of integers above 2^53 to a double (GMP truncates, Boost rounds to nearest) is not an "
    "exact computation and is not compared",
    "TLA+ big-integer reference arithmetic + TLC trace validation per back end + TLC cross-back-end equality")

CLAIMS["C44"] = (
    "model_checking",
    "TLC enumerates the expression pool of module ExprPool (numbers of every kind, 52 functions, undefined functions, "
    "relationals, logic, 17 sets, derivatives, Subs, piecewise), sums / products / powers / quotients and functions "
    "of them (~5000 expressions) and an SBML fragment; the LaTeX, MathML, Unicode, Julia and SBML printers run on "
    "each; TLC validates totality (a string, or an exception meaning 'not supported'; never an assertion or a foreign "
    "exception), balanced LaTeX groups and \\left...\\right pairs and well-formed MathML (matching tag names, one root) "
    "by pushdown automata written in TLA+ over the token sequences extracted from the output, and "
    "parse_sbml(sbml(e)) = e on the fragment",
    "6/C44", TRUSTED + "; the harness tokenises the printed text (braces, \\left/\\right, tags); attribute syntax and "
    "character data of MathML are only checked lexically",
    "TLA+ pushdown automata for well-formedness + TLC trace validation")

CLAIMS["C41"] = (
    "model_checking",
    "TLC model-checks the thread-safe design (module Conc: the reference count, the lazily cached hash and the Dummy "
    "counter shared by 3 threads x 2 rounds, every interleaving; with the plain read-modify-write of the single-"
    "threaded build TLC must refute CountsRestored, NeverFreedWhileShared and DummiesDistinct, on every run); TLC "
    "generates 24 (thorough: 120) programs of 8 operations (hash, print, compare, add, mul, pow, sub, diff, subs, "
    "expand, free symbols, numeric evaluation, argument access) over 10 shared expressions; in a build configured "
    "WITH_SYMENGINE_THREAD_SAFE 4 or 8 threads, released together and starting at staggered positions, run each "
    "program 1500 (20000) times on the same objects; TLC validates the quiescent observations the model's "
    "invariants predict: every thread obtained the results of a sequential run in every repetition, the reference "
    "counts of the shared objects are restored, the Dummy indices drawn concurrently are pairwise distinct and "
    "complete, no object survives; the same programs run in a ThreadSanitizer build (halt on the first report)",
    "6/C41", TRUSTED + "; the scheduler explores a sample of the interleavings only (the exhaustive exploration is "
    "that of the model; the binding to the code is statistical plus ThreadSanitizer's happens-before analysis of the "
    "executions that occurred); no scheduling-perturbation hook was added",
    "TLA+ concurrency model (exhaustive) + stress replay on the thread-safe build + ThreadSanitizer + TLC trace validation")

CLAIMS["C42"] = (
    "model_checking",
    "(1) TLC enumerates 15 atoms (incl. the rational 1/0, infinities, nan), every one- and two-argument C API function "
    "on them and nested combinations; each recipe is built once through C API handles only and once through the C++ "
    "API: equal dumps, basic_eq, an error code exactly where the C++ side throws and of that exception's class, no "
    "exception crossing the C boundary.  (2) The C containers are specified as abstract data types (module "
    "Containers); TLC model-checks / simulates the state machine MC_C42H (invariants in every state), emits operation "
    "histories, and the recorded outcome of every operation on a real CVecBasic / CSetBasic / CMapBasicBasic (return "
    "code, returned value's equality class, size) and the final contents must equal the specification's run of the "
    "same history.  (3) Expression operators (+ - * / unary -, compound assignment, pow, expand, == !=) against the "
    "core functions on pairs of operands: same object, same exceptions",
    "6/C42", TRUSTED + "; an out-of-range vector index is answered by an error code in this (assertion) build, the "
    "unchecked access of a build without assertions is not observable here",
    "TLA+ abstract data types + state-machine histories + TLC trace validation")

CLAIMS["C40"] = (
    "model_checking",
    "TLC model-checks the reference-counting design in module RC (counts equal the number of referrers, release "
    "cascades to the children, a quiescent caller leaves no live object; the variant without cascading release is "
    "refuted); the workload is a seeded sample of the cases of 15 generator models (construction, differentiation, "
    "substitution, polynomials, matrices and matrix expressions, solving, series, parsing, printing, serialization, "
    "structural queries, CSE, C API and containers), every case replayed twice in a row on one process; TLC validates "
    "that the live-object count (hook H2, Basic::verif_live_basic) is unchanged across the repeated run of every case; "
    "crashes, hangs and - in the thorough tier on an ASan+UBSan+LeakSanitizer build - out-of-bounds accesses, "
    "use-after-free, undefined behaviour and leaked heap blocks end the harness and are attributed to the case",
    "6/C40", TRUSTED + ", AddressSanitizer / UBSan / LeakSanitizer (thorough tier); uninitialised reads (MSan) are not "
    "covered; 'any sequence of API calls' is approximated by the sampled cases of the other properties' generators",
    "TLA+ reference-counting model checked by TLC + live-count trace validation (+ sanitizers)")

CLAIMS["C12"] = (
    "model_checking",
    "TLC enumerates number expressions: ~600 with an exact rational value (arithmetic and integer powers of 15 "
    "rationals, rounding functions, max/min, perfect-power roots, functions at special points) and ~7000 with "
    "irrational values (37 functions of rationals, constants, radicals and floats, nested one level); eval_double in "
    "its visitor, single-dispatch and default forms, evalf at 53 and 20 bits, eval_complex_double and the lambda "
    "visitor run on each; TLC validates the exact cases against the 53-bit quotient computed by long division in "
    "module Dbl, and on all cases the mutual agreement of the independently written evaluators, to 2^-40",
    "6/C12", TRUSTED + "; the accuracy of libm-backed nodes at arguments whose value is irrational is decided only "
    "through the agreement of the evaluators (TLC has no real numbers; a rational enclosure of sin, exp, ... at 53 "
    "bits does not fit its 32-bit integers)",
    "TLA+ exact rational-to-double oracle + evaluator agreement + TLC trace validation")
