#!/bin/bash
# confirm_seed.sh <id>: re-checks a seeded change produced by a sub-agent in its scratch
# worktree /tmp/wt-<id> (deliverables in /tmp/seeded-<id>): the existing suite passes with
# the change, the demonstration fails with it and passes without it.  Writes
# /verif/seeded/<id>/{patch.diff,demo.cpp,demo_build.sh,notes.md,confirm.log} and removes the worktree.
id=$1
wt=/tmp/wt-${2:-$id}
sd=/tmp/seeded-$id
out=/verif/seeded/$id
mkdir -p $out
log=$out/confirm.log
: > $log
cd $wt || exit 2
git checkout -q -- . 
git apply $sd/patch.diff || { echo "patch does not apply" >> $log; exit 2; }
cmake --build _build -j8 >> /dev/null 2>&1 || { echo "BUILD FAILED with change" >> $log; }
ctest --test-dir _build -j8 --timeout 900 2>&1 | tail -3 >> $log
echo "--- demo WITH change" >> $log
( cd $sd && bash ./demo_build.sh > /tmp/demo-$id-with.out 2>&1; echo "demo exit with change: $?" >> $log )
tail -5 /tmp/demo-$id-with.out >> $log
git checkout -q -- .
cmake --build _build -j8 >> /dev/null 2>&1
echo "--- demo WITHOUT change" >> $log
( cd $sd && bash ./demo_build.sh > /tmp/demo-$id-without.out 2>&1; echo "demo exit without change: $?" >> $log )
tail -3 /tmp/demo-$id-without.out >> $log
cp $sd/patch.diff $sd/demo.cpp $sd/demo_build.sh $sd/notes.md $out/ 2>/dev/null
cd /
[ -n "$3" ] || git -C /repo worktree remove --force $wt
rm -rf $sd /tmp/demo-$id-*.out
echo "confirmed $id" >> $log
