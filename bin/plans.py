"""Per-property check plans.  A plan wires three kinds of step together:
   gen      -- TLC evaluates a model (MC_*.tla) and writes the cases/behaviours it explored
   drive    -- the C++ harness replays them on the library built from /repo
   validate -- TLC evaluates a trace specification (Trace_*.tla) on the recorded events
"""
import concurrent.futures as cf
import json
import re
import threading
import os
import shutil
import time

import sevlib as L
from sevlib import log, Infra

PLANS = {}
PRELUDE_OPS = {"lambda_data", "setprobes"}


def plan(pid):
    def deco(f):
        PLANS[pid] = f
        return f
    return deco


class Ctx:
    def __init__(self, pid, tier, seed, replay=None, keep=False):
        self.pid, self.tier, self.seed, self.replay, self.keep = pid, tier, seed, replay, keep
        self.dir = os.path.join(L.WORK, "run-%s-%d" % (pid, os.getpid()))
        shutil.rmtree(self.dir, ignore_errors=True)
        os.makedirs(self.dir)
        self.level = "model_checking"
        self.states = 0
        self.transitions = 0
        self.model_states = 0
        self.traces = 0
        self.events = 0
        self.decisive = 0
        self.violations = []       # (key, why, replay_path)
        self.known_hits = []
        self.samples = []
        self.notes = []
        self.unreplayed = 0
        self.assumptions = []
        self.rule = ""
        self.exhaustive = None
        self.extra = {}
        self.known = L.load_known(pid)
        if not replay:
            import glob
            for f in glob.glob(os.path.join(L.WORK, "replay", pid + "-*")):
                os.unlink(f)
        self.replay_rows = L.read_ndjson(replay) if replay else None
        self.thorough = tier == "thorough"
        self.crash_ignore = None   # regex on the harness output of a crashed case that is not a finding
        self.ignored_crashes = 0
        self.validated = []        # (module, events, cfg, env, heap, rejected ids) of every trace validation

    # ------------------------------------------------------------ steps
    def env(self, extra=None):
        e = {"TIER": self.tier, "SEED": str(self.seed)}
        e.update(extra or {})
        return e

    def gen(self, module, stage=None, env=None, cfg=None, workers=1, simulate=None,
            timeout=1200, heap="4g", extra=()):
        """Run a generator model; returns path of the cases file (ids added)."""
        stage = stage or module
        out = os.path.join(self.dir, stage + ".cases")
        if self.replay_rows is not None:
            rows = [r for r in self.replay_rows if r.get("_stage", stage) == stage]
            for i, r in enumerate(rows, 1):
                r["id"] = i
                r["_stage"] = stage
            L.write_ndjson(out, rows)
            return out
        raw = out + ".raw"
        if os.path.exists(raw):
            os.unlink(raw)
        e = self.env(env)
        e["OUT"] = raw
        r = L.tlc(module, cfg=cfg, env=e, workers=workers, simulate=simulate, timeout=timeout, fulljit=True,
                  heap=heap, extra=tuple(extra) + ("-seed", str(self.seed)))
        if r.error or r.rc == 124 or not os.path.exists(raw):
            if r.violation:
                # a model-level invariant/assumption failed: the design as transcribed is wrong
                self.model_violation(module, r)
                L.write_ndjson(out, [])
                return out
            raise Infra("generator %s failed (rc=%d):\n%s" % (module, r.rc, r.out[-3000:]))
        if r.violation:
            self.model_violation(module, r)
        self.states += r.distinct
        self.transitions += r.generated
        self.model_states += r.distinct
        n = 0
        with open(raw) as f, open(out, "w") as g:
            for line in f:
                line = line.strip()
                if not line:
                    continue
                d = json.loads(line)
                n += 1
                d["id"] = n
                d["_stage"] = stage
                g.write(json.dumps(d, separators=(",", ":")) + "\n")
        os.unlink(raw)
        log("[gen] %s: %d cases (TLC %d states, %.1fs)" % (module, n, r.distinct, r.wall))
        if n == 0:
            raise Infra("generator %s produced no cases" % module)
        return out

    def model_check(self, module, cfg=None, env=None, workers=4, timeout=1200, heap="8g",
                    expect_violation=False, simulate=None, extra=()):
        """Run TLC on a model for its own invariants.  With expect_violation the
        model is a deliberately wrong variant that TLC must refute (vacuity guard)."""
        r = L.tlc(module, cfg=cfg, env=self.env(env), workers=workers, timeout=timeout, heap=heap, fulljit=True,
                  simulate=simulate, extra=tuple(extra))
        if r.rc == 124:
            raise Infra("model %s timed out" % module)
        if expect_violation:
            if not r.violation:
                raise Infra("negative model %s was not refuted by TLC:\n%s" % (module, r.out[-1500:]))
            log("[model] %s refuted as required (%d states)" % (module, r.distinct))
            return r
        if r.violation:
            self.model_violation(module, r)
        elif r.error:
            raise Infra("model %s failed (rc=%d):\n%s" % (module, r.rc, r.out[-3000:]))
        self.states += r.distinct
        self.transitions += r.generated
        self.model_states += r.distinct
        log("[model] %s: %d distinct states, %d generated, %.1fs" % (module, r.distinct, r.generated, r.wall))
        return r

    def model_violation(self, module, r):
        path = os.path.join(L.WORK, "replay", "%s-model-%s.txt" % (self.pid, module))
        os.makedirs(os.path.dirname(path), exist_ok=True)
        with open(path, "w") as f:
            f.write(r.out)
        self.violations.append(("model:" + module, "model invariant violated", path))

    def drive(self, cfg, cases, env=None, timeout=1200, max_crashes=25):
        """Replay cases on the library; a crashing/hanging case is flagged and the
        remaining cases are replayed in a fresh process (bounded number of times)."""
        exe = L.build(cfg)
        events = cases.replace(".cases", "") + ".%s.events" % cfg
        rows = L.read_ndjson(cases)
        # leading data cases (expressions, probe points, ...) are re-sent after a restart
        npre = 0
        while npre < len(rows) and rows[npre].get("op") in PRELUDE_OPS:
            npre += 1
        prelude = rows[:npre]
        todo = cases
        offset = 0
        part = 0
        with open(events, "w") as allev:
            while True:
                pev = "%s.part%d" % (events, part)
                rc, out, wall = L.drive(exe, todo, pev, timeout=timeout, env=env)
                lines = []
                crash = None
                if os.path.exists(pev):
                    with open(pev) as f:
                        for line in f:
                            if line.startswith('{"crash"'):
                                crash = json.loads(line)
                            else:
                                lines.append(line)
                if part > 0:
                    lines = lines[npre:]          # events of the re-sent prelude
                allev.writelines(lines)
                log("[drive] %s part %d: rc=%d, %d events, %.1fs" % (os.path.basename(cases), part, rc, len(lines), wall))
                if rc == 2:
                    raise Infra("harness usage/parse error: " + out[-800:])
                if rc == 0:
                    break
                done = offset + len(lines)
                if done >= len(rows):
                    raise Infra("harness failed outside any case rc=%d: %s" % (rc, out[-800:]))
                why = "crash:" + (crash["crash"] if crash else ("rc=%d" % rc))
                if rc == 124:
                    why = "hang"
                detail = out[-1500:].replace("\n", " | ")
                if self.crash_ignore and re.search(self.crash_ignore, detail):
                    # e.g. the sanitizer's fatal report for a refused giant allocation: same meaning as bad_alloc
                    self.ignored_crashes += 1
                else:
                    self.flag(rows[done], why + " " + detail[:400])
                offset = done + 1
                part += 1
                if offset >= len(rows):
                    break
                if part > max_crashes:
                    log("[drive] too many crashing cases; %d cases not replayed" % (len(rows) - offset))
                    self.notes.append("%d cases not replayed after %d crashes" % (len(rows) - offset, part))
                    self.unreplayed += len(rows) - offset
                    break
                todo = "%s.rest%d" % (cases, part)
                L.write_ndjson(todo, prelude + rows[offset:])
        return events

    def validate(self, module, events, shards=None, cfg=None, env=None, timeout=1800, floor=0.5,
                 heap="2g", quiet=False):
        """Trace validation by TLC; returns list of bad records."""
        rows_n = sum(1 for _ in open(events))
        if rows_n == 0:
            return []
        shards = shards or min(5, max(1, rows_n // 700, os.path.getsize(events) // 2500000))
        paths = []
        if shards == 1:
            paths = [events]
        else:
            outs = [open("%s.s%d" % (events, i), "w") for i in range(shards)]
            with open(events) as f:
                for i, line in enumerate(f):
                    outs[i % shards].write(line)
            for o in outs:
                o.close()
            paths = [o.name for o in outs]

        def one(p):
            v = p + ".verdict"
            e = self.env(env)
            e["TRACE"] = p
            e["VERDICT"] = v
            r = L.tlc(module, cfg=cfg, env=e, workers=1, timeout=timeout, heap=heap)
            if not os.path.exists(v):
                # one retry: a rejection/infrastructure failure must repeat to be believed
                r = L.tlc(module, cfg=cfg, env=e, workers=1, timeout=timeout, heap=heap)
            if not os.path.exists(v):
                import re
                at = re.findall(r"/\\ l = (\d+)", r.out)
                raise Infra("trace validation %s produced no verdict (rc=%d)%s:\n%s"
                            % (module, r.rc, (" AT_L=%s" % at[-1]) if at else "", r.out[-3000:]))
            with open(v) as f:
                verdict = json.loads(f.readline())
            return verdict, r
        bad = []
        n = dec = 0
        t0 = time.time()
        with cf.ThreadPoolExecutor(max_workers=min(len(paths), L.NCPU)) as ex:
            for verdict, r in ex.map(one, paths):
                bad += verdict["bad"]
                n += verdict["n"]
                dec += verdict["dec"]
                self.states += r.distinct
                self.transitions += r.generated
        self.traces += len(paths)
        self.events += n
        self.decisive += dec
        if not quiet:
            log("[validate] %s: %d events, %d decisive, %d rejected, %.1fs (%d shards)"
                % (module, n, dec, len(bad), time.time() - t0, len(paths)))
        if n != rows_n:
            raise Infra("trace validation consumed %d of %d events" % (n, rows_n))
        if not getattr(self, "_in_selftest", False):
            self.validated.append((module, events, cfg, env, heap, {b.get("id") for b in bad}))
        if self.replay_rows is None and dec < floor * n:
            raise Infra("vacuity guard: only %d of %d events decisive for %s" % (dec, n, module))
        # samples
        with open(events) as f:
            for i, line in enumerate(f):
                if i >= 2 or len(self.samples) >= 6:
                    break
                e = json.loads(line)
                self.samples.append(sample_of(e))
        return bad

    # ------------------------------------------------------------ binding self-test
    def selftest(self, per_key=40):
        """Corrupt recorded results field by field and demand that the trace specification rejects them:
        a field whose corruption is never rejected is not bound by the specification."""
        import random
        rnd = random.Random(7)
        report = {}
        self._in_selftest = True
        for module, events, cfg, env, heap, rejected in self.validated:
            rows = [json.loads(l) for l in open(events)]
            good = [r for r in rows if r["c"].get("id") not in rejected and isinstance(r.get("r"), dict)]
            rnd.shuffle(good)
            out, tags = [], {}
            nid = 0
            counts = {}
            for ev in good:
                for path in result_paths(ev["r"]):
                    key = path_name(path)
                    if counts.get(key, 0) >= per_key:
                        continue
                    c2 = json.loads(json.dumps(ev))
                    if not corrupt_at(c2["r"], path):
                        continue
                    counts[key] = counts.get(key, 0) + 1
                    nid += 1
                    c2["c"]["id"] = 900000000 + nid
                    tags[c2["c"]["id"]] = key
                    out.append(c2)
            if not out:
                continue
            saved = (self.events, self.decisive, self.traces, self.states, self.transitions, list(self.samples))
            errored = {}
            bad = []
            lock = threading.Lock()

            def chunk_run(ci, chunk):
                cpath = "%s.corrupt%d" % (events, ci)
                res = []
                for attempt in range(len(chunk) + 1):
                    if not chunk:
                        break
                    L.write_ndjson(cpath, chunk)
                    try:
                        res = self.validate(module, cpath, cfg=cfg, env=env, heap=heap, floor=0.0, shards=1, quiet=True)
                        break
                    except Infra as ex:
                        # a corrupted event the specification cannot even evaluate (shape error): drop it, count it
                        m = re.findall(r"AT_L=(\d+)", str(ex))
                        if not m or int(m[-1]) - 1 >= len(chunk):
                            raise
                        idx = int(m[-1]) - 1
                        k = tags[chunk[idx]["c"]["id"]]
                        with lock:
                            errored[k] = errored.get(k, 0) + 1
                        chunk = chunk[:idx] + chunk[idx + 1:]
                return res
            chunks = [out[i:i + 60] for i in range(0, len(out), 60)]
            with cf.ThreadPoolExecutor(max_workers=6) as ex:
                for res in ex.map(lambda a: chunk_run(*a), list(enumerate(chunks))):
                    bad += res
            self.events, self.decisive, self.traces, self.states, self.transitions, self.samples = saved
            rej = {}
            for b in bad:
                k = tags.get(b.get("id"))
                if k:
                    rej[k] = rej.get(k, 0) + 1
            rep = {k: {"corrupted": counts[k], "rejected": rej.get(k, 0) + errored.get(k, 0),
                       "unevaluable": errored.get(k, 0)} for k in sorted(counts)}
            report[module + ":" + os.path.basename(events)] = rep
            for k, v in rep.items():
                mark = "UNBOUND " if v["rejected"] == 0 else ("weak    " if v["rejected"] * 4 < v["corrupted"] else "        ")
                log("[selftest] %s %-28s %3d/%3d corrupted events rejected  (%s)" % (mark, k, v["rejected"], v["corrupted"], module))
        self._in_selftest = False
        os.makedirs(os.path.join(L.VERIF, "selftest"), exist_ok=True)
        with open(os.path.join(L.VERIF, "selftest", self.pid + ".json"), "w") as f:
            json.dump(report, f, indent=1, sort_keys=True)
        return report

    def judge(self, bad, cases):
        """Attribute rejected events to cases; separate known findings from violations."""
        if not bad:
            return
        rows = {r["id"]: r for r in L.read_ndjson(cases)}
        for b in bad:
            c = rows.get(b["id"])
            if c is None:
                raise Infra("rejected event id %r not among the cases" % b["id"])
            self.flag(c, b["why"])

    def flag(self, case, why):
        key = L.case_key({k: v for k, v in case.items() if k not in ("id", "_stage")})
        k = L.match_known(self.known, key, why)
        if k is not None:
            self.known_hits.append((k, key, why))
            return
        rp = os.path.join(L.WORK, "replay")
        os.makedirs(rp, exist_ok=True)
        path = os.path.join(rp, "%s-%03d.ndjson" % (self.pid, len(self.violations) + 1))
        rec = dict(case)
        rec["_why"] = why[:300]
        L.write_ndjson(path, [rec])
        self.violations.append((key, why, path))

    # ------------------------------------------------------------ end
    def finish(self, wall):
        seen = set()
        for k, key, why in self.known_hits:
            if id(k) in seen:
                continue
            seen.add(id(k))
            log("KNOWN-FINDING: property=%s %s" % (self.pid, k.get("what", key)))
        shown = 0
        for key, why, path in self.violations:
            if shown < 25:
                log("VIOLATION property=%s replay=%s  # %s :: %s" % (self.pid, path, why[:200], key[:300]))
            shown += 1
        if shown > 25:
            log("... %d more violations" % (shown - 25))
        cov = {
            "states": max(self.states, 1),
            "transitions": max(self.transitions, 1),
            "traces_validated_against_impl": self.traces,
            "samples": self.samples or ["(none)"],
            "evaluations": self.events,
            "distinct_nontrivial": self.decisive,
            "rule": self.rule or ("cases are enumerated by the TLA+ model and replayed on the library; "
                                  "an event is non-trivial (decisive) when the specification's "
                                  "three-valued check returned a definite verdict for it"),
            "model_states": self.model_states,
            "events_validated": self.events,
            "decisive_events": self.decisive,
            "known_findings_hit": len(seen),
        }
        if self.exhaustive is not None:
            cov["exhaustive"] = self.exhaustive
        cov.update(self.extra)
        ev = {
            "property_id": self.pid,
            "tier": self.tier,
            "seed": self.seed,
            "level": self.level,
            "coverage": cov,
            "assumptions": self.assumptions,
            "wall_s": round(wall, 1),
            "violations": len(self.violations),
        }
        if self.replay_rows is None:
            os.makedirs(os.path.join(L.VERIF, "evidence"), exist_ok=True)
            with open(os.path.join(L.VERIF, "evidence", self.pid + ".json"), "w") as f:
                json.dump(ev, f, indent=1)
        log("[done] %s tier=%s: %d events (%d decisive), %d violations, %d known findings, %.1fs"
            % (self.pid, self.tier, self.events, self.decisive, len(self.violations), len(seen), wall))
        return 1 if self.violations else 0

    def cleanup(self):
        if not self.keep:
            shutil.rmtree(self.dir, ignore_errors=True)


def result_paths(r):
    """Paths of the result fields that are corrupted one at a time: the leaves (scalars, terms) of the result,
    descending through objects and lists (long lists: first, middle and last element), at most 5 levels deep."""
    paths = []

    def walk(v, path, depth):
        if L.is_term(v) or not isinstance(v, (list, dict)) or depth >= 5:
            paths.append(tuple(path))
            return
        if isinstance(v, dict):
            if not v:
                paths.append(tuple(path))
            for k in v:
                walk(v[k], path + [k], depth + 1)
            return
        if not v:
            paths.append(tuple(path))
            return
        idx = range(len(v)) if len(v) <= 12 else sorted({0, len(v) // 2, len(v) - 1})
        for i in idx:
            walk(v[i], path + [i], depth + 1)

    for k, v in r.items():
        if k in ("live",):
            continue
        walk(v, [k], 1)
    return paths


def path_name(path):
    return ".".join("*" if isinstance(p, int) else str(p) for p in path)


def corrupt_value(v):
    """A different value of the same shape, or None when there is nothing to change."""
    if isinstance(v, bool):
        return not v
    if isinstance(v, int):
        return v + 1
    if isinstance(v, str):
        # tribool answers: an indeterminate answer is corrupted into a definite one (alternating)
        if v == "U":
            corrupt_value.flip = not getattr(corrupt_value, "flip", False)
            return "T" if corrupt_value.flip else "F"
        return {"T": "F", "F": "T", "": "SymEngineException"}.get(v, "")
    if L.is_term(v):
        if v["k"] == "Dbl":
            # another double: bit 20 of the leading mantissa word flipped (a relative change of 2^-6), or 1.5
            import copy
            if v.get("s") == "fin" and len(v.get("a", [])) >= 6:
                w = copy.deepcopy(v)
                w["a"][3]["n"] = v["a"][3]["n"] ^ (1 << 20)
                return w
            z = {"k": "Int", "a": [], "s": "", "n": 0, "d": 1}
            return {"k": "Dbl", "s": "fin", "n": 1, "d": 0,
                    "a": [dict(z), dict(z), dict(z), dict(z, n=100663296), dict(z), dict(z, n=-52)]}
        if v["k"] in ("Int", "Rat"):
            w = dict(v)
            w["n"] = v["n"] + 1
            return w
        # a different value that is also not in canonical form (14/4)
        return {"k": "Rat", "a": [], "s": "", "n": 14, "d": 4}
    if isinstance(v, list):
        for i, x in enumerate(v):
            c = corrupt_value(x)
            if c is not None:
                return v[:i] + [c] + v[i + 1:]
        return v + [1]
    if isinstance(v, dict):
        for k in sorted(v):
            if k in ("exc",):
                continue
            c = corrupt_value(v[k])
            if c is not None:
                w = dict(v)
                w[k] = c
                return w
        return None
    return None


def corrupt_at(r, path):
    obj = r
    for p in path[:-1]:
        obj = obj[p]
    c = corrupt_value(obj[path[-1]])
    if c is None:
        return False
    obj[path[-1]] = c
    return True


def sample_of(e):
    def conv(v, depth=0):
        if L.is_term(v):
            return L.render(v)
        if isinstance(v, dict):
            return {k: conv(x, depth + 1) for k, x in v.items() if k not in ("_stage",)}
        if isinstance(v, list):
            return [conv(x, depth + 1) for x in v[:12]]
        return v
    s = conv(e)
    txt = json.dumps(s)
    if len(txt) > 1500:
        return txt[:1500] + "..."
    return s


# the per-property plans live in plan_defs.py (imported at the end so that they can use
# plan(), simple-style helpers and Ctx defined above)
def load_plans():
    import plan_defs  # noqa: F401
