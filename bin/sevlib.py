"""Orchestration helpers for the TLA+-based checks.

Only moves files, builds, starts TLC / the harness and writes evidence; every
verdict about a property is produced by TLC evaluating the specification.
"""
import fcntl
import json
import os
import re
import shutil
import subprocess
import sys
import time

VERIF = os.path.dirname(os.path.dirname(os.path.abspath(__file__)))
REPO = os.environ.get("VERIF_REPO", "/repo")
WORK = os.path.join(VERIF, ".work")
SPEC = os.path.join(VERIF, "spec")
JAR = "/opt/veriftools/tla/tla2tools.jar"
NCPU = os.cpu_count() or 4


class Infra(Exception):
    """Infrastructure failure (never a property violation)."""


def log(*a):
    print(*a, flush=True)


# --------------------------------------------------------------- builds
CONFIGS = {
    "base": dict(cmake=["-DWITH_SYMENGINE_ASSERT=yes"],
                 cxx="-DSYMENGINE_VERIF -Wno-error", rel="-O1 -g0"),
    "asan": dict(cmake=["-DWITH_SYMENGINE_ASSERT=yes",
                        "-DCMAKE_CXX_COMPILER=clang++", "-DCMAKE_C_COMPILER=clang"],
                 cxx="-DSYMENGINE_VERIF -Wno-error -fsanitize=address,undefined "
                     "-fno-sanitize-recover=undefined -fno-omit-frame-pointer",
                 rel="-O1 -g1", link="-fsanitize=address,undefined"),
    "tsan": dict(cmake=["-DWITH_SYMENGINE_ASSERT=yes", "-DWITH_SYMENGINE_THREAD_SAFE=yes", "-DVERIF_THREADS=ON",
                        "-DCMAKE_CXX_COMPILER=clang++", "-DCMAKE_C_COMPILER=clang"],
                 cxx="-DSYMENGINE_VERIF -Wno-error -fsanitize=thread",
                 rel="-O1 -g1", link="-fsanitize=thread"),
    "thread": dict(cmake=["-DWITH_SYMENGINE_ASSERT=yes", "-DWITH_SYMENGINE_THREAD_SAFE=yes", "-DVERIF_THREADS=ON"],
                   cxx="-DSYMENGINE_VERIF -Wno-error -pthread", rel="-O1 -g0"),
    "llvm": dict(cmake=["-DWITH_SYMENGINE_ASSERT=yes", "-DWITH_LLVM=yes",
                        "-DLLVM_DIR=/usr/lib/llvm-14/lib/cmake/llvm"],
                 cxx="-DSYMENGINE_VERIF -Wno-error", rel="-O1 -g0"),
    "boost": dict(cmake=["-DWITH_SYMENGINE_ASSERT=yes", "-DINTEGER_CLASS=boostmp"],
                  cxx="-DSYMENGINE_VERIF -Wno-error", rel="-O1 -g0"),
    "gmpxx": dict(cmake=["-DWITH_SYMENGINE_ASSERT=yes", "-DINTEGER_CLASS=gmpxx"],
                  cxx="-DSYMENGINE_VERIF -Wno-error", rel="-O1 -g0"),
}


def build(cfg="base"):
    """(Re)build library + harness for a configuration from /repo's working
    tree.  Incremental (ninja); serialised by a lock."""
    c = CONFIGS[cfg]
    bdir = os.path.join(WORK, "build-" + cfg)
    os.makedirs(bdir, exist_ok=True)
    lock = open(os.path.join(WORK, "build-%s.lock" % cfg), "w")
    fcntl.flock(lock, fcntl.LOCK_EX)
    t0 = time.time()
    try:
        if not os.path.exists(os.path.join(bdir, "build.ninja")):
            cmd = ["cmake", "-G", "Ninja", "-S", os.path.join(VERIF, "harness"), "-B", bdir,
                   "-DCMAKE_BUILD_TYPE=Release", "-DSYMENGINE_SRC=" + REPO,
                   "-DCMAKE_CXX_FLAGS_RELEASE=" + c["rel"],
                   "-DCMAKE_CXX_FLAGS=" + c["cxx"]] + c["cmake"]
            if "link" in c:
                cmd.append("-DCMAKE_EXE_LINKER_FLAGS=" + c["link"])
            r = subprocess.run(cmd, stdout=subprocess.PIPE, stderr=subprocess.STDOUT, text=True)
            if r.returncode != 0:
                shutil.rmtree(bdir, ignore_errors=True)
                raise Infra("cmake failed for %s:\n%s" % (cfg, r.stdout[-3000:]))
        r = subprocess.run(["ninja", "-C", bdir, "sevdrive"], stdout=subprocess.PIPE,
                           stderr=subprocess.STDOUT, text=True)
        if r.returncode != 0:
            raise Infra("build failed for %s:\n%s" % (cfg, r.stdout[-4000:]))
    finally:
        fcntl.flock(lock, fcntl.LOCK_UN)
    log("[build] %s ready in %.1fs" % (cfg, time.time() - t0))
    return os.path.join(bdir, "sevdrive")


# --------------------------------------------------------------- TLC
class TlcResult:
    def __init__(self, rc, out, wall):
        self.rc, self.out, self.wall = rc, out, wall
        m = re.search(r"(\d+) states generated, (\d+) distinct states found", out)
        self.generated = int(m.group(1)) if m else 0
        self.distinct = int(m.group(2)) if m else 0
        self.violation = ("is violated" in out) or ("Assumption" in out and "is false" in out)
        self.error = rc not in (0,) and not self.violation


def tlc(module, cfg=None, env=None, workers=1, extra=(), timeout=1800, metadir=None,
        heap="4g", simulate=None, fulljit=False):
    """Run TLC on spec/<module>.tla; returns TlcResult."""
    cfg = cfg or module + ".cfg"
    md = metadir or os.path.join(WORK, "tlc", "%s-%d-%d" % (module, os.getpid(), int(time.time() * 1000) % 100000000))
    os.makedirs(md, exist_ok=True)
    # trace validation runs several short single-worker JVMs side by side: C1 only; generators compute longer
    gc = ((["-XX:+UseSerialGC"] + ([] if fulljit else ["-XX:TieredStopAtLevel=1", "-Xshare:auto"]))
          if workers == 1 else ["-XX:+UseParallelGC"])
    cmd = ["java", "-Xmx" + heap, "-Xss64m"] + gc + ["-cp", JAR + ":/opt/veriftools/tla/CommunityModules-deps.jar",
           "tlc2.TLC", "-workers", str(workers), "-metadir", md, "-config", cfg, "-noGenerateSpecTE"]
    if simulate:
        cmd += ["-simulate", simulate]
    cmd += list(extra) + [module + ".tla"]
    e = dict(os.environ)
    e.update(env or {})
    t0 = time.time()
    try:
        r = subprocess.run(cmd, cwd=SPEC, env=e, stdout=subprocess.PIPE, stderr=subprocess.STDOUT,
                           text=True, timeout=timeout)
        out, rc = r.stdout, r.returncode
    except subprocess.TimeoutExpired as ex:
        out = (ex.stdout or b"").decode("utf-8", "replace") if isinstance(ex.stdout, bytes) else (ex.stdout or "")
        out += "\nTLC TIMEOUT"
        rc = 124
    shutil.rmtree(md, ignore_errors=True)
    return TlcResult(rc, out, time.time() - t0)


def tlc_classpath():
    return JAR


# --------------------------------------------------------------- harness
def drive(exe, cases, events, timeout=1200, env=None):
    e = dict(os.environ)
    e.setdefault("ASAN_OPTIONS", "detect_leaks=1:abort_on_error=0:exitcode=23")
    e.setdefault("UBSAN_OPTIONS", "print_stacktrace=1:halt_on_error=1:exitcode=24")
    e.update(env or {})
    t0 = time.time()
    try:
        r = subprocess.run([exe, cases, events], stdout=subprocess.PIPE, stderr=subprocess.STDOUT,
                           text=True, timeout=timeout, env=e, errors="replace")
        rc, out = r.returncode, r.stdout
    except subprocess.TimeoutExpired as ex:
        rc, out = 124, "HARNESS TIMEOUT"
    return rc, out, time.time() - t0


# --------------------------------------------------------------- files
def read_ndjson(path):
    with open(path) as f:
        return [json.loads(l) for l in f if l.strip()]


def write_ndjson(path, rows):
    with open(path, "w") as f:
        for r in rows:
            f.write(json.dumps(r, separators=(",", ":")))
            f.write("\n")


def is_term(v):
    return (isinstance(v, dict) and isinstance(v.get("k"), str) and isinstance(v.get("a"), list)
            and "s" in v and "n" in v)


def render(t):
    """Compact rendering of a term (for fingerprints and samples)."""
    if not is_term(t):
        return json.dumps(t, separators=(",", ":"))
    k = t["k"]
    a = t.get("a", [])
    if k == "Int":
        return str(t["n"])
    if k == "Rat":
        return "%d/%d" % (t["n"], t["d"])
    if k in ("Sym", "Const", "MatrixSymbol"):
        return t["s"]
    if k == "Dbl":
        if t["s"] != "fin":
            return ("-" if t["n"] < 0 else "") + {"nan": "nanf", "inf": "inff", "zero": "0.0"}[t["s"]]
        m = a[0]["n"] * (1 << 26) + a[1]["n"]
        return repr(t["n"] * m * 2.0 ** a[2]["n"])
    if k == "Big":
        v = 0
        for limb in reversed(a):
            v = v * 10000 + limb["n"]
        return str(v * (1 if t["n"] >= 0 else -1))
    s = k
    if t.get("s"):
        s += ":" + t["s"]
    if k in ("Interval", "interval"):
        s += ":%d%d" % (t["n"], t["d"])
    return s + "(" + ",".join(render(c) for c in a) + ")"


def case_key(c):
    """Fingerprint of a case: everything but the id, terms rendered."""
    def conv(v):
        if is_term(v):
            return render(v)
        if isinstance(v, dict):
            return {kk: conv(vv) for kk, vv in v.items() if kk != "id"}
        if isinstance(v, list):
            return [conv(x) for x in v]
        return v
    return json.dumps(conv(c), separators=(",", ":"), sort_keys=True)


# --------------------------------------------------------------- known findings
def load_known(pid):
    path = os.path.join(VERIF, "known_findings.jsonl")
    out = []
    if os.path.exists(path):
        for l in open(path):
            l = l.strip()
            if not l or l.startswith("#"):
                continue
            r = json.loads(l)
            if r.get("property") == pid and r.get("status") == "known":
                out.append(r)
    return out


def match_known(known, key, reason=""):
    for k in known:
        if "why" in k and not re.search(k["why"], reason or ""):
            continue
        m = k.get("match", "exact")
        if m == "exact" and k["key"] == key:
            return k
        if m == "prefix" and key.startswith(k["key"]):
            return k
        if m == "regex" and re.search(k["key"], key):
            return k
    return None
