#!/usr/bin/env python3
"""Regenerates /verif/MANIFEST.json from the table below (claimed checks) and
properties.jsonl (everything not claimed goes to not_applicable with its reason)."""
import json
import os
import subprocess
import sys

sys.path.insert(0, os.path.dirname(os.path.abspath(__file__)))

V = os.path.dirname(os.path.dirname(os.path.abspath(__file__)))

from claims import CLAIMS, NOT_APPLICABLE  # noqa: E402


def main():
    hooks = subprocess.run(["git", "-C", "/repo", "log", "--format=%h %s"], stdout=subprocess.PIPE,
                           text=True).stdout.splitlines()
    hook_commits = [l.split()[0] for l in hooks if "verif hook" in l]
    m = {
        "version": 1,
        "setup_cmd": "bin/setup",
        "hooks": {
            "guard": "SYMENGINE_VERIF",
            "enable": "bin/check builds /repo's working tree through harness/CMakeLists.txt (add_subdirectory) into "
                      ".work/build-<cfg> with -DSYMENGINE_VERIF -DWITH_SYMENGINE_ASSERT=yes",
            "baseline_off_cmd": "cmake --build /repo/_build -j16 && ctest --test-dir /repo/_build -j8 --timeout 900",
            "source_commits": hook_commits,
            "add_only": True,
        },
        "engines": [{"name": "tlc", "path": "/opt/veriftools/tla/tla2tools.jar",
                     "serves_properties": sorted(CLAIMS),
                     "kind_free_text": "TLC 1.8.0 model checker: generates cases/behaviours from the models "
                                       "(spec/MC_*.tla) and validates recorded traces (spec/Trace_*.tla)"}],
        "checks": [],
        "not_applicable": [],
        "notes": "All checks: bin/check <id> [--tier quick|thorough] [--replay <path>]; see DESIGN.md.",
    }
    props = [json.loads(l) for l in open(os.path.join(V, "properties.jsonl"))]
    for p in props:
        pid = p["id"]
        if pid in CLAIMS:
            cat, text, ref, note, tech = CLAIMS[pid]
            m["checks"].append({
                "property_id": pid,
                "quick_cmd": "bin/check %s --tier quick" % pid,
                "thorough_cmd": "bin/check %s --tier thorough" % pid,
                "evidence_file": "evidence/%s.json" % pid,
                "replay_cmd_template": "bin/check %s --replay {path}" % pid,
                "engine": "tlc",
                "level_claimed": {"category": cat, "text": text, "design_ref": "DESIGN.md section " + ref},
                "level_note": note,
                "technique": tech,
            })
        else:
            m["not_applicable"].append({
                "property_id": pid,
                "reason": NOT_APPLICABLE.get(pid, "check not built yet in this round (planned, see DESIGN.md section 6)"),
            })
    with open(os.path.join(V, "MANIFEST.json"), "w") as f:
        json.dump(m, f, indent=1)
    print("claimed:", len(m["checks"]), "not applicable:", len(m["not_applicable"]))


if __name__ == "__main__":
    main()
