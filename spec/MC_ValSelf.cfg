INIT Init
NEXT Next
