---- MODULE Trace_Lambda_TTrace_1790038046 ----
EXTENDS Sequences, TLCExt, Toolbox, Naturals, TLC, Trace_Lambda

_expression ==
    LET Trace_Lambda_TEExpression == INSTANCE Trace_Lambda_TEExpression
    IN Trace_Lambda_TEExpression!expression
----

_trace ==
    LET Trace_Lambda_TETrace == INSTANCE Trace_Lambda_TETrace
    IN Trace_Lambda_TETrace!trace
----

_inv ==
    ~(
        TLCGet("level") = Len(_TETrace)
        /\
        hist = (<<>>)
        /\
        dec = (1)
        /\
        cse = (FALSE)
        /\
        bad = (<<>>)
        /\
        cfg = (0)
        /\
        lastOut = (0)
        /\
        l = (2)
    )
----

_init ==
    /\ l = _TETrace[1].l
    /\ cfg = _TETrace[1].cfg
    /\ lastOut = _TETrace[1].lastOut
    /\ dec = _TETrace[1].dec
    /\ hist = _TETrace[1].hist
    /\ cse = _TETrace[1].cse
    /\ bad = _TETrace[1].bad
----

_next ==
    /\ \E i,j \in DOMAIN _TETrace:
        /\ \/ /\ j = i + 1
              /\ i = TLCGet("level")
        /\ l  = _TETrace[i].l
        /\ l' = _TETrace[j].l
        /\ cfg  = _TETrace[i].cfg
        /\ cfg' = _TETrace[j].cfg
        /\ lastOut  = _TETrace[i].lastOut
        /\ lastOut' = _TETrace[j].lastOut
        /\ dec  = _TETrace[i].dec
        /\ dec' = _TETrace[j].dec
        /\ hist  = _TETrace[i].hist
        /\ hist' = _TETrace[j].hist
        /\ cse  = _TETrace[i].cse
        /\ cse' = _TETrace[j].cse
        /\ bad  = _TETrace[i].bad
        /\ bad' = _TETrace[j].bad

\* Uncomment the ASSUME below to write the states of the error trace
\* to the given file in Json format. Note that you can pass any tuple
\* to `JsonSerialize`. For example, a sub-sequence of _TETrace.
    \* ASSUME
    \*     LET J == INSTANCE Json
    \*         IN J!JsonSerialize("Trace_Lambda_TTrace_1790038046.json", _TETrace)

=============================================================================

 Note that you can extract this module `Trace_Lambda_TEExpression`
  to a dedicated file to reuse `expression` (the module in the 
  dedicated `Trace_Lambda_TEExpression.tla` file takes precedence 
  over the module `Trace_Lambda_TEExpression` below).

---- MODULE Trace_Lambda_TEExpression ----
EXTENDS Sequences, TLCExt, Toolbox, Naturals, TLC, Trace_Lambda

expression == 
    [
        \* To hide variables of the `Trace_Lambda` spec from the error trace,
        \* remove the variables below.  The trace will be written in the order
        \* of the fields of this record.
        l |-> l
        ,cfg |-> cfg
        ,lastOut |-> lastOut
        ,dec |-> dec
        ,hist |-> hist
        ,cse |-> cse
        ,bad |-> bad
        
        \* Put additional constant-, state-, and action-level expressions here:
        \* ,_stateNumber |-> _TEPosition
        \* ,_lUnchanged |-> l = l'
        
        \* Format the `l` variable as Json value.
        \* ,_lJson |->
        \*     LET J == INSTANCE Json
        \*     IN J!ToJson(l)
        
        \* Lastly, you may build expressions over arbitrary sets of states by
        \* leveraging the _TETrace operator.  For example, this is how to
        \* count the number of times a spec variable changed up to the current
        \* state in the trace.
        \* ,_lModCount |->
        \*     LET F[s \in DOMAIN _TETrace] ==
        \*         IF s = 1 THEN 0
        \*         ELSE IF _TETrace[s].l # _TETrace[s-1].l
        \*             THEN 1 + F[s-1] ELSE F[s-1]
        \*     IN F[_TEPosition - 1]
    ]

=============================================================================



Parsing and semantic processing can take forever if the trace below is long.
 In this case, it is advised to uncomment the module below to deserialize the
 trace from a generated binary file.

\*
\*---- MODULE Trace_Lambda_TETrace ----
\*EXTENDS IOUtils, TLC, Trace_Lambda
\*
\*trace == IODeserialize("Trace_Lambda_TTrace_1790038046.bin", TRUE)
\*
\*=============================================================================
\*

---- MODULE Trace_Lambda_TETrace ----
EXTENDS TLC, Trace_Lambda

trace == 
    <<
    ([hist |-> <<>>,dec |-> 0,cse |-> FALSE,bad |-> <<>>,cfg |-> 0,lastOut |-> 0,l |-> 1]),
    ([hist |-> <<>>,dec |-> 1,cse |-> FALSE,bad |-> <<>>,cfg |-> 0,lastOut |-> 0,l |-> 2])
    >>
----


=============================================================================

---- CONFIG Trace_Lambda_TTrace_1790038046 ----
CONSTANTS
    Depth = 1
    Kind = "trace"
    OutLists <- RealOutLists
    InVecs <- RealVecs

INVARIANT
    _inv

CHECK_DEADLOCK
    \* CHECK_DEADLOCK off because of PROPERTY or INVARIANT above.
    FALSE

INIT
    _init

NEXT
    _next

CONSTANT
    _TETrace <- _trace

ALIAS
    _expression
=============================================================================
\* Generated on Tue Sep 22 00:47:28 UTC 2026