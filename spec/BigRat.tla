------------------------------- MODULE BigRat -------------------------------
(* Fractions over module BigInt for number expressions whose numerator or   *)
(* denominator does not fit TLC's integers (3^700 / 2^1100, (200!+1)/200!): *)
(* the value of a term built from integers with + - * / and natural powers, *)
(* and its 53-bit double (truncated quotient, in the shape module Dbl       *)
(* compares).                                                               *)
EXTENDS BigInt, Integers, Sequences

\* fraction [n |-> integer, d |-> natural # 0], not reduced;  BQU = not evaluated
BQU == [n |-> Z0, d |-> <<>>]
BQ(n, d) == [n |-> n, d |-> d]
BQOk(q) == q.d # <<>>
BQAdd(p, q) == BQ(ZAdd(ZMul(p.n, Z(1, q.d)), ZMul(q.n, Z(1, p.d))), NMul(p.d, q.d))
BQNeg(p) == BQ(ZNeg(p.n), p.d)
BQMul(p, q) == BQ(ZMul(p.n, q.n), NMul(p.d, q.d))
BQInv(p) == IF p.n.s = 0 THEN BQU ELSE BQ(Z(p.n.s, p.d), p.n.m)
BQPow(p, k) == IF k >= 0 THEN BQ(ZPow(p.n, k), NPow(p.d, k)) ELSE BQInv(BQ(ZPow(p.n, -k), NPow(p.d, -k)))
RECURSIVE NFact(_)
NFact(k) == IF k <= 1 THEN N1 ELSE NMulSmall(NFact(k - 1), k)
RECURSIVE BQVal(_)
BQVal(t) ==
    LET A(i) == BQVal(t.a[i])
        ok2 == BQOk(A(1)) /\ BQOk(A(2))
    IN CASE t.k = "Int" -> BQ(ZFromInt(t.n), N1)
         [] t.k = "Rat" -> BQ(ZFromInt(t.n), NFromInt(t.d))
         [] t.k = "add" /\ Len(t.a) = 2 -> (IF ok2 THEN BQAdd(A(1), A(2)) ELSE BQU)
         [] t.k = "sub" -> (IF ok2 THEN BQAdd(A(1), BQNeg(A(2))) ELSE BQU)
         [] t.k = "mul" /\ Len(t.a) = 2 -> (IF ok2 THEN BQMul(A(1), A(2)) ELSE BQU)
         [] t.k = "div" -> (IF ok2 /\ A(2).n.s # 0 THEN BQMul(A(1), BQInv(A(2))) ELSE BQU)
         [] t.k = "neg" -> (IF BQOk(A(1)) THEN BQNeg(A(1)) ELSE BQU)
         [] t.k = "pow" /\ t.a[2].k = "Int" /\ t.a[2].n \in -4000..4000 -> (IF BQOk(A(1)) /\ (t.a[2].n >= 0 \/ A(1).n.s # 0) THEN BQPow(A(1), t.a[2].n) ELSE BQU)
         [] t.k = "gamma" /\ t.a[1].k = "Int" /\ t.a[1].n \in 1..400 -> BQ(Z(1, NFact(t.a[1].n - 1)), N1)
         [] OTHER -> BQU

\* number of bits of a natural
RECURSIVE NBitsR(_, _)
NBitsR(a, acc) == IF a = <<>> THEN acc ELSE IF Len(a) > 1 THEN NBitsR(NDivSmall(a, 8192).q, acc + 13) ELSE NBitsR(NDivSmall(a, 2).q, acc + 1)
NBits(a) == NBitsR(a, 0)
\* the double below |p/q| (p, q naturals # 0): e with 2^e <= p/q < 2^(e+1), 53-bit truncated mantissa split 27 + 26
BigRatToDbl(p, q) ==
    LET e0 == NBits(p) - NBits(q)                          \* 2^(e0-1) < p/q < 2^(e0+1)
        sc(e) == IF e >= 0 THEN <<p, NMul(q, NPow(N2, e))>> ELSE <<NMul(p, NPow(N2, -e)), q>>
        e == IF NLe(sc(e0)[2], sc(e0)[1]) THEN e0 ELSE e0 - 1
        nd == sc(e)                                        \* 1 <= nd[1]/nd[2] < 2
        mant == NDivMod(NMul(nd[1], NPow(N2, 52)), nd[2]).q    \* in [2^52, 2^53)
        sp == NDivMod(mant, NFromInt(67108864))
    IN [k |-> "Dbl", s |-> "fin", n |-> 1, d |-> 0,
        a |-> <<[n |-> 0], [n |-> 0], [n |-> 0], [n |-> NToInt(sp.q)], [n |-> NToInt(sp.r)], [n |-> e - 52]>>]
BigRatDbl(f) == IF f.n.s = 0 THEN [k |-> "Dbl", s |-> "zero", n |-> 1, d |-> 0, a |-> <<>>]
                ELSE LET d == BigRatToDbl(f.n.m, f.d) IN [d EXCEPT !.n = f.n.s]
=============================================================================
