SPECIFICATION Spec
CONSTANTS
  Threads = {1, 2}
  Rounds = 2
  Atomic = FALSE
  H = 7
INVARIANTS DummiesDistinct
CHECK_DEADLOCK FALSE
