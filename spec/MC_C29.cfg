INIT Init
NEXT Next
