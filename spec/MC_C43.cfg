INIT Init
NEXT Next
