SPECIFICATION Spec
CONSTANTS
  IterIds = {1}
  FinMode = "plus1"
  Depth = 2
  Limits = {47, 48, 49, 64, 100}
  SegBits = {2, 3, 8}
  IterLimits = {0}
  EmitOn = FALSE
INVARIANTS NoOutOfBounds
CHECK_DEADLOCK FALSE
