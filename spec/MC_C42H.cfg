SPECIFICATION Spec
CONSTANTS
  Depth = 8
INVARIANTS TypeOK Bounded Emit
CHECK_DEADLOCK FALSE
