------------------------------- MODULE MC_C44 -------------------------------
(* Cases for C44: the expression pool, singly and combined.                 *)
EXTENDS Integers, Sequences, FiniteSets, TLC, Json, IOUtils, SequencesExt, Randomization, ExprPool
Thorough == "TIER" \in DOMAIN IOEnv /\ IOEnv.TIER = "thorough"
\* (the thorough tier samples three times as many of each operand set)
Sub(S, n) == LET m == IF Thorough THEN 3 * n ELSE n IN IF Cardinality(S) <= m THEN S ELSE RandomSubset(m, S)
Scalar == Nums \cup Atoms \cup Arith \cup Funs \cup Calc \cup Shared
Comb0 == {TOp(k, <<a, b>>) : k \in {"add", "mul", "pow"}, a, b \in Sub(Scalar, 12)}
Comb == {TOp(k, <<a, b>>) : k \in {"add", "mul", "pow", "div"}, a \in Sub(Scalar, 40), b \in Sub(Scalar, 25)}
        \cup {U(f, a) : f \in {"sin", "sqrt", "abs", "exp", "gamma"}, a \in Sub(Comb0, 30)}
\* the SBML fragment: arithmetic, powers, the SBML function names, relationals and logic
Sb == {x, y, TInt(2), TRat(1, 2), TInt(3), TConst("pi"), TConst("E")}
SbmlE == Sb \cup {B(k, a, b) : k \in {"add", "mul", "pow", "sub", "div"}, a, b \in Sb}
         \cup {U(f, a) : f \in {"sin", "cos", "tan", "sec", "csc", "cot", "asin", "acos", "atan", "sinh", "cosh", "tanh", "log", "exp", "sqrt", "abs", "floor", "ceiling", "gamma"}, a \in {x, B("add", x, y)}}
         \cup {B(r, x, y) : r \in {"Lt", "Le", "Eq", "Ne"}} \cup {TOp(k, <<B("Lt", x, y), B("Le", y, TInt(1))>>) : k \in {"and", "or", "xor"}} \cup {U("not", B("Lt", x, y))}
         \cup {TOp("piecewise", <<x, B("Lt", x, TInt(0)), y, T("True", <<>>, "", 0, 0)>>), TOp("max", <<x, y>>), TOp("min", <<x, y, TInt(1)>>)}
Cases == {[op |-> "printers", sbmlfrag |-> 0, ts |-> <<a>>] : a \in Pool \cup Comb0 \cup Comb}
         \cup {[op |-> "printers", sbmlfrag |-> 1, ts |-> <<a>>] : a \in SbmlE}
ASSUME PrintT(<<"cases", Cardinality(Cases)>>)
ASSUME ndJsonSerialize(IOEnv.OUT, SetToSeq(Cases))
VARIABLE dummy
Init == dummy = 0
Next == UNCHANGED dummy
=============================================================================
