------------------------------ MODULE Trace_C43 ------------------------------
(* C43: every integer back end computes what the definition says.  Each     *)
(* recorded call of the mp_* wrappers is recomputed with the school         *)
(* arithmetic of module BigInt (or checked against the function's contract  *)
(* where the result is characterised rather than computed: roots, Bezout    *)
(* coefficients, modular inverses).  The same specification validates the   *)
(* events of every back end; Trace_C43X then requires them to be identical. *)
EXTENDS Integers, Sequences, FiniteSets, TLC, Json, IOUtils, BigInt
VARIABLES l, bad, dec
ZZ(j) == [s |-> j.s, m |-> j.m]                       \* a big integer of an event
Pick(seq) == LET bads == {i \in 1..Len(seq) : seq[i] # ""} IN IF bads = {} THEN "" ELSE seq[CHOOSE i \in bads : \A j \in bads : i <= j]
Want(name, got, want) == IF got = want THEN "" ELSE "bad:" \o name
B2I(b) == IF b THEN 1 ELSE 0
\* ---- small-number definitions
RECURSIVE PowEq(_, _, _)          \* b^k = n, without leaving TLC's integers
PowEq(b, k, n) == IF k = 0 THEN n = 1 ELSE n % b = 0 /\ PowEq(b, k - 1, n \div b)
PerfectPowerSmall(n) == n \in {0, 1} \/ \E b \in 2..265 : b * b <= n /\ \E k \in 2..17 : PowEq(b, k, n)
RECURSIVE NextP(_)
NextP(k) == IF SmallPrime(k) THEN k ELSE NextP(k + 1)
NextPrimeSmall(n) == NextP(n + 1)             \* the smallest prime above n
\* Legendre symbol by Euler's criterion (p an odd prime)
Legendre(a, p) == LET r == ZPowMod(a, ZDivT(ZSub(p, Z1), ZFromInt(2)).q, p)
                  IN IF r = Z0 THEN 0 ELSE IF r = Z1 THEN 1 ELSE -1
\* Jacobi symbol (m odd, positive, small) as the product of Legendre symbols over the prime factorisation
RECURSIVE JacobiS(_, _, _)
JacobiS(a, m, p) == IF m = 1 THEN 1
                    ELSE IF m % p = 0 THEN Legendre(a, ZFromInt(p)) * JacobiS(a, m \div p, p)
                    ELSE JacobiS(a, m, p + 2)
Jacobi(a, m) == JacobiS(a, m, 3)
\* Kronecker symbol for a small second argument
KronTwo(a) == IF NIsEven(a.m) THEN 0 ELSE LET r == NDivSmall(a.m, 8).r IN IF r \in {1, 7} THEN 1 ELSE -1   \* |a| mod 8 in {1,7} <=> a mod 8 in {1,7}
RECURSIVE TwoPart(_)
TwoPart(n) == IF n % 2 = 0 THEN 1 + TwoPart(n \div 2) ELSE 0
RECURSIVE IPw(_, _)
IPw(b, k) == IF k = 0 THEN 1 ELSE b * IPw(b, k - 1)
Kronecker(a, n) == IF n = 0 THEN (IF a.m = N1 THEN 1 ELSE 0)
                   ELSE LET an == IF n < 0 THEN -n ELSE n
                            j == TwoPart(an)
                            odd == an \div (2 ^ j)
                            u == IF n < 0 /\ a.s < 0 THEN -1 ELSE 1
                        IN u * IPw(KronTwo(a), j) * Jacobi(a, odd)
\* ---- sequences
RECURSIVE FibPair(_)          \* <<F(n), F(n-1)>>
FibPair(n) == IF n = 0 THEN <<Z0, Z1>> ELSE LET p == FibPair(n - 1) IN <<ZAdd(p[1], p[2]), p[1]>>
RECURSIVE LucPair(_)          \* <<L(n), L(n-1)>>
LucPair(n) == IF n = 0 THEN <<ZFromInt(2), ZFromInt(-1)>> ELSE LET p == LucPair(n - 1) IN <<ZAdd(p[1], p[2]), p[1]>>
RECURSIVE FacN(_)
FacN(n) == IF n <= 1 THEN N1 ELSE NMulSmall(FacN(n - 1), n)
RECURSIVE Primorial(_)
Primorial(n) == IF n < 2 THEN N1 ELSE IF SmallPrime(n) THEN NMulSmall(Primorial(n - 1), n) ELSE Primorial(n - 1)
RECURSIVE FallingProd(_, _)   \* a (a-1) ... (a-k+1)
FallingProd(a, k) == IF k = 0 THEN Z1 ELSE ZMul(FallingProd(a, k - 1), ZSub(a, ZFromInt(k - 1)))
Binomial(a, k) == ZDivT(FallingProd(a, k), Z(1, FacN(k))).q
\* ---- fractions in lowest terms with a positive denominator
QN(n, d) == LET g == NGcd(n.m, d.m) IN <<Z(n.s * d.s, NDivMod(n.m, g).q), Z(1, NDivMod(d.m, g).q)>>
QAdd(p, q) == QN(ZAdd(ZMul(p[1], q[2]), ZMul(q[1], p[2])), ZMul(p[2], q[2]))
QMul(p, q) == QN(ZMul(p[1], q[1]), ZMul(p[2], q[2]))
Two63 == NPow(N2, 63)
Two64 == NPow(N2, 64)
Two53 == NPow(N2, 53)

CheckMp(c, r) ==
    LET a(i) == ZZ(c.a[i])
        z(i) == ZZ(r.z[i])
        f == c.f
    IN
    IF \E i \in 1..Len(r.z) : ~ZWell(ZZ(r.z[i])) THEN "bad:malformed-result"
    ELSE CASE f = "arith" ->
          Pick(<<Want("add", z(1), ZAdd(a(1), a(2))), Want("sub", z(2), ZSub(a(1), a(2))), Want("mul", z(3), ZMul(a(1), a(2))), Want("abs", z(4), ZAbs(a(1))),
                 Want("addmul", z(5), ZAdd(a(3), ZMul(a(1), a(2)))), Want("neg", z(6), ZNeg(a(1))), Want("sign", r.i[1], a(1).s), Want("cmpabs", r.i[2], NCmp(a(1).m, a(2).m)),
                 Want("cmp", r.i[3], ZCmp(a(1), a(2))), Want("eq", r.i[4], B2I(a(1) = a(2))), Want("ne", r.i[5], B2I(a(1) # a(2))), Want("le", r.i[6], B2I(ZCmp(a(1), a(2)) <= 0))>>)
      [] f = "divs" ->
          LET fl == ZDivF(a(1), a(2)) ce == ZDivC(a(1), a(2)) tr == ZDivT(a(1), a(2))
          IN Pick(<<Want("fdiv_qr.q", z(1), fl.q), Want("fdiv_qr.r", z(2), fl.r), Want("cdiv_q", z(3), ce.q), Want("cdiv_q.r", z(4), ce.r), Want("tdiv_qr.q", z(5), tr.q), Want("tdiv_qr.r", z(6), tr.r),
                    Want("fdiv_q", z(7), fl.q), Want("fdiv_r", z(8), fl.r), Want("cdiv_q", z(9), ce.q), Want("tdiv_q", z(10), tr.q), Want("divisible_p", r.i[1], B2I(tr.r = Z0)),
                    Want("divexact", z(11), a(1))>>)
      [] f = "gcd" ->
          LET g == ZGcd(a(1), a(2))
              lcm == IF a(1).s = 0 \/ a(2).s = 0 THEN Z0 ELSE Z(1, NDivMod(NMul(a(1).m, a(2).m), g.m).q)
          IN Pick(<<Want("gcd", z(1), IF g.m = <<>> THEN Z0 ELSE g), Want("lcm", z(2), lcm), Want("gcdext.g", z(3), IF g.m = <<>> THEN Z0 ELSE g),
                    Want("gcdext:s*a+t*b=g", ZAdd(ZMul(z(4), a(1)), ZMul(z(5), a(2))), z(3))>>)
      [] f = "invert" ->
          LET am == ZAbs(a(2))
              g == NGcd(a(1).m, a(2).m)
              exists == g = N1 \/ (a(1).s = 0 /\ am.m = N1)
          IN Pick(<<Want("invert:exists", r.i[1], B2I(exists)),
                    IF r.i[1] = 1 THEN Pick(<<Want("invert:range", z(1).s >= 0 /\ NLt(z(1).m, am.m), TRUE),
                                              Want("invert:a*res=1", ZDivF(ZMul(a(1), z(1)), am).r, ZDivF(Z1, am).r)>>) ELSE "">>)
      [] f = "powui" -> Want("pow_ui", z(1), ZPow(a(1), c.n[1]))
      [] f = "powm" -> Want("powm", z(1), ZPowMod(a(1), a(2), a(3)))
      [] f = "root" ->
          LET n == c.n[1]
              exact == ZPow(z(1), n) = a(1)
          IN Pick(<<Want("root:floor", z(1).s >= 0 /\ NIsRoot(z(1).m, a(1).m, n), TRUE), Want("root:exact", r.i[1], B2I(exact)),
                    Want("rootrem.root", z(2), z(1)), Want("rootrem.rem", z(3), ZSub(a(1), ZPow(z(1), n))),
                    Want("sqrt", z(4).s >= 0 /\ NIsRoot(z(4).m, a(1).m, 2), TRUE), Want("sqrtrem.root", z(5), z(4)), Want("sqrtrem.rem", z(6), ZSub(a(1), ZMul(z(4), z(4)))),
                    Want("perfect_square_p", r.i[2], B2I(ZMul(z(4), z(4)) = a(1)))>>)
      [] f = "prime" ->
          LET small == ZFits(a(1)) /\ ZToInt(a(1)) <= 70000
              n == ZToInt(a(1))
              composite == Len(c.fac) >= 2 /\ (\A i \in 1..Len(c.fac) : c.fac[i] >= 2) /\ Z(1, NProd(c.fac, 1)) = a(1)
              distinct == Cardinality({c.fac[i] : i \in 1..Len(c.fac)}) = Len(c.fac) /\ \A i \in 1..Len(c.fac) : c.fac[i] < 70000 /\ SmallPrime(c.fac[i])
              lucas == IF Len(c.cert.fs) > 0 THEN LucasPrime(a(1).m, c.cert.fs, c.cert.bases) ELSE "unk"
          IN IF small THEN Pick(<<Want("probab_prime_p", r.i[1], B2I(SmallPrime(n))), Want("perfect_power_p", r.i[2], B2I(PerfectPowerSmall(n))),
                                  IF n <= 10000 THEN Want("nextprime", z(1), ZFromInt(NextPrimeSmall(n))) ELSE "">>)
             ELSE IF composite THEN Pick(<<Want("probab_prime_p(composite)", r.i[1], 0), IF distinct THEN Want("perfect_power_p(squarefree)", r.i[2], 0) ELSE "",
                                           Want("nextprime>n", ZCmp(z(1), a(1)) > 0, TRUE)>>)
             ELSE IF lucas = "yes" THEN Pick(<<Want("probab_prime_p(prime)", r.i[1], 1), Want("perfect_power_p(prime)", r.i[2], 0), Want("nextprime>n", ZCmp(z(1), a(1)) > 0, TRUE)>>)
             ELSE "unk"
      [] f = "seq" ->
          LET n == c.n[1] fp == FibPair(n) lp == LucPair(n)
          IN Pick(<<Want("fib_ui", z(1), fp[1]), Want("fib2_ui.a", z(2), fp[1]), Want("fib2_ui.b", z(3), fp[2]), Want("lucnum_ui", z(4), lp[1]),
                    Want("lucnum2_ui.a", z(5), lp[1]), Want("lucnum2_ui.b", z(6), lp[2]), Want("fac_ui", z(7), Z(1, FacN(n))), Want("primorial", z(8), Z(1, Primorial(n)))>>)
      [] f = "bin" -> Want("bin_ui", z(1), Binomial(a(1), c.n[1]))
      [] f = "symb" ->
          LET smallm == ZFits(a(2)) /\ a(2).s * NToInt(a(2).m) \in -2000..2000
              m == a(2).s * NToInt(a(2).m)
          IN Pick(<<IF c.n[1] = 1 THEN Want("legendre", r.i[1], Legendre(a(1), a(2))) ELSE "",
                    IF c.n[2] = 1 THEN Want("jacobi", r.i[2], IF c.n[1] = 1 THEN Legendre(a(1), a(2)) ELSE Jacobi(a(1), m)) ELSE "",
                    IF c.n[1] = 1 THEN Want("kronecker", r.i[3], Legendre(a(1), a(2))) ELSE IF smallm THEN Want("kronecker", r.i[3], Kronecker(a(1), m)) ELSE "">>)
      [] f = "bits" ->
          LET nonneg == a(1).s >= 0 /\ a(2).s >= 0
              fitsU == a(1).s >= 0 /\ NLt(a(1).m, Two64)
              fitsS == (a(1).s >= 0 /\ NLt(a(1).m, Two63)) \/ (a(1).s < 0 /\ NLe(a(1).m, Two63))
          IN Pick(<<IF nonneg THEN Want("and", z(1), Z(1, NAnd(a(1).m, a(2).m))) ELSE "",
                    IF a(1).s # 0 THEN Want("scan1", r.i[1], NTrailingZeros(a(1).m)) ELSE "",
                    Want("fits_ulong_p", r.i[2], B2I(fitsU)), Want("fits_slong_p", r.i[3], B2I(fitsS)),
                    Want("get_hex_str", r.s[1], (IF a(1).s < 0 THEN "-" ELSE "") \o NHex(a(1).m)), Want("set_str", z(2), a(1)),
                    Want("get_si", z(3), IF fitsS THEN a(1) ELSE Z0), Want("get_ui", z(4), IF fitsU THEN a(1) ELSE Z0),
                    Want("get_d/set_d", z(5), IF NLt(a(1).m, Two53) THEN a(1) ELSE Z0)>>)
      [] f = "rat" ->
          LET p == QN(a(1), a(2)) q == QN(a(3), a(4))
              qi == IF q[1].s = 0 THEN <<Z0, Z0>> ELSE QMul(p, QN(q[2], q[1]))
              pw == <<ZPow(p[1], c.n[1]), ZPow(p[2], c.n[1])>>
              pr(k, v) == Pick(<<Want("rat." \o ToString(k) \o ".num", z(2 * k - 1), v[1]), Want("rat." \o ToString(k) \o ".den", z(2 * k), v[2])>>)
              cmp == ZCmp(ZMul(p[1], q[2]), ZMul(q[1], p[2]))
          IN Pick(<<pr(1, p), pr(2, QAdd(p, q)), pr(3, QAdd(p, <<ZNeg(q[1]), q[2]>>)), pr(4, QMul(p, q)), pr(5, qi), pr(6, pw), pr(7, <<ZAbs(p[1]), p[2]>>),
                    Want("rat.sign", r.i[1], p[1].s), Want("rat.cmp", r.i[2], cmp)>>)
      [] OTHER -> "unk"
CheckEv(e) ==
    IF e.r.exc = "VerifAssertionError" THEN "bad:assertion"
    ELSE IF e.r.exc # "" THEN "bad:exception:" \o e.r.exc
    ELSE LET v == CheckMp(e.c, e.r) IN IF v = "" THEN "ok" ELSE v
Events == ndJsonDeserialize(IOEnv.TRACE)
K == INSTANCE TraceKit WITH Check <- CheckEv, Events <- Events
Init == K!Init
Next == K!Next
Verdict == K!Verdict
=============================================================================
