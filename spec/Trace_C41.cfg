INIT Init
NEXT Next
INVARIANT Verdict
CHECK_DEADLOCK FALSE
