------------------------------ MODULE Trace_C22 ------------------------------
(* C22: multivariate polynomial arithmetic against monomial-dictionary      *)
(* arithmetic over the union of the variables.  A polynomial is a bag       *)
(* (sequence) of <<monomial, coefficient>> with monomials as functions from *)
(* variable names to exponents; two bags denote the same polynomial when    *)
(* every monomial has the same total coefficient.                           *)
EXTENDS Integers, Sequences, FiniteSets, TLC, Json, IOUtils, Term, Envs
VARIABLES l, bad, dec

CEnv == [s \in {"a", "b"} |-> IF s = "a" THEN VRat(<<7, 3>>) ELSE VRat(<<-2, 1>>)]
SeqSet(s) == {s[i] : i \in 1..Len(s)}
\* from the case: variable list vs, dictionary d (rows e1..en, coefficient term), over the variables U
FromCase(vs, d, U) == [i \in 1..Len(d) |-> <<[u \in U |-> IF \E j \in 1..Len(vs) : vs[j] = u THEN d[i][CHOOSE j \in 1..Len(vs) : vs[j] = u] ELSE 0],
                                            Val(d[i][Len(vs) + 1], CEnv)>>]
\* from a dump: MIntPoly / MExprPoly [Vars(...), Pair(Exps(...), coef) ...]
DumpVars(t) == [j \in 1..Len(t.a[1].a) |-> t.a[1].a[j].s]
FromDump(t, U) == LET vs == DumpVars(t)
                  IN [i \in 1..(Len(t.a) - 1) |-> <<[u \in U |-> IF \E j \in 1..Len(vs) : vs[j] = u THEN t.a[i + 1].a[1].a[CHOOSE j \in 1..Len(vs) : vs[j] = u].n ELSE 0],
                                                    Val(t.a[i + 1].a[2], CEnv)>>]
RECURSIVE CoefOf(_, _, _)
CoefOf(p, m, i) == IF i > Len(p) THEN V0 ELSE VAdd(IF p[i][1] = m THEN p[i][2] ELSE V0, CoefOf(p, m, i + 1))
Mons(p) == {p[i][1] : i \in 1..Len(p)}
\* "eq" / "ne" / "unk"
SamePoly(p, q) == LET cs == {Cmp3(CoefOf(p, m, 1), CoefOf(q, m, 1)) : m \in Mons(p) \cup Mons(q)}
                  IN IF "ne" \in cs THEN "ne" ELSE IF "unk" \in cs THEN "unk" ELSE "eq"
PAdd(p, q) == p \o q
PNeg(p) == [i \in 1..Len(p) |-> <<p[i][1], VNeg(p[i][2])>>]
PMul(p, q, U) == [k \in 1..(Len(p) * Len(q)) |-> LET i == ((k - 1) \div Len(q)) + 1 j == ((k - 1) % Len(q)) + 1
                                               IN <<[u \in U |-> p[i][1][u] + q[j][1][u]], VMul(p[i][2], q[j][2])>>]
RECURSIVE PPow(_, _, _)
PPow(p, k, U) == IF k = 0 THEN << <<[u \in U |-> 0], V1>> >> ELSE PMul(p, PPow(p, k - 1, U), U)
PEval(p, pt, U) == LET us == CHOOSE s \in [1..Cardinality(U) -> U] : \A i, j \in 1..Cardinality(U) : i # j => s[i] # s[j]
                       term(i) == LET F[j \in 0..Len(us)] == IF j = 0 THEN p[i][2] ELSE VMul(F[j - 1], VPowInt(pt[us[j]], p[i][1][us[j]])) IN F[Len(us)]
                       S[i \in 0..Len(p)] == IF i = 0 THEN V0 ELSE VAdd(S[i - 1], term(i))
                   IN S[Len(p)]
\* structural conditions on a result dump: variables exactly want, no zero coefficient, exponents aligned with the variables
WellFormed(t, want) == /\ SeqSet(DumpVars(t)) = want /\ Len(DumpVars(t)) = Cardinality(want)
                       /\ \A i \in 2..Len(t.a) : Len(t.a[i].a[1].a) = Len(DumpVars(t)) /\ ~(t.a[i].a[2].k = "Int" /\ t.a[i].a[2].n = 0)
Pick(rs) == IF \E i \in 1..Len(rs) : rs[i] \notin {"", "U"}
            THEN rs[CHOOSE i \in 1..Len(rs) : rs[i] \notin {"", "U"} /\ \A j \in 1..(i - 1) : rs[j] \in {"", "U"}]
            ELSE IF \E i \in 1..Len(rs) : rs[i] = "U" THEN "U" ELSE ""
Res(name, o, want, vars, U) ==
    IF o.exc = "VerifAssertionError" THEN "bad:" \o name \o ":assertion"
    ELSE IF o.exc # "" THEN "bad:" \o name \o ":exception:" \o o.exc
    ELSE IF ~WellFormed(o.v, vars) THEN "bad:" \o name \o ":not-normalised(variables / zero coefficient)"
    ELSE LET c == SamePoly(FromDump(o.v, U), want) IN IF c = "ne" THEN "bad:" \o name ELSE IF c = "unk" THEN "U" ELSE ""
CheckEv(e) ==
    IF e.r.exc # "" THEN "bad:harness:" \o e.r.exc
    ELSE LET c == e.c
             r == e.r
             av == SeqSet(c.av)
             bv == SeqSet(c.bv)
             U == av \cup bv
             A == FromCase(c.av, c.a, U)
             B == FromCase(c.bv, c.b, U)
             pt == [u \in {"x", "y", "z", "w"} |-> Val(c.pt[u], CEnv)]
             ptenv == [u \in {"x", "y", "z", "w", "a", "b"} |-> IF u \in {"a", "b"} THEN CEnv[u] ELSE pt[u]]
             ValEq(name, o, want) == IF o.exc # "" THEN "bad:" \o name \o ":exception:" \o o.exc
                                     ELSE LET cc == Cmp3(Val(o.v, ptenv), want) IN IF cc = "ne" THEN "bad:" \o name ELSE IF cc = "unk" THEN "U" ELSE ""
             why == Pick(<< Res("from_dict", r.a, A, av, U), Res("from_dict", r.b, B, bv, U),
                            Res("add_mpoly", r.add, PAdd(A, B), U, U), Res("sub_mpoly", r.sub, PAdd(A, PNeg(B)), U, U),
                            Res("mul_mpoly", r.mul, PMul(A, B, U), U, U), Res("neg_mpoly", r.neg, PNeg(A), av, U),
                            Res("pow_mpoly", r.pow, PPow(A, c.k, U), av, U),
                            ValEq("eval", r.eval, PEval(A, pt, U)), ValEq("eval(product)", r.evalmul, PEval(PMul(A, B, U), pt, U)),
                            ValEq("as_symbolic", r.sym, PEval(A, pt, U)), ValEq("as_symbolic(product)", r.symmul, PEval(PMul(A, B, U), pt, U)),
                            IF r.back.exc # "" THEN "bad:from_basic:exception:" \o r.back.exc
                            ELSE (LET cc == SamePoly(FromDump(r.back.v, U), A) IN IF cc = "ne" THEN "bad:from_basic(as_symbolic)" ELSE IF cc = "unk" THEN "U" ELSE ""),
                            IF r.backmul.exc # "" THEN "bad:from_basic(product):exception:" \o r.backmul.exc
                            ELSE (LET cc == SamePoly(FromDump(r.backmul.v, U), PMul(A, B, U)) IN IF cc = "ne" THEN "bad:from_basic(as_symbolic(product))" ELSE IF cc = "unk" THEN "U" ELSE ""),
                            IF r.fromprod.exc # "" THEN "bad:from_basic(expand):exception:" \o r.fromprod.exc
                            ELSE (LET cc == SamePoly(FromDump(r.fromprod.v, U), PMul(A, B, U)) IN IF cc = "ne" THEN "bad:from_basic(expand(a*b))" ELSE IF cc = "unk" THEN "U" ELSE ""),
                            IF c.kind # "Int" THEN "" ELSE IF r.backauto.exc # "" THEN "bad:from_basic(automatic generators):exception:" \o r.backauto.exc
                            ELSE (LET cc == SamePoly(FromDump(r.backauto.v, U), A) IN IF cc = "ne" THEN "bad:from_basic(automatic generators)" ELSE IF cc = "unk" THEN "U" ELSE ""),
                            IF r.eqself.exc = "" /\ r.eqself.v # 1 THEN "bad:add-not-commutative" ELSE "" >>)
         IN IF why = "" THEN "ok" ELSE IF why = "U" THEN "unk" ELSE why
Events == ndJsonDeserialize(IOEnv.TRACE)
K == INSTANCE TraceKit WITH Check <- CheckEv, Events <- Events
Init == K!Init
Next == K!Next
Verdict == K!Verdict
=============================================================================
