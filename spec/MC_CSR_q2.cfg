SPECIFICATION Spec
CONSTANTS
  Rows = 3
  Cols = 3
  Vals = {0, 1}
  Variant = "code"
  EmitOn = TRUE
INVARIANTS StaysCanonical GetReadsDense SetRefinesDense Emit
CHECK_DEADLOCK FALSE
