SPECIFICATION Spec
CONSTANTS
  Rows = 1
  Cols = 6
  Vals = {0, 1}
  Variant = "skipone"
  EmitOn = FALSE
INVARIANTS StaysCanonical GetReadsDense SetRefinesDense Emit
CHECK_DEADLOCK FALSE
