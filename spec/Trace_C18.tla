------------------------------ MODULE Trace_C18 ------------------------------
(* C18: the parser as a state machine with no state: the outcome of         *)
(* parse(s) on a reused parser object is the outcome of a fresh parse of s, *)
(* whatever was parsed (or failed to parse) before; every outcome is an     *)
(* expression or a library exception.  (Crashes, hangs and sanitizer        *)
(* reports end the harness and are attributed to the case by the driver.)   *)
EXTENDS Integers, Sequences, FiniteSets, TLC, Json, IOUtils
VARIABLES l, bad, dec
LibraryExc == {"", "ParseError", "SymEngineException", "DivisionByZeroError", "NotImplementedError", "DomainError", "std::invalid_argument", "std::out_of_range"}
CheckEv(e) ==
    IF e.r.exc # "" THEN "bad:harness:" \o e.r.exc
    ELSE LET n == Len(e.r.reused)
         IN IF \E i \in 1..n : e.r.reused[i].exc = "VerifAssertionError" \/ e.r.fresh[i].exc = "VerifAssertionError" THEN "bad:assertion"
            ELSE IF \E i \in 1..n : e.r.fresh[i].exc \notin LibraryExc THEN "bad:foreign-exception:" \o e.r.fresh[CHOOSE i \in 1..n : e.r.fresh[i].exc \notin LibraryExc].exc
            ELSE IF \E i \in 1..n : e.r.sbml[i].exc \notin LibraryExc THEN "bad:foreign-exception(parse_sbml):" \o e.r.sbml[CHOOSE i \in 1..n : e.r.sbml[i].exc \notin LibraryExc].exc
            ELSE IF \E i \in 1..n : e.r.reused[i] # e.r.fresh[i] THEN "bad:reused-parser-differs-at-input-" \o ToString(CHOOSE i \in 1..n : e.r.reused[i] # e.r.fresh[i])
            ELSE "ok"
Events == ndJsonDeserialize(IOEnv.TRACE)
K == INSTANCE TraceKit WITH Check <- CheckEv, Events <- Events
Init == K!Init
Next == K!Next
Verdict == K!Verdict
=============================================================================
