------------------------------- MODULE MC_Num -------------------------------
(* Case generation for C05: every ordered pair of exact numbers from a      *)
(* small grid under every operation.  Constant-level: the "model" is the    *)
(* finite set of API calls, written out for replay on the real library.     *)
EXTENDS Integers, Sequences, FiniteSets, TLC, Json, IOUtils, SequencesExt, Term

Thorough == "TIER" \in DOMAIN IOEnv /\ IOEnv.TIER = "thorough"
NMax == IF Thorough THEN 6 ELSE 4
DMax == IF Thorough THEN 6 ELSE 4
Rats == {RMk(n, d) : n \in -NMax..NMax, d \in 1..DMax}
RatLit(q) == TRat(q[1], q[2])
GParts == {<<0, 1>>, <<1, 1>>, <<-1, 1>>, <<1, 2>>, <<-3, 2>>, <<2, 1>>}
GaussLits == {TComplex(RatLit(re), RatLit(im)) : re \in GParts, im \in GParts \ {<<0, 1>>}}
Operands == {RatLit(q) : q \in Rats} \cup GaussLits
Exps == {TInt(k) : k \in -4..4}

Case(f, a, b) == [op |-> "numop", f |-> f, a |-> a, b |-> b]
Cases == {Case(f, a, b) : f \in {"add", "sub", "mul", "div"}, a \in Operands, b \in Operands}
         \cup {Case("pow", a, e) : a \in Operands, e \in Exps}

ASSUME PrintT(<<"cases", Cardinality(Cases)>>)
ASSUME ndJsonSerialize(IOEnv.OUT, SetToSeq(Cases))
VARIABLE dummy
Init == dummy = 0
Next == UNCHANGED dummy
=============================================================================
