INIT TInit
NEXT TNext
CONSTANTS
  Depth = 1
  Kind = "trace"
  OutLists <- RealOutLists
  InVecs <- RealVecs
INVARIANT Verdict
CHECK_DEADLOCK FALSE
