------------------------------ MODULE Trace_C41 ------------------------------
(* C41: what module Conc's invariants say about the quiescent state after   *)
(* several threads used the same objects, checked on the real library in a  *)
(* build configured WITH_SYMENGINE_THREAD_SAFE: every thread obtained, in   *)
(* every repetition, the results of a sequential run (HashStable and the    *)
(* determinism of every operation); the reference counts of the shared      *)
(* objects are what they were before (CountsRestored); the Dummy indices    *)
(* drawn concurrently are pairwise distinct and none is missing             *)
(* (DummiesDistinct, AllDummies).  Data races proper are reported by the    *)
(* ThreadSanitizer build, which aborts the case (driver).                   *)
EXTENDS Integers, Sequences, FiniteSets, TLC, Json, IOUtils
VARIABLES l, bad, dec
CheckEv(e) ==
    IF e.r.exc # "" THEN "bad:harness:" \o e.r.exc
    ELSE LET r == e.r
             T == Len(r.thr)
             excs == {t \in 1..T : r.thr[t].exc # ""}
             diffs == {t \in 1..T : r.thr[t].same # 1}
             ids == {r.dummies[i] : i \in 1..Len(r.dummies)}
         IN IF T # e.c.threads THEN "bad:threads-missing"
            ELSE IF excs # {} THEN "bad:exception-in-thread:" \o r.thr[CHOOSE t \in excs : TRUE].exc
            ELSE IF diffs # {} THEN "bad:result-differs-from-sequential-run:" \o r.thr[CHOOSE t \in diffs : TRUE].first_diff
            ELSE IF r.counts1 # r.counts0 THEN "bad:reference-counts-not-restored"
            ELSE IF Len(r.dummies) # e.c.threads * e.c.reps THEN "bad:dummy-indices-missing"
            ELSE IF Cardinality(ids) # Len(r.dummies) THEN "bad:dummy-indices-repeat"
            ELSE IF r.live # 0 THEN "bad:objects-survive"
            ELSE "ok"
Events == ndJsonDeserialize(IOEnv.TRACE)
K == INSTANCE TraceKit WITH Check <- CheckEv, Events <- Events
Init == K!Init
Next == K!Next
Verdict == K!Verdict
=============================================================================
