SPECIFICATION Spec
CONSTANTS
  Threads = {1, 2, 3}
  Rounds = 2
  Atomic = TRUE
  H = 7
INVARIANTS NeverFreedWhileShared CountCoversHolders CountsRestored HashStable DummiesDistinct AllDummies
CHECK_DEADLOCK FALSE
