INIT Init
NEXT Next
