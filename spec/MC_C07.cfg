INIT Init
NEXT Next
