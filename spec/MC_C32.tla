------------------------------- MODULE MC_C32 -------------------------------
(* Cases for C32: argument tuples of the number-theoretic functions.        *)
EXTENDS Integers, Sequences, FiniteSets, TLC, Json, IOUtils, SequencesExt, Randomization
Thorough == "TIER" \in DOMAIN IOEnv /\ IOEnv.TIER = "thorough"
Sub(S, n) == IF Thorough \/ Cardinality(S) <= n THEN S ELSE RandomSubset(n, S)
N1 == (0..130) \cup {162, 242, 250, 338, 486, 578, 686, 144, 169, 210, 243, 256, 289, 343, 512, 625, 729, 841, 1000, 1024, 1331, 2048, 2187, 2197, 2310}
C1 == {[op |-> "nt1", n |-> n] : n \in N1}
C2 == {[op |-> "nt2", a |-> a, b |-> b] : a \in -12..12, b \in -12..12}
      \cup {[op |-> "nt2", a |-> a, b |-> b] : a \in {13, 15, 17, 20, 23, 24, 30, 31, 36, 45, 63, 64, 97, 100, -15, -23, -30}, b \in Sub(1..45, 25) \cup {-7, -9, -16, 0}}
Exps == {<<1, 2>>, <<1, 3>>, <<2, 3>>, <<3, 2>>, <<-1, 2>>, <<2, 1>>, <<-2, 1>>, <<3, 4>>, <<1, 6>>, <<0, 1>>, <<-3, 1>>, <<5, 1>>}
C3 == {[op |-> "nt3", a |-> a, n |-> n, m |-> m, r |-> e[1], s |-> e[2]]
       : a \in Sub((0..9) \cup {-3, 10, 17, 25}, 8), n \in 1..4, m \in Sub(1..24, 14), e \in Sub(Exps, 5)}
ASSUME PrintT(<<"cases", Cardinality(C1), Cardinality(C2), Cardinality(C3)>>)
ASSUME ndJsonSerialize(IOEnv.OUT, SetToSeq(C1 \cup C2 \cup C3))
VARIABLE dummy
Init == dummy = 0
Next == UNCHANGED dummy
=============================================================================
