INIT Init
NEXT Next
