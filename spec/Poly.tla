--------------------------------- MODULE Poly ---------------------------------
(* Univariate polynomials as coefficient sequences over guarded rationals     *)
(* (element i is the coefficient of x^(i-1); no trailing zero; <<>> is 0):    *)
(* schoolbook arithmetic, evaluation, derivative, exact division; and a       *)
(* transcription of the Kronecker-substitution product of UIntDict::mul.      *)
EXTENDS Integers, Sequences, FiniteSets, Rat

RECURSIVE PTrim(_)
PTrim(p) == IF Len(p) = 0 THEN p ELSE IF p[Len(p)] = R0 THEN PTrim(SubSeq(p, 1, Len(p) - 1)) ELSE p
PDef(p) == \A i \in 1..Len(p) : RDef(p[i])
PCoef(p, i) == IF i <= Len(p) THEN p[i] ELSE R0        \* i = degree + 1
PMax(a, b) == IF a > b THEN a ELSE b
PAdd(a, b) == PTrim([i \in 1..PMax(Len(a), Len(b)) |-> RAdd(PCoef(a, i), PCoef(b, i))])
PNeg(a) == [i \in 1..Len(a) |-> RNeg(a[i])]
PSub(a, b) == PAdd(a, PNeg(b))
RECURSIVE ConvSum(_, _, _, _)
\* sum over i of a[i] * b[k + 1 - i]
ConvSum(a, b, k, i) == IF i > Len(a) THEN R0
                       ELSE IF k + 1 - i >= 1 /\ k + 1 - i <= Len(b)
                            THEN RAdd(RMul(a[i], b[k + 1 - i]), ConvSum(a, b, k, i + 1))
                            ELSE ConvSum(a, b, k, i + 1)
PMul(a, b) == IF Len(a) = 0 \/ Len(b) = 0 THEN <<>>
              ELSE PTrim([k \in 1..(Len(a) + Len(b) - 1) |-> ConvSum(a, b, k, 1)])
RECURSIVE PPow(_, _)
PPow(a, k) == IF k = 0 THEN <<R1>> ELSE PMul(a, PPow(a, k - 1))
RECURSIVE HornerFrom(_, _, _)
HornerFrom(p, x, i) == IF i > Len(p) THEN R0 ELSE RAdd(p[i], RMul(x, HornerFrom(p, x, i + 1)))
PEval(p, x) == HornerFrom(p, x, 1)
PDiff(p) == IF Len(p) <= 1 THEN <<>> ELSE PTrim([i \in 1..(Len(p) - 1) |-> RMul(<<i, 1>>, p[i + 1])])

\* exact division a / b over the rationals: quotient or "none"
RECURSIVE PDivLoop(_, _, _)
PDivLoop(rem, b, q) ==      \* rem, q sequences; b non-zero
    IF Len(rem) = 0 THEN [ok |-> TRUE, q |-> PTrim(q)]
    ELSE IF Len(rem) < Len(b) THEN [ok |-> FALSE, q |-> <<>>]
    ELSE LET d == Len(rem) - Len(b)                 \* degree of the next quotient term
             c == RDiv(rem[Len(rem)], b[Len(b)])
             term == [i \in 1..(d + 1) |-> IF i = d + 1 THEN c ELSE R0]
             rem2 == PSub(rem, PMul(term, b))
         IN IF ~RDef(c) \/ ~PDef(rem2) \/ Len(rem2) >= Len(rem) THEN [ok |-> FALSE, q |-> <<RU>>]
            ELSE PDivLoop(rem2, b, [i \in 1..PMax(Len(q), d + 1) |-> IF i = d + 1 THEN c ELSE PCoef(q, i)])
PDivides(b, a) == IF Len(b) = 0 THEN [ok |-> FALSE, q |-> <<>>] ELSE PDivLoop(a, b, <<>>)

\* ---------------------------------------------------------------- UIntDict::mul
\* integer coefficient sequences (plain integers); N = digit width in bits
IAbsP(x) == IF x < 0 THEN -x ELSE x
RECURSIVE BitLen(_)
BitLen(n) == IF n = 0 THEN 0 ELSE 1 + BitLen(n \div 2)
MaxAbs(p) == LET S == {IAbsP(p[i]) : i \in 1..Len(p)} IN CHOOSE m \in S : \A s \in S : s <= m
RECURSIVE ISum(_, _, _, _)
ISum(a, b, k, i) == IF i > Len(a) THEN 0
                    ELSE (IF k + 1 - i >= 1 /\ k + 1 - i <= Len(b) THEN a[i] * b[k + 1 - i] ELSE 0) + ISum(a, b, k, i + 1)
ISchool(a, b) == [k \in 1..(Len(a) + Len(b) - 1) |-> ISum(a, b, k, 1)]
RECURSIVE Pow2I2(_)
Pow2I2(n) == IF n = 0 THEN 1 ELSE 2 * Pow2I2(n - 1)
\* carry left after propagating all coefficients: s = (digits) + carry * B^n, so s < 0 iff carry < 0
RECURSIVE FinalCarry(_, _, _, _)
FinalCarry(c, k, carry, B) == IF k > Len(c) THEN carry ELSE FinalCarry(c, k + 1, (c[k] + carry) \div B, B)
\* the base-2^N digits of |s|, s = sum c_k 2^(N k), from the coefficients c_k by carry propagation
RECURSIVE DigitsOf(_, _, _, _)
DigitsOf(c, k, carry, B) ==
    IF k > Len(c) THEN (IF carry = 0 THEN <<>> ELSE <<carry % B>> \o DigitsOf(c, k, carry \div B, B))
    ELSE LET t == c[k] + carry IN <<t % B>> \o DigitsOf(c, k + 1, t \div B, B)
\* the decoding loop of the code on the digit sequence
RECURSIVE Decode(_, _, _, _, _)
Decode(dg, k, carry, B, mul) ==
    IF k > Len(dg) THEN (IF carry = 0 THEN <<>> ELSE <<mul * carry>>)
    ELSE IF dg[k] < B \div 2 THEN <<mul * (dg[k] + carry)>> \o Decode(dg, k + 1, 0, B, mul)
         ELSE <<mul * (dg[k] - B + carry)>> \o Decode(dg, k + 1, 1, B, mul)
RECURSIVE ITrim(_)
ITrim(p) == IF Len(p) = 0 THEN p ELSE IF p[Len(p)] = 0 THEN ITrim(SubSeq(p, 1, Len(p) - 1)) ELSE p
\* extra = 0: the digit width of the code before the repair; extra = 1: after it
KronMul(a, b, extra) ==
    IF Len(a) = 0 \/ Len(b) = 0 THEN <<>>
    ELSE LET m == IF Len(a) < Len(b) THEN Len(a) ELSE Len(b)
             N == BitLen(m) + BitLen(MaxAbs(a)) + BitLen(MaxAbs(b)) + extra
             B == Pow2I2(N)
             c == ISchool(a, b)
             sg == IF FinalCarry(c, 1, 0, B) < 0 THEN -1 ELSE 1     \* sign of s = a(2^N) * b(2^N)
             cabs == [k \in 1..Len(c) |-> sg * c[k]]
             dg == DigitsOf(cabs, 1, 0, B)
         IN ITrim(Decode(dg, 1, 0, B, sg))
=============================================================================
