INIT Init
NEXT Next
