INIT Init
NEXT Next
