INIT Init
NEXT Next
