------------------------------ MODULE MC_Lambda ------------------------------
(* All histories of init/call up to Depth on one evaluator object; every    *)
(* maximal history is written out for replay on a real visitor object.      *)
EXTENDS Lambda, TLC, Json, IOUtils
CONSTANTS Depth, Kind
VARIABLE hist
vars == <<lvars, hist>>

\* ---- data: expressions with shared sub-terms (so that cse finds 0, 1, 2 or 3 replacements and
\* the buffer of intermediate results changes size between initialisations), every supported
\* arithmetic / piecewise / rounding node on the exact fragment, and transcendental nodes
x == TSym("x")
y == TSym("y")
z == TSym("z")
B(k, a, b) == TOp(k, <<a, b>>)
U(k, a) == TOp(k, <<a>>)
xy2 == B("add", B("mul", x, y), TInt(2))
xpy == B("add", x, y)
xmy == B("sub", x, y)
RealOutLists == <<
  << xy2, B("sub", B("pow", xy2, TInt(2)), x) >>,
  << B("add", U("sin", xpy), U("cos", xpy)), B("pow", xpy, TInt(3)), xmy, U("exp", B("mul", xpy, xmy)) >>,
  << x >>,
  << B("mul", U("abs", xmy), U("floor", B("div", x, TInt(2)))), B("add", TOp("max", <<x, y, TInt(1)>>), TOp("min", <<x, y>>)),
     B("mul", U("sign", xmy), B("pow", B("mul", x, y), TInt(2))),
     TOp("piecewise", <<x, B("Lt", x, y), B("mul", y, xmy), T("True", <<>>, "", 0, 0)>>),
     U("ceiling", B("div", xmy, TInt(4))), U("truncate", B("div", B("mul", x, y), TInt(4))) >>,
  << B("add", B("mul", xpy, z), B("pow", B("mul", xpy, z), TInt(2))), B("div", B("mul", xpy, z), B("add", B("pow", z, TInt(2)), TInt(1))),
     B("pow", B("add", B("pow", z, TInt(2)), TInt(1)), TInt(-1)), U("sqrt", B("add", B("pow", xmy, TInt(2)), TInt(4))) >> >>
ComplexOutLists == <<
  << xy2, B("sub", B("pow", xy2, TInt(2)), x) >>,
  << B("add", U("sin", xpy), U("cos", xpy)), B("pow", xpy, TInt(3)), xmy, U("exp", B("mul", xpy, xmy)) >>,
  << B("mul", TI, x) >>,
  << B("add", B("mul", xpy, z), B("pow", B("mul", xpy, z), TInt(2))), B("div", B("mul", xpy, z), B("add", B("pow", z, TInt(2)), TInt(1))),
     U("cosh", B("mul", xpy, z)), B("mul", B("add", xmy, TI), B("sub", xmy, TI)) >> >>
RealVecs == << <<TDbl(1, 1, 1), TDbl(1, 3, 0), TDbl(-1, 1, 0)>>, <<TDbl(-1, 3, -1), TDbl(1, 1, -1), TDbl(1, 1, 2)>>,
               <<TDbl(1, 1, 2), TDbl(-1, 1, 1), TDbl(1, 3, -1)>> >>
ComplexVecs == << <<TCDbl(TDbl(1, 1, 1), TDbl(1, 1, 0)), TCDbl(TDbl(1, 3, 0), TDbl(-1, 1, 0)), TCDbl(TDbl(-1, 1, 0), TDblZero(1))>>,
                  <<TCDbl(TDbl(-1, 3, -1), TDbl(1, 1, -1)), TCDbl(TDblZero(1), TDbl(1, 1, 1)), TCDbl(TDbl(1, 1, 1), TDbl(1, 1, 1))>> >>

Init == LInit /\ hist = <<>>
Next == /\ Len(hist) < Depth
        /\ \/ \E c \in 1..Len(OutLists), b \in BOOLEAN :
                 DoInit(c, b) /\ hist' = Append(hist, [a |-> "init", c |-> c, cse |-> IF b THEN 1 ELSE 0, v |-> 0])
           \/ \E v \in 1..Len(InVecs) :
                 DoCall(v) /\ hist' = Append(hist, [a |-> "call", c |-> cfg, cse |-> IF cse THEN 1 ELSE 0, v |-> v])
Spec == Init /\ [][Next]_vars

\* history independence of the model itself: the result of a call is a function of the last init
LastInit(h, i) == CHOOSE j \in 1..i : h[j].a = "init" /\ \A k \in (j + 1)..i : h[k].a # "init"
CallsSeeLastInit ==
    \A i \in 1..Len(hist) : hist[i].a = "call" => hist[i].c = hist[LastInit(hist, i)].c

\* the data (expressions and input vectors) is written once, ahead of the behaviours
ASSUME "OUT" \in DOMAIN IOEnv =>
       Serialize(ToJson([op |-> "lambda_data", kind |-> Kind, outs |-> OutLists, vecs |-> InVecs]) \o "\n",
                 IOEnv.OUT, [format |-> "TXT", charset |-> "UTF-8",
                             openOptions |-> <<"WRITE", "CREATE", "APPEND">>]).exitValue = 0
\* a behaviour is worth replaying when it ends in a call
Emit == (Len(hist) = Depth /\ hist[Depth].a = "call") =>
          Serialize(ToJson([op |-> "lambda", kind |-> Kind, steps |-> hist]) \o "\n",
                    IOEnv.OUT, [format |-> "TXT", charset |-> "UTF-8",
                                openOptions |-> <<"WRITE", "CREATE", "APPEND">>]).exitValue = 0
=============================================================================
