-------------------------------- MODULE Num --------------------------------
(* The extended number tower: kinds of number objects, their canonical     *)
(* representation, and the arithmetic contract of properties C05 / C06.    *)
EXTENDS Integers, Sequences, FiniteSets, Rat, ModP, ValCore, Func, Term

NumKinds == {"Int", "Rat", "Big", "BigRat", "Complex", "Dbl", "CDbl", "Inf", "NaN"}
IsExactKind(t) == t.k \in {"Int", "Rat", "Big", "BigRat", "Complex"}
IsFloatKind(t) == t.k \in {"Dbl", "CDbl"}
IsFiniteFloat(t) == \/ t.k = "Dbl" /\ t.s \in {"fin", "zero"}
                    \/ t.k = "CDbl" /\ t.a[1].s \in {"fin", "zero"} /\ t.a[2].s \in {"fin", "zero"}

\* canonical representation of exact numbers (C05 "normalised")
CanonReal(t) == \/ t.k = "Int"
                \/ t.k = "Big" /\ Len(t.a) > 0 /\ t.a[Len(t.a)].n # 0
                \/ t.k = "Rat" /\ t.d > 1 /\ Gcd(IAbs(t.n), t.d) = 1
                \/ t.k = "BigRat"
CanonNumber(t) ==
    CASE t.k \in {"Int", "Rat", "Big", "BigRat"} -> CanonReal(t)
      [] t.k = "Complex" -> /\ CanonReal(t.a[1]) /\ CanonReal(t.a[2])
                            /\ ~(t.a[2].k = "Int" /\ t.a[2].n = 0)
      [] t.k = "Inf" -> t.a[1].k = "Int" /\ t.a[1].n \in {-1, 0, 1}
      [] t.k \in {"NaN", "Dbl", "CDbl"} -> TRUE
      [] OTHER -> FALSE

NoEnv == [zz \in {} |-> VUndef]
NVal(t) == Val(t, NoEnv)

\* the arithmetic of the statement on values
NumOp(f, A, B) ==
    CASE f = "add" -> VAdd(A, B)
      [] f = "sub" -> VSub(A, B)
      [] f = "mul" -> VMul(A, B)
      [] f = "div" -> VDiv(A, B)
      [] f = "pow" -> VPow(A, B)
      [] OTHER -> VUndef

\* does the dumped result t agree with the expected value E ?
\* "ok" / "unk" / "bad:..."
AgreeExact(t, E) ==
    IF E.t = "undef" THEN "unk"
    ELSE IF ~CanonNumber(t) THEN "bad:not-normalised"
    ELSE LET V == NVal(t)
         IN IF V.t = "undef" THEN "unk"
            ELSE IF E.t # V.t THEN "bad:kind"
            ELSE IF ~IsNum(E) THEN "ok"
            ELSE IF ~Exact(E) \/ ~Exact(V) THEN "unk"
            ELSE IF E.re = V.re /\ E.im = V.im /\ E.pi = V.pi /\ E.ip = V.ip THEN "ok"
            ELSE "bad:value"
=============================================================================
