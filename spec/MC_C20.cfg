INIT Init
NEXT Next
