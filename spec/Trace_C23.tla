------------------------------ MODULE Trace_C23 ------------------------------
(* C23: GF(p) polynomial operations against arithmetic modulo p by          *)
(* definition; factorisations against their contract (monic, irreducible,   *)
(* distinct factors whose product times the leading coefficient is the      *)
(* input).                                                                  *)
EXTENDS GF, TLC, Json, IOUtils
VARIABLES l, bad, dec

Cmp(name, r, want) == IF r.exc # "" THEN "bad:" \o name \o ":exception:" \o r.exc
                      ELSE IF r.c = want THEN "" ELSE "bad:" \o name
\* Pick: the first reason of a list ("" when there is none); First: the verdict of the event
Pick(rs) == IF \E i \in 1..Len(rs) : rs[i] # ""
            THEN rs[CHOOSE i \in 1..Len(rs) : rs[i] # "" /\ \A j \in 1..(i - 1) : rs[j] = ""] ELSE ""
First(rs) == IF Pick(rs) = "" THEN "ok" ELSE Pick(rs)
\* a coefficient list in normal form: entries in 0..p-1, no trailing zero
WellFormed(f, p) == (\A i \in 1..Len(f) : f[i] \in 0..(p - 1)) /\ (Len(f) > 0 => f[Len(f)] # 0)
Distinct(fs) == \A i \in 1..Len(fs) : \A j \in 1..Len(fs) : i # j => fs[i].c # fs[j].c
AsFac(cs) == [i \in 1..Len(cs) |-> [c |-> cs[i], m |-> 1]]

CheckEv(e) ==
    IF e.r.exc # "" THEN "bad:harness:" \o e.r.exc
    ELSE LET p == e.c.p
             a == GNorm(e.c.a, p)
             b == GNorm(e.c.b, p)
             k == e.c.k
             r == e.r
             dm == GDivMod(a, b, p)
             lcA == IF Len(a) = 0 THEN 0 ELSE a[Len(a)]
             divOK == IF Len(b) = 0 THEN (IF r.dive = "" THEN "bad:div-by-zero-accepted" ELSE "")
                      ELSE IF r.dive # "" THEN "bad:div:exception:" \o r.dive
                      ELSE IF r.quo.c # dm.q THEN "bad:quo" ELSE IF r.rem.c # dm.r THEN "bad:rem" ELSE ""
             \* (a constant modulus gives the trivial ring: not a meaningful argument)
             modOK == IF Len(b) <= 1 THEN ""
                      ELSE Pick(<<Cmp("pow_mod", r.powmod, GDivMod(GPow(a, k, p), b, p).r),
                                   Cmp("compose_mod", r.compmod, GCompose(a, a, 1, b, p))>>)
             gcdOK == IF Len(a) = 0 /\ Len(b) = 0 THEN ""
                      ELSE Cmp("gcd", r.gcd, GGcd(a, b, p))
             lcmOK == IF Len(a) = 0 \/ Len(b) = 0 THEN ""
                      ELSE Cmp("lcm", r.lcm, GMonic(GDivMod(GMul(a, b, p), GGcd(a, b, p), p).q, p))
             evOK == IF r.evale # "" THEN "bad:eval:exception"
                     ELSE IF r.eval # [x \in 1..p |-> GEval(a, x - 1, p)] THEN "bad:eval" ELSE ""
             monOK == IF Len(a) = 0 THEN "" ELSE IF r.monice # "" THEN "bad:monic:exception"
                      ELSE IF r.monic.c # GMonic(a, p) \/ r.lc # lcA THEN "bad:monic" ELSE ""
             \* square-free decomposition: product of f_i^i times lc = a, parts square-free
             sqfOK == IF Len(a) = 0 THEN "" ELSE IF r.sqfe # "" THEN "bad:sqf:exception:" \o r.sqfe
                      ELSE IF (r.issqf = 1) # SquareFree(a, p) THEN "bad:is_sqf"
                      ELSE IF \E i \in 1..Len(r.sqf) : ~WellFormed(r.sqf[i].c, p) \/ r.sqf[i].m < 1 THEN "bad:sqf_list:not-normalised"
                      ELSE IF Scale(ProdPow(r.sqf, 1, p), lcA, p) # a THEN "bad:sqf_list:product"
                      ELSE IF \E i \in 1..Len(r.sqf) : Len(r.sqf[i].c) >= 2 /\ ~SquareFree(r.sqf[i].c, p) THEN "bad:sqf_list:part-not-square-free"
                      ELSE ""
             facOK == IF Len(a) = 0 THEN "" ELSE IF r.face # "" THEN "bad:factor:exception:" \o r.face
                      ELSE IF r.faclc # lcA THEN "bad:factor:lc"
                      ELSE IF \E i \in 1..Len(r.fac) : ~WellFormed(r.fac[i].c, p) \/ r.fac[i].m < 1 THEN "bad:factor:not-normalised"
                      ELSE IF Scale(ProdPow(r.fac, 1, p), lcA, p) # a THEN "bad:factor:product"
                      ELSE IF \E i \in 1..Len(r.fac) : ~Irreducible(r.fac[i].c, p) \/ r.fac[i].c[Len(r.fac[i].c)] # 1 THEN "bad:factor:not-monic-irreducible"
                      ELSE IF ~Distinct(r.fac) THEN "bad:factor:repeated" ELSE ""
             algOK(runs, name) ==
                      IF \E i \in 1..Len(runs) : \E j \in 1..Len(runs[i]) : ~WellFormed(runs[i][j], p) THEN "bad:" \o name \o ":not-normalised"
                      ELSE IF \E i \in 1..Len(runs) :
                            \/ ProdPow(AsFac(runs[i]), 1, p) # GMonic(a, p)
                            \/ \E j \in 1..Len(runs[i]) : ~Irreducible(runs[i][j], p)
                      THEN "bad:" \o name ELSE ""
         IN First(<< Cmp("from_vec", r.a, a), Cmp("add", r.add, GAdd(a, b, p)), Cmp("sub", r.sub, GSub(a, b, p)),
                     Cmp("mul", r.mul, GMul(a, b, p)), Cmp("neg", r.neg, GNeg(a, p)),
                     Cmp("add_scalar", r.addc, GAdd(a, GNorm(<<3>>, p), p)),
                     divOK, Cmp("pow", r.pow, GPow(a, k, p)), Cmp("sqr", r.sqr, GMul(a, a, p)), modOK, gcdOK, lcmOK,
                     Cmp("diff", r.diff, GDiff(a, p)), monOK, evOK, sqfOK, facOK,
                     IF r.alge # "" THEN "bad:zassenhaus/shoup:exception:" \o r.alge ELSE "",
                     algOK(r.zas, "zassenhaus"), algOK(r.sho, "shoup") >>)

Events == ndJsonDeserialize(IOEnv.TRACE)
K == INSTANCE TraceKit WITH Check <- CheckEv, Events <- Events
Init == K!Init
Next == K!Next
Verdict == K!Verdict
=============================================================================
