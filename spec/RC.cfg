SPECIFICATION Spec
CONSTANTS
  MaxObj = 4
  MaxHandles = 3
  Cascade = TRUE
INVARIANTS CountsExact ChildrenLive QuiescentIsEmpty
CHECK_DEADLOCK FALSE
