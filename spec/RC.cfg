SPECIFICATION Spec
CONSTANTS
  MaxObj = 4
  MaxHandles = 3
  ReleaseFirst = FALSE
  Cascade = TRUE
INVARIANTS CountsExact ChildrenLive HandlesLive QuiescentIsEmpty
CHECK_DEADLOCK FALSE
