----------------------------- MODULE Trace_Sieve -----------------------------
(* Trace validation for the sieve: every recorded execution (one behaviour  *)
(* of MC_Sieve or of the random driver, replayed on the real Sieve) is      *)
(* re-run through the actions of module Sieve; each logged result must be   *)
(* the result the specification computes in the same state.  Executions are *)
(* concatenated; Reset re-initialises the specification state between them. *)
EXTENDS Sieve, TLC, Json, IOUtils

Events == ndJsonDeserialize(IOEnv.TRACE)
VARIABLES l,      \* current execution
          j,      \* current step in it
          ph,     \* "exec": take the step's action;  "cmp": compare the logged result
          bad, dec
tvars == <<sieveVars, l, j, ph, bad, dec>>

Steps(e) == e.r.steps
Reset == /\ buf' = First10 /\ size' = 10 /\ clearFlag' = TRUE /\ seg' = 8
         /\ iters' = [k \in {} |-> 0] /\ out' = <<>> /\ oob' = FALSE

Init == SieveInit /\ l = 1 /\ j = 1 /\ ph = "exec" /\ bad = <<>> /\ dec = 0

\* the specification action named by a logged step (falls back to a stutter
\* of the sieve state when the step is not enabled in the specification)
Act(s) ==
    CASE s.a = "Generate" -> Generate(s.n)
      [] s.a = "Clear" -> Clear
      [] s.a = "SetClear" -> SetClear(s.n = 1)
      [] s.a = "SetSegBits" -> SetSegBits(s.n)
      [] s.a = "SetSieveSize" -> SetSieveSize(s.n)
      [] s.a = "IterNew" -> IterNew(s.k, s.n)
      [] s.a = "IterNext" -> IterNext(s.k)
      [] s.a = "IterDestroy" -> IterDestroy(s.k)

NextEvent(why) ==
    /\ Reset /\ l' = l + 1 /\ j' = 1 /\ ph' = "exec"
    /\ bad' = IF why = "" THEN bad ELSE Append(bad, [id |-> Events[l].c.id, why |-> why])
    /\ dec' = dec + 1

Next ==
    /\ l <= Len(Events)
    /\ LET e == Events[l]
       IN IF e.r.exc # "" THEN NextEvent("bad:harness:" \o e.r.exc)
          ELSE IF j > Len(Steps(e)) THEN NextEvent("")
          ELSE IF ph = "exec"
               THEN IF ENABLED Act(Steps(e)[j])
                    THEN Act(Steps(e)[j]) /\ ph' = "cmp" /\ UNCHANGED <<l, j, bad, dec>>
                    ELSE NextEvent("bad:step-not-enabled:" \o Steps(e)[j].a)
               ELSE IF out = Steps(e)[j].out /\ ~oob
                    THEN ph' = "exec" /\ j' = j + 1 /\ UNCHANGED <<sieveVars, l, bad, dec>>
                    ELSE NextEvent(IF oob THEN "bad:spec-out-of-bounds" ELSE "bad:result:" \o Steps(e)[j].a)

Verdict == l = Len(Events) + 1 =>
             ndJsonSerialize(IOEnv.VERDICT, <<[n |-> Len(Events), dec |-> dec, bad |-> bad]>>)
=============================================================================
