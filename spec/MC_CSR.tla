------------------------------- MODULE MC_CSR -------------------------------
(* Bounded model of CSR get/set: from EVERY canonical matrix of the given   *)
(* shape, every Set(i, c, v).  TLC checks that the transcribed search keeps *)
(* the format canonical and refines the dense update, that Get reads the    *)
(* dense value, and writes every transition as a program for replay.        *)
EXTENDS CSR, TLC, Json, IOUtils

CONSTANTS Rows, Cols, Vals, Variant, EmitOn
VARIABLES m, prev, last
vars == <<m, prev, last>>

Cells == (0..(Rows - 1)) \X (0..(Cols - 1))
Dense == [Cells -> Vals]
NoStep == [i |-> -1, c |-> -1, v |-> 0]
Init == \E d \in Dense : m = FromDense(d, Rows, Cols) /\ prev = m /\ last = NoStep
Next == /\ last = NoStep
        /\ \E i \in 0..(Rows - 1), c \in 0..(Cols - 1), v \in Vals :
              /\ m' = SetV(m, i, c, v, Variant)
              /\ prev' = m
              /\ last' = [i |-> i, c |-> c, v |-> v]
Spec == Init /\ [][Next]_vars

StaysCanonical == Canonical(m) /\ NoStoredZero(m)
GetReadsDense == \A i \in 0..(Rows - 1), c \in 0..(Cols - 1) : Get(m, i, c) = Abs(m)[i, c]
SetRefinesDense == last # NoStep => Abs(m) = [Abs(prev) EXCEPT ![last.i, last.c] = last.v]

Emit == (EmitOn /\ last # NoStep) =>
          Serialize(ToJson([op |-> "csr_set", rows |-> Rows, cols |-> Cols,
                            p |-> prev.p, j |-> prev.j, x |-> prev.x,
                            steps |-> <<[i |-> last.i, c |-> last.c, v |-> last.v,
                                         p |-> m.p, j |-> m.j, x |-> m.x]>>]) \o "\n", IOEnv.OUT,
                    [format |-> "TXT", charset |-> "UTF-8",
                     openOptions |-> <<"WRITE", "CREATE", "APPEND">>]).exitValue = 0
=============================================================================
