----------------------------- MODULE Trace_C43X -----------------------------
(* C43, second half: the results recorded for one case on the integer back  *)
(* ends (GMP through the C wrapper, GMP C++ classes, Boost.Multiprecision)  *)
(* are identical.  Each event carries the canonical JSON text of the result *)
(* per back end (texts, so that TLC compares like with like).               *)
EXTENDS Integers, Sequences, TLC, Json, IOUtils
VARIABLES l, bad, dec
CheckEv(e) ==
    LET names == e.r.names
        differ == {i \in 2..Len(names) : e.r.res[i] # e.r.res[1]}
    IN IF Len(names) < 2 THEN "unk"
       ELSE IF differ = {} THEN "ok"
       ELSE "bad:backends-differ:" \o names[1] \o "/" \o names[CHOOSE i \in differ : TRUE]
Events == ndJsonDeserialize(IOEnv.TRACE)
K == INSTANCE TraceKit WITH Check <- CheckEv, Events <- Events
Init == K!Init
Next == K!Next
Verdict == K!Verdict
=============================================================================
