---- MODULE Trace_C43_TTrace_1790085702 ----
EXTENDS Sequences, TLCExt, Toolbox, Naturals, TLC, Trace_C43

_expression ==
    LET Trace_C43_TEExpression == INSTANCE Trace_C43_TEExpression
    IN Trace_C43_TEExpression!expression
----

_trace ==
    LET Trace_C43_TETrace == INSTANCE Trace_C43_TETrace
    IN Trace_C43_TETrace!trace
----

_inv ==
    ~(
        TLCGet("level") = Len(_TETrace)
        /\
        dec = (9)
        /\
        bad = (<<>>)
        /\
        l = (10)
    )
----

_init ==
    /\ l = _TETrace[1].l
    /\ dec = _TETrace[1].dec
    /\ bad = _TETrace[1].bad
----

_next ==
    /\ \E i,j \in DOMAIN _TETrace:
        /\ \/ /\ j = i + 1
              /\ i = TLCGet("level")
        /\ l  = _TETrace[i].l
        /\ l' = _TETrace[j].l
        /\ dec  = _TETrace[i].dec
        /\ dec' = _TETrace[j].dec
        /\ bad  = _TETrace[i].bad
        /\ bad' = _TETrace[j].bad

\* Uncomment the ASSUME below to write the states of the error trace
\* to the given file in Json format. Note that you can pass any tuple
\* to `JsonSerialize`. For example, a sub-sequence of _TETrace.
    \* ASSUME
    \*     LET J == INSTANCE Json
    \*         IN J!JsonSerialize("Trace_C43_TTrace_1790085702.json", _TETrace)

=============================================================================

 Note that you can extract this module `Trace_C43_TEExpression`
  to a dedicated file to reuse `expression` (the module in the 
  dedicated `Trace_C43_TEExpression.tla` file takes precedence 
  over the module `Trace_C43_TEExpression` below).

---- MODULE Trace_C43_TEExpression ----
EXTENDS Sequences, TLCExt, Toolbox, Naturals, TLC, Trace_C43

expression == 
    [
        \* To hide variables of the `Trace_C43` spec from the error trace,
        \* remove the variables below.  The trace will be written in the order
        \* of the fields of this record.
        l |-> l
        ,dec |-> dec
        ,bad |-> bad
        
        \* Put additional constant-, state-, and action-level expressions here:
        \* ,_stateNumber |-> _TEPosition
        \* ,_lUnchanged |-> l = l'
        
        \* Format the `l` variable as Json value.
        \* ,_lJson |->
        \*     LET J == INSTANCE Json
        \*     IN J!ToJson(l)
        
        \* Lastly, you may build expressions over arbitrary sets of states by
        \* leveraging the _TETrace operator.  For example, this is how to
        \* count the number of times a spec variable changed up to the current
        \* state in the trace.
        \* ,_lModCount |->
        \*     LET F[s \in DOMAIN _TETrace] ==
        \*         IF s = 1 THEN 0
        \*         ELSE IF _TETrace[s].l # _TETrace[s-1].l
        \*             THEN 1 + F[s-1] ELSE F[s-1]
        \*     IN F[_TEPosition - 1]
    ]

=============================================================================



Parsing and semantic processing can take forever if the trace below is long.
 In this case, it is advised to uncomment the module below to deserialize the
 trace from a generated binary file.

\*
\*---- MODULE Trace_C43_TETrace ----
\*EXTENDS IOUtils, TLC, Trace_C43
\*
\*trace == IODeserialize("Trace_C43_TTrace_1790085702.bin", TRUE)
\*
\*=============================================================================
\*

---- MODULE Trace_C43_TETrace ----
EXTENDS TLC, Trace_C43

trace == 
    <<
    ([dec |-> 0,bad |-> <<>>,l |-> 1]),
    ([dec |-> 1,bad |-> <<>>,l |-> 2]),
    ([dec |-> 2,bad |-> <<>>,l |-> 3]),
    ([dec |-> 3,bad |-> <<>>,l |-> 4]),
    ([dec |-> 4,bad |-> <<>>,l |-> 5]),
    ([dec |-> 5,bad |-> <<>>,l |-> 6]),
    ([dec |-> 6,bad |-> <<>>,l |-> 7]),
    ([dec |-> 7,bad |-> <<>>,l |-> 8]),
    ([dec |-> 8,bad |-> <<>>,l |-> 9]),
    ([dec |-> 9,bad |-> <<>>,l |-> 10])
    >>
----


=============================================================================

---- CONFIG Trace_C43_TTrace_1790085702 ----

INVARIANT
    _inv

CHECK_DEADLOCK
    \* CHECK_DEADLOCK off because of PROPERTY or INVARIANT above.
    FALSE

INIT
    _init

NEXT
    _next

CONSTANT
    _TETrace <- _trace

ALIAS
    _expression
=============================================================================
\* Generated on Tue Sep 22 14:01:49 UTC 2026