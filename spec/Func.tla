-------------------------------- MODULE Func --------------------------------
(* Mathematical facts about the elementary and special functions the        *)
(* specification may use: exact values at table arguments.  Outside the     *)
(* tables the value is VUndef (the event is then not decisive there).       *)
EXTENDS Integers, Sequences, FiniteSets, Rat, ModP, ValCore

\* ---- names: recipe operation or dumped class  ->  function
Fun1Name == [
  sin |-> "sin", Sin |-> "sin", cos |-> "cos", Cos |-> "cos", tan |-> "tan", Tan |-> "tan",
  cot |-> "cot", Cot |-> "cot", sec |-> "sec", Sec |-> "sec", csc |-> "csc", Csc |-> "csc",
  asin |-> "asin", ASin |-> "asin", acos |-> "acos", ACos |-> "acos",
  atan |-> "atan", ATan |-> "atan", acot |-> "acot", ACot |-> "acot",
  asec |-> "asec", ASec |-> "asec", acsc |-> "acsc", ACsc |-> "acsc",
  sinh |-> "sinh", Sinh |-> "sinh", cosh |-> "cosh", Cosh |-> "cosh",
  tanh |-> "tanh", Tanh |-> "tanh", coth |-> "coth", Coth |-> "coth",
  sech |-> "sech", Sech |-> "sech", csch |-> "csch", Csch |-> "csch",
  asinh |-> "asinh", ASinh |-> "asinh", acosh |-> "acosh", ACosh |-> "acosh",
  atanh |-> "atanh", ATanh |-> "atanh", acoth |-> "acoth", ACoth |-> "acoth",
  asech |-> "asech", ASech |-> "asech", acsch |-> "acsch", ACsch |-> "acsch",
  log |-> "log", Log |-> "log",
  abs |-> "abs", Abs |-> "abs", sign |-> "sign", Sign |-> "sign",
  floor |-> "floor", Floor |-> "floor", ceiling |-> "ceiling", Ceiling |-> "ceiling",
  truncate |-> "truncate", Truncate |-> "truncate",
  conjugate |-> "conjugate", Conjugate |-> "conjugate",
  gamma |-> "gamma", Gamma |-> "gamma", loggamma |-> "loggamma", LogGamma |-> "loggamma",
  zeta |-> "zeta", dirichlet_eta |-> "eta", Dirichlet_eta |-> "eta",
  erf |-> "erf", Erf |-> "erf", erfc |-> "erfc", Erfc |-> "erfc",
  lambertw |-> "lambertw", LambertW |-> "lambertw",
  digamma |-> "digamma", trigamma |-> "trigamma",
  primepi |-> "primepi", PrimePi |-> "primepi", primorial |-> "primorial", Primorial |-> "primorial"]

Fun2Name == [
  atan2 |-> "atan2", ATan2 |-> "atan2", beta |-> "beta", Beta |-> "beta",
  polygamma |-> "polygamma", PolyGamma |-> "polygamma",
  kronecker_delta |-> "kd", KroneckerDelta |-> "kd",
  Zeta |-> "zeta2", zeta2 |-> "zeta2", log2 |-> "logb",
  lowergamma |-> "lowergamma", LowerGamma |-> "lowergamma",
  uppergamma |-> "uppergamma", UpperGamma |-> "uppergamma"]

Half == <<1, 2>>
VHalf == VRat(Half)
\* q*PI as a value
VPiMul(q) == VEx(R0, R0, q, 0)
\* is v = (k/12)*PI for an integer k?  returns k or "no"
PiK(v) == IF Exact(v) /\ v.re = R0 /\ v.im = R0 /\ v.ip = R0
          THEN LET q == RMul(v.pi, <<12, 1>>) IN IF RIsInt(q) THEN q[1] ELSE 100000
          ELSE 100000
NoK == 100000

\* sin(k*PI/12): residue from Z = exp(i PI/12); exact part where rational
SinKRes(k) == MDiv(MSub(MPowInt(ZZ, k), MPowInt(ZZ, -k)), MMul(MInt(2), MI))
SinK(k) ==
    LET r == k % 24
        ex == CASE r \in {0, 12} -> R0
                [] r = 6 -> R1
                [] r = 18 -> <<-1, 1>>
                [] r \in {2, 10} -> Half
                [] r \in {14, 22} -> <<-1, 2>>
                [] OTHER -> RU
    IN IF RDef(ex) THEN VRat(ex) ELSE VRes(SinKRes(k), 0)
CosK(k) == SinK(k + 6)

\* inverse lookup: the k in lo..hi with f(k) = v (by residue), else NoK
TanK(k) == VDiv(SinK(k), CosK(k))
RECURSIVE FindSin(_, _, _), FindCos(_, _, _), FindTan(_, _, _)
FindSin(v, lo, hi) == IF lo > hi THEN NoK
                      ELSE IF SinK(lo).m = v.m THEN lo ELSE FindSin(v, lo + 1, hi)
FindCos(v, lo, hi) == IF lo > hi THEN NoK
                      ELSE IF CosK(lo).m = v.m THEN lo ELSE FindCos(v, lo + 1, hi)
FindTan(v, lo, hi) == IF lo > hi THEN NoK
                      ELSE IF TanK(lo).m = v.m THEN lo ELSE FindTan(v, lo + 1, hi)

Fact(n) == IF n <= 1 THEN 1 ELSE IF n = 2 THEN 2 ELSE IF n = 3 THEN 6 ELSE IF n = 4 THEN 24
           ELSE IF n = 5 THEN 120 ELSE IF n = 6 THEN 720 ELSE IF n = 7 THEN 5040 ELSE 40320

\* log of a positive rational with {2,3,5,7}-smooth numerator and denominator
LogNat(n) ==
    LET e2 == Vp(n, 2) e3 == Vp(n, 3) e5 == Vp(n, 5) e7 == Vp(n, 7)
        rest == StripP(StripP(StripP(StripP(n, 2), 3), 5), 7)
    IN IF rest # 1 THEN MU
       ELSE MAdd(MAdd(MMul(MInt(e2), CL2), MMul(MInt(e3), CL3)),
                 MAdd(MMul(MInt(e5), CL5), MMul(MInt(e7), CL7)))
VLog(v) ==
    IF ~IsNum(v) THEN (IF v.t = "oo" THEN VOO ELSE VUndef)
    ELSE IF ~ExactRat(v) \/ v.re = R0 THEN VUndef
    ELSE IF v.re = R1 THEN V0
    ELSE LET m == MSub(LogNat(IAbs(v.re[1])), LogNat(v.re[2]))
         IN IF v.re[1] > 0 THEN VRes(m, 0)
            ELSE VRes(MAdd(m, MMul(MI, CPI)), 0)

\* exp(v) for v = n + (k/12) i PI
VExp(v) ==
    IF ~IsNum(v) THEN (IF v.t = "oo" THEN VOO ELSE IF v.t = "noo" THEN V0
                       ELSE IF v.t = "nan" THEN VNAN ELSE VUndef)
    ELSE IF ~Exact(v) \/ v.im # R0 \/ v.pi # R0 \/ ~RIsInt(v.re) THEN VUndef
    ELSE LET kk == RMul(v.ip, <<12, 1>>)
         IN IF ~RIsInt(kk) THEN VUndef
            ELSE LET k == kk[1] % 24
                     n == v.re[1]
                     unit == CASE k = 0 -> V1 [] k = 6 -> VI [] k = 12 -> VInt(-1)
                               [] k = 18 -> VNeg(VI) [] OTHER -> VRes(MPowInt(ZZ, k), 0)
                 IN IF n = 0 THEN unit ELSE VMul(VRes(MPowInt(CE, n), 0), unit)

VAbs(v) ==
    IF ~IsNum(v) THEN (IF IsInf(v) THEN VOO ELSE IF v.t = "nan" THEN VNAN ELSE VUndef)
    ELSE IF ExactReal(v)
         THEN LET s == RealSign(v) IN IF s = 2 THEN VUndef ELSE IF s < 0 THEN VNeg(v) ELSE v
    ELSE IF ExactGauss(v)
         THEN LET nn == RAdd(RMul(v.re, v.re), RMul(v.im, v.im))
              IN IF v.re = R0 THEN VEx(RAbs(v.im), R0, R0, v.fl)
                 ELSE VRootPow(VRat(nn), 1, 2)
    ELSE VUndef
VSign(v) ==
    IF ~IsNum(v) THEN (IF v.t = "oo" THEN V1 ELSE IF v.t = "noo" THEN VInt(-1)
                       ELSE IF v.t = "nan" THEN VNAN ELSE VUndef)
    ELSE IF ExactZero(v) THEN V0
    ELSE IF ExactReal(v) THEN LET s == RealSign(v) IN IF s = 2 THEN VUndef ELSE VInt(s)
    ELSE IF ExactGauss(v) THEN VDiv(v, VAbs(v))
    ELSE VUndef
RTrunc(q) == IF q[1] >= 0 THEN RFloor(q) ELSE RCeil(q)
VRound(f, v) ==       \* f in {"floor","ceiling","truncate"}
    LET R(q) == CASE f = "floor" -> RFloor(q) [] f = "ceiling" -> RCeil(q) [] OTHER -> RTrunc(q)
    IN IF ~IsNum(v) THEN (IF IsInf(v) \/ v.t = "nan" THEN v ELSE VUndef)
       ELSE IF ExactGauss(v) THEN VEx(R(v.re), R(v.im), R0, 0)
       ELSE VUndef
VConj(v) ==
    IF ~IsNum(v) THEN (IF v.t \in {"oo", "noo", "nan", "zoo"} THEN v ELSE VUndef)
    ELSE IF Exact(v) THEN VEx4(v.re, RNeg(v.im), v.pi, RNeg(v.ip), v.fl)
    ELSE VUndef

\* Gamma at integers and half-integers (|.| small)
VGamma(v) ==
    IF ~IsNum(v) THEN (IF v.t = "oo" THEN VOO ELSE VUndef)
    ELSE IF ~ExactRat(v) THEN VUndef
    ELSE IF v.re[2] = 1
         THEN LET n == v.re[1] IN IF n <= 0 THEN VZOO ELSE IF n <= 9 THEN VInt(Fact(n - 1)) ELSE VUndef
    ELSE IF v.re[2] = 2
         THEN LET n == (v.re[1] - 1) \div 2       \* v = n + 1/2
              IN IF n >= 0 /\ n <= 4
                 THEN VMul(VRat(RMk(Fact(2 * n), IPowNat(4, n)[1] * Fact(n))), VRes(CSQPI, 0))
                 ELSE IF n < 0 /\ n >= -4
                 THEN VMul(VRat(RMk(IPowNat(4, -n)[1] * Fact(-n) * (IF (-n) % 2 = 0 THEN 1 ELSE -1),
                                    Fact(-2 * n))), VRes(CSQPI, 0))
                 ELSE VUndef
    ELSE VUndef

\* zeta at small integers
VZeta(v) ==
    IF ~IsNum(v) \/ ~ExactInt(v) THEN VUndef
    ELSE LET n == v.re[1]
             pi2 == VMul(VPi, VPi)
         IN CASE n = 0 -> VRat(<<-1, 2>>)
              [] n = 1 -> VZOO
              [] n = 2 -> VMul(VRat(<<1, 6>>), pi2)
              [] n = 4 -> VMul(VRat(<<1, 90>>), VMul(pi2, pi2))
              [] n = 6 -> VMul(VRat(<<1, 945>>), VMul(pi2, VMul(pi2, pi2)))
              [] n = -1 -> VRat(<<-1, 12>>)
              [] n = -3 -> VRat(<<1, 120>>)
              [] n = -5 -> VRat(<<-1, 252>>)
              [] n = -7 -> VRat(<<1, 240>>)
              [] n \in {-2, -4, -6, -8} -> V0
              [] OTHER -> VUndef
VEta(v) ==
    IF ~IsNum(v) \/ ~ExactInt(v) THEN VUndef
    ELSE IF v.re[1] = 1 THEN VRes(CL2, 0)
    ELSE VMul(VSub(V1, VPowInt(VInt(2), 1 - v.re[1])), VZeta(v))

RECURSIVE Harm(_), Harm2(_)
Harm(n) == IF n <= 0 THEN R0 ELSE RAdd(Harm(n - 1), <<1, n>>)
Harm2(n) == IF n <= 0 THEN R0 ELSE RAdd(Harm2(n - 1), <<1, n * n>>)
VDigamma(v) ==
    IF ~IsNum(v) \/ ~ExactInt(v) THEN VUndef
    ELSE LET n == v.re[1]
         IN IF n <= 0 THEN VZOO ELSE IF n > 8 THEN VUndef
            ELSE VAdd(VNeg(VRes(CEG, 0)), VRat(Harm(n - 1)))
VTrigamma(v) ==
    IF ~IsNum(v) \/ ~ExactInt(v) THEN VUndef
    ELSE LET n == v.re[1]
         IN IF n <= 0 \/ n > 8 THEN VUndef
            ELSE VSub(VMul(VRat(<<1, 6>>), VMul(VPi, VPi)), VRat(Harm2(n - 1)))

IsPrimeN(n) == n >= 2 /\ \A d \in 2..(n - 1) : d * d > n \/ n % d # 0
PrimePiN(n) == Cardinality({p \in 2..n : IsPrimeN(p)})
RECURSIVE PrimorialN(_)
PrimorialN(n) == IF n < 2 THEN R1
                 ELSE IF IsPrimeN(n) THEN RMul(<<n, 1>>, PrimorialN(n - 1)) ELSE PrimorialN(n - 1)

SinhInt(n) == VMul(VHalf, VSub(VRes(MPowInt(CE, n), 0), VRes(MPowInt(CE, -n), 0)))
CoshInt(n) == VMul(VHalf, VAdd(VRes(MPowInt(CE, n), 0), VRes(MPowInt(CE, -n), 0)))

Fun1(f, v) ==
    IF v.t \in {"undef", "bool"} THEN VUndef
    ELSE IF v.t = "nan" THEN (IF f \in {"primepi", "primorial"} THEN VUndef ELSE VNAN)
    ELSE
    CASE f \in {"sin", "cos", "tan", "cot", "sec", "csc"} ->
           LET k == IF IsNum(v) THEN PiK(v) ELSE NoK
           IN IF k = NoK THEN VUndef
              ELSE (CASE f = "sin" -> SinK(k)
                      [] f = "cos" -> CosK(k)
                      [] f = "tan" -> VDiv(SinK(k), CosK(k))
                      [] f = "cot" -> VDiv(CosK(k), SinK(k))
                      [] f = "sec" -> VInv(CosK(k))
                      [] OTHER -> VInv(SinK(k)))
      [] f \in {"asin", "acsc"} ->
           LET w == IF f = "asin" THEN v ELSE VInv(v)
               k == IF IsNum(w) THEN FindSin(w, -6, 6) ELSE NoK
           IN IF k = NoK THEN VUndef ELSE VPiMul(RMk(k, 12))
      [] f \in {"acos", "asec"} ->
           LET w == IF f = "acos" THEN v ELSE VInv(v)
               k == IF IsNum(w) THEN FindCos(w, 0, 12) ELSE NoK
           IN IF k = NoK THEN VUndef ELSE VPiMul(RMk(k, 12))
      [] f = "atan" ->
           IF v.t = "oo" THEN VPiMul(Half) ELSE IF v.t = "noo" THEN VPiMul(<<-1, 2>>)
           ELSE IF ~IsNum(v) THEN VUndef
           ELSE LET k == FindTan(v, -5, 5) IN IF k = NoK THEN VUndef ELSE VPiMul(RMk(k, 12))
      [] f = "acot" ->
           IF IsInf(v) THEN V0
           ELSE IF ExactZero(v) THEN VPiMul(Half)
           ELSE LET w == VInv(v)
                    k == IF IsNum(w) THEN FindTan(w, -5, 5) ELSE NoK
                IN IF k = NoK \/ k = 0 THEN VUndef ELSE VPiMul(RMk(k, 12))
      [] f = "sinh" -> (IF ExactInt(v) THEN (IF v.re[1] = 0 THEN V0 ELSE SinhInt(v.re[1])) ELSE VUndef)
      [] f = "cosh" -> (IF ExactInt(v) THEN (IF v.re[1] = 0 THEN V1 ELSE CoshInt(v.re[1])) ELSE VUndef)
      [] f = "tanh" -> (IF ExactInt(v) THEN (IF v.re[1] = 0 THEN V0 ELSE VDiv(SinhInt(v.re[1]), CoshInt(v.re[1]))) ELSE VUndef)
      [] f = "coth" -> (IF ExactInt(v) THEN (IF v.re[1] = 0 THEN VZOO ELSE VDiv(CoshInt(v.re[1]), SinhInt(v.re[1]))) ELSE VUndef)
      [] f = "sech" -> (IF ExactInt(v) THEN (IF v.re[1] = 0 THEN V1 ELSE VInv(CoshInt(v.re[1]))) ELSE VUndef)
      [] f = "csch" -> (IF ExactInt(v) THEN (IF v.re[1] = 0 THEN VZOO ELSE VInv(SinhInt(v.re[1]))) ELSE VUndef)
      [] f = "asinh" -> (IF IsNum(v) /\ ExactZero(v) THEN V0 ELSE VUndef)
      [] f = "atanh" -> (IF IsNum(v) /\ ExactZero(v) THEN V0 ELSE VUndef)
      [] f = "acosh" -> (IF IsNum(v) /\ v = V1 THEN V0 ELSE VUndef)
      [] f = "asech" -> (IF IsNum(v) /\ v = V1 THEN V0 ELSE VUndef)
      [] f \in {"acoth", "acsch"} -> VUndef
      [] f = "log" -> VLog(v)
      [] f = "abs" -> VAbs(v)
      [] f = "sign" -> VSign(v)
      [] f \in {"floor", "ceiling", "truncate"} -> VRound(f, v)
      [] f = "conjugate" -> VConj(v)
      [] f = "gamma" -> VGamma(v)
      [] f = "loggamma" ->
           (IF IsNum(v) /\ ExactInt(v) /\ v.re[1] >= 1 /\ v.re[1] <= 8
            THEN VLog(VInt(Fact(v.re[1] - 1))) ELSE VUndef)
      [] f = "zeta" -> VZeta(v)
      [] f = "eta" -> VEta(v)
      [] f = "erf" -> (IF IsNum(v) /\ ExactZero(v) THEN V0 ELSE IF v.t = "oo" THEN V1
                       ELSE IF v.t = "noo" THEN VInt(-1) ELSE VUndef)
      [] f = "erfc" -> (IF IsNum(v) /\ ExactZero(v) THEN V1 ELSE IF v.t = "oo" THEN V0
                        ELSE IF v.t = "noo" THEN VInt(2) ELSE VUndef)
      [] f = "lambertw" -> (IF IsNum(v) /\ ExactZero(v) THEN V0 ELSE VUndef)
      [] f = "digamma" -> VDigamma(v)
      [] f = "trigamma" -> VTrigamma(v)
      [] f = "primepi" ->
           (IF IsNum(v) /\ ExactRat(v) /\ RLess(v.re, <<300, 1>>)
            THEN (IF v.re[1] < 0 THEN V0 ELSE VInt(PrimePiN(RFloor(v.re)[1]))) ELSE VUndef)
      [] f = "primorial" ->
           \* defined by the library for positive arguments only
           (IF IsNum(v) /\ ExactRat(v) /\ RLeq(R1, v.re) /\ RLess(v.re, <<30, 1>>)
            THEN VRat(PrimorialN(RFloor(v.re)[1])) ELSE VUndef)
      [] OTHER -> VUndef

\* order on exact reals: "lt","eq","gt" or "unk"
RealCmp(a, b) ==
    IF a.t = "undef" \/ b.t = "undef" THEN "unk"
    ELSE IF a.t = "oo" THEN (IF b.t = "oo" THEN "eq" ELSE IF b.t = "noo" \/ ExactReal(b) THEN "gt" ELSE "unk")
    ELSE IF a.t = "noo" THEN (IF b.t = "noo" THEN "eq" ELSE IF b.t = "oo" \/ ExactReal(b) THEN "lt" ELSE "unk")
    ELSE IF b.t = "oo" THEN (IF ExactReal(a) THEN "lt" ELSE "unk")
    ELSE IF b.t = "noo" THEN (IF ExactReal(a) THEN "gt" ELSE "unk")
    ELSE IF ExactReal(a) /\ ExactReal(b)
         THEN LET s == RealSign(VSub(a, b))
              IN IF s = 2 THEN "unk" ELSE IF s < 0 THEN "lt" ELSE IF s = 0 THEN "eq" ELSE "gt"
    ELSE "unk"

RECURSIVE FoldMax(_, _, _, _)
\* pick the extreme element of a sequence of values, VUndef when an order is unknown
FoldMax(vs, i, best, want) ==
    IF i > Len(vs) THEN best
    ELSE LET c == RealCmp(vs[i], best)
         IN IF c = "unk" THEN VUndef
            ELSE FoldMax(vs, i + 1, IF c = want THEN vs[i] ELSE best, want)
FunMax(vs) == IF Len(vs) = 0 THEN VUndef ELSE FoldMax(vs, 2, vs[1], "gt")
FunMin(vs) == IF Len(vs) = 0 THEN VUndef ELSE FoldMax(vs, 2, vs[1], "lt")

\* sign of a real value known exactly or through its monomial form: -1, 0, 1, else 2
PhaseSign(v) ==
    IF ~IsNum(v) THEN 2
    ELSE IF ExactReal(v) THEN RealSign(v)
    ELSE IF v.mo = NoMono THEN 2
    ELSE IF v.mo[5] = 0 THEN 1 ELSE IF v.mo[5] = 12 THEN -1 ELSE 2

Fun2(f, a, b) ==
    IF a.t \in {"undef", "bool"} \/ b.t \in {"undef", "bool"} THEN VUndef
    ELSE
    CASE f = "atan2" ->        \* atan2(y, x)
           IF ~(IsNum(a) /\ IsNum(b)) THEN VUndef
           ELSE IF ~(ExactRat(a) /\ ExactRat(b))
           THEN \* real radicals: sign from the monomial form (phase 0 / 12), angle of y/x from the table
                LET sy == PhaseSign(a) sx == PhaseSign(b)
                    q == VDiv(a, b)
                    k == IF IsNum(q) THEN FindTan(q, -5, 5) ELSE NoK
                IN IF sy \notin {-1, 1} \/ sx \notin {-1, 1} \/ k = NoK THEN VUndef
                   ELSE IF sx = 1 THEN VPiMul(RMk(k, 12))
                   ELSE IF sy = 1 THEN VPiMul(RMk(k + 12, 12))
                   ELSE VPiMul(RMk(k - 12, 12))
           ELSE LET y == a.re x == b.re
                IN (CASE y = R0 /\ RSign(x) > 0 -> V0
                     [] y = R0 /\ RSign(x) < 0 -> VPi
                     [] x = R0 /\ RSign(y) > 0 -> VPiMul(Half)
                     [] x = R0 /\ RSign(y) < 0 -> VPiMul(<<-1, 2>>)
                     [] x # R0 /\ y = x -> (IF RSign(x) > 0 THEN VPiMul(<<1, 4>>) ELSE VPiMul(<<-3, 4>>))
                     [] x # R0 /\ y = RNeg(x) -> (IF RSign(x) > 0 THEN VPiMul(<<-1, 4>>) ELSE VPiMul(<<3, 4>>))
                     [] OTHER -> VUndef)
      [] f = "beta" -> VDiv(VMul(VGamma(a), VGamma(b)), VGamma(VAdd(a, b)))
      [] f = "polygamma" ->
           (IF IsNum(a) /\ ExactInt(a) /\ a.re[1] = 0 THEN VDigamma(b)
            ELSE IF IsNum(a) /\ ExactInt(a) /\ a.re[1] = 1 THEN VTrigamma(b) ELSE VUndef)
      [] f = "kd" ->
           (IF IsNum(a) /\ IsNum(b) /\ Exact(a) /\ Exact(b)
            THEN (IF a = b THEN V1 ELSE V0) ELSE VUndef)
      [] f = "zeta2" -> (IF IsNum(b) /\ b = V1 THEN VZeta(a) ELSE VUndef)
      [] f = "logb" -> VDiv(VLog(a), VLog(b))
      [] f = "lowergamma" ->    \* lowergamma(1, x) = 1 - exp(-x)
           (IF IsNum(a) /\ a = V1 /\ IsNum(b) /\ ExactInt(b) THEN VSub(V1, VExp(VNeg(b))) ELSE VUndef)
      [] f = "uppergamma" ->    \* uppergamma(1, x) = exp(-x)
           (IF IsNum(a) /\ a = V1 /\ IsNum(b) /\ ExactInt(b) THEN VExp(VNeg(b)) ELSE VUndef)
      [] OTHER -> VUndef
=============================================================================
