SPECIFICATION Spec
CONSTANTS
  MaxObj = 3
  MaxHandles = 2
  ReleaseFirst = TRUE
  Cascade = TRUE
INVARIANTS NoDangling
CHECK_DEADLOCK FALSE
