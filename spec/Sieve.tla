-------------------------------- MODULE Sieve --------------------------------
(* The process-global prime sieve (symengine/prime_sieve.cpp).              *)
(*                                                                          *)
(* L1 (what the user relies on): generate_primes(limit) returns exactly the *)
(* primes <= limit in increasing order; an iterator yields the consecutive  *)
(* primes and, once they exceed its limit, limit+1 -- after ANY history of  *)
(* calls.                                                                   *)
(* L2 (implementation-shaped): the static cache, the clear flag, the        *)
(* segment size, iterator objects, and a transcription of the segmented     *)
(* _extend() with its recursion to sqrt(limit), odd-only segments and slice *)
(* arithmetic.  The vector's storage is modelled with its high-water mark:  *)
(* erase() shrinks size but leaves the storage, and next_prime() reads      *)
(* _primes[_index-1] even when the cache has been cleared under it.         *)
EXTENDS Integers, Sequences, FiniteSets

CONSTANTS IterIds,         \* identities of iterator objects
          FinMode          \* "minus1" (the code) or "plus1" (pre-repair variant)
VARIABLES buf,             \* storage of the static vector (a sequence)
          size,            \* its size(); buf[1..size] is the live cache
          clearFlag,       \* Sieve::_clear
          seg,             \* Sieve::_sieve_size in bits
          iters,           \* iterator id -> [index, limit]  (index is 0-based as in the code)
          out,             \* result of the last call (a sequence of numbers)
          oob              \* TRUE once an index outside the valarray / storage was used
sieveVars == <<buf, size, clearFlag, seg, iters, out, oob>>

IsPrime(n) == n >= 2 /\ \A d \in 2..(n - 1) : d * d > n \/ n % d # 0
PrimesUpTo(n) == {p \in 2..n : IsPrime(p)}
RECURSIVE SortedSeq(_)
SetMin(S) == CHOOSE m \in S : \A s \in S : m <= s
SortedSeq(S) == IF S = {} THEN <<>> ELSE <<SetMin(S)>> \o SortedSeq(S \ {SetMin(S)})
First10 == <<2, 3, 5, 7, 11, 13, 17, 19, 23, 29>>
ISqrt(n) == CHOOSE r \in 0..n : r * r <= n /\ (r + 1) * (r + 1) > n
Min2(a, b) == IF a < b THEN a ELSE b
Live(b, s) == SubSeq(b, 1, s)

\* ------------------------------------------------------------- _extend
\* state threaded through the transcription: [b |-> storage, s |-> size, o |-> oob]
PushBack(st, n) == [b |-> IF st.s < Len(st.b) THEN [st.b EXCEPT ![st.s + 1] = n] ELSE Append(st.b, n),
                    s |-> st.s + 1, o |-> st.o]

\* indices of the segment's valarray cleared for the sieving primes
ClearedIdx(st, start, finish) ==
    UNION { LET n == st.b[i]
                m0 == ((start \div n) + 1) * n
                mult == IF m0 % 2 = 0 THEN m0 + n ELSE m0
            IN IF mult > finish THEN {}
               ELSE {((mult - start) \div 2) + j * n : j \in 0..((finish - mult) \div (2 * n))}
            : i \in {i \in 2..st.s : st.b[i] * st.b[i] <= finish} }

RECURSIVE PushOdd(_, _, _, _, _)
\* for (n = start + 1; n <= finish; n += 2) if (is_prime[(n - start) / 2]) push_back(n)
PushOdd(st, n, start, finish, cleared) ==
    IF n > finish THEN st
    ELSE PushOdd(IF ((n - start) \div 2) \in cleared THEN st ELSE PushBack(st, n),
                 n + 2, start, finish, cleared)

\* the segment end the code computes; fin = "plus1" is the expression of the
\* code before the repair (kept for the negative model that TLC must refute)
SegFinish(fin, start, segment, limit) ==
    IF fin = "plus1" THEN Min2(start + 2 * segment + 1, limit)
    ELSE Min2(start + 2 * segment - 1, limit)

RECURSIVE SegLoop(_, _, _, _, _)
SegLoop(st, start, limit, segment, fin) ==
    IF start > limit THEN st
    ELSE LET finish == SegFinish(fin, start, segment, limit)
             cleared == ClearedIdx(st, start, finish)
             \* highest valarray index touched by marking or reading
             top == (finish - start) \div 2
             st1 == [st EXCEPT !.o = st.o \/ top >= segment]
         IN SegLoop(PushOdd(st1, start + 1, start, finish, cleared),
                    start + 2 * segment, limit, segment, fin)

RECURSIVE Extend(_, _, _, _)
Extend(st, limit, segment, fin) ==
    LET sq == ISqrt(limit)
        start0 == st.b[st.s] + 1
    IN IF limit <= start0 THEN st
       ELSE LET st1 == IF sq >= start0 THEN Extend(st, sq, segment, fin) ELSE st
                start == st1.b[st1.s] + 1
            IN SegLoop(st1, start, limit, segment, fin)

St == [b |-> buf, s |-> size, o |-> oob]
ClearedSize == 10          \* _primes.erase(begin() + 10, end())

\* ------------------------------------------------------------- actions
SieveInit ==
    /\ buf = First10 /\ size = 10 /\ clearFlag = TRUE /\ seg \in {8}
    /\ iters = [k \in {} |-> 0] /\ out = <<>> /\ oob = FALSE

GenerateF(limit, fin) ==
    LET st == Extend(St, limit, seg, fin)
        res == SelectSeq(Live(st.b, st.s), LAMBDA p : p <= limit)
    IN /\ out' = res
       /\ buf' = st.b
       /\ size' = IF clearFlag THEN ClearedSize ELSE st.s
       /\ oob' = st.o
       /\ UNCHANGED <<clearFlag, seg, iters>>
Generate(limit) == GenerateF(limit, FinMode)

Clear == /\ size' = ClearedSize /\ out' = <<>>
         /\ UNCHANGED <<buf, clearFlag, seg, iters, oob>>
SetClear(b) == /\ clearFlag' = b /\ out' = <<>>
               /\ UNCHANGED <<buf, size, seg, iters, oob>>
SetSegBits(bits) == /\ seg' = bits /\ out' = <<>>
                    /\ UNCHANGED <<buf, size, clearFlag, iters, oob>>
SetSieveSize(kb) == SetSegBits(kb * 1024 * 8)

IterNew(k, limit) ==
    /\ k \notin DOMAIN iters
    /\ iters' = [j \in DOMAIN iters \cup {k} |-> IF j = k THEN [index |-> 0, limit |-> limit] ELSE iters[j]]
    /\ out' = <<>>
    /\ UNCHANGED <<buf, size, clearFlag, seg, oob>>

IterNextF(k, fin) ==
    /\ k \in DOMAIN iters
    /\ LET it == iters[k]
       IN IF it.index >= size
          THEN LET stale == it.index > Len(buf) \/ it.index = 0     \* _primes[_index - 1]
                   last == IF stale THEN 2 ELSE buf[it.index]
                   e0 == last * 2
                   ext == IF it.limit > 0 /\ it.limit < e0 THEN it.limit ELSE e0
                   st == Extend([St EXCEPT !.o = oob \/ stale], ext, seg, fin)
               IN /\ buf' = st.b /\ size' = st.s /\ oob' = st.o
                  /\ IF it.index >= st.s
                     THEN /\ out' = <<it.limit + 1>> /\ iters' = iters
                     ELSE /\ out' = <<st.b[it.index + 1]>>
                          /\ iters' = [iters EXCEPT ![k].index = it.index + 1]
          ELSE /\ out' = <<buf[it.index + 1]>>
               /\ iters' = [iters EXCEPT ![k].index = it.index + 1]
               /\ UNCHANGED <<buf, size, oob>>
    /\ UNCHANGED <<clearFlag, seg>>
IterNext(k) == IterNextF(k, FinMode)

IterDestroy(k) ==
    /\ k \in DOMAIN iters
    /\ iters' = [j \in DOMAIN iters \ {k} |-> iters[j]]
    /\ size' = IF clearFlag THEN ClearedSize ELSE size
    /\ out' = <<>>
    /\ UNCHANGED <<buf, clearFlag, seg, oob>>

\* ------------------------------------------------------------- invariants
\* the storage up to the high-water mark is a prefix of the prime sequence
NthPrimeOK == \A i \in 1..Len(buf) : IsPrime(buf[i]) /\ (i > 1 => buf[i - 1] < buf[i])
NoGaps == \A i \in 2..Len(buf) : \A n \in (buf[i - 1] + 1)..(buf[i] - 1) : ~IsPrime(n)
CacheIsPrimePrefix == Len(buf) >= size /\ size >= 10 /\ NthPrimeOK /\ NoGaps
NoOutOfBounds == ~oob
=============================================================================
