INIT Init
NEXT Next
