------------------------------ MODULE Trace_C19 ------------------------------
(* C19: loads(dumps(e)) is equal to e; its structural dump (doubles by      *)
(* their bit fields) is identical; the number of distinct objects in the    *)
(* loaded tree equals that of the original (shared subexpressions are       *)
(* shared again); a dense matrix of the expressions round-trips.            *)
EXTENDS Integers, Sequences, FiniteSets, TLC, Json, IOUtils
VARIABLES l, bad, dec
Unsupported == {"NotImplementedError", "SerializationError"}
One(it) == IF it.exc = "VerifAssertionError" THEN "bad:assertion"
           ELSE IF it.orig.k = "Null" THEN "unk"                       \* the expression could not be built
           ELSE IF it.exc \in Unsupported THEN "unk"
           ELSE IF it.exc # "" THEN "bad:exception:" \o it.exc
           ELSE IF it.back # it.orig THEN "bad:loaded-expression-differs"
           ELSE IF it.eq # 1 THEN "bad:eq-false"
           ELSE IF it.nodes_back # it.nodes THEN "bad:node-count"
           ELSE IF it.objs_back > it.objs THEN "bad:shared-subexpression-duplicated"
           ELSE "ok"
CheckEv(e) ==
    IF e.r.exc # "" THEN "bad:harness:" \o e.r.exc
    ELSE LET n == Len(e.r.items)
             rs == [i \in 1..n |-> One(e.r.items[i])]
         IN IF \E i \in 1..n : rs[i] \notin {"ok", "unk"} THEN rs[CHOOSE i \in 1..n : rs[i] \notin {"ok", "unk"}]
            ELSE IF e.r.mat.exc \notin (Unsupported \cup {""}) THEN "bad:matrix:exception:" \o e.r.mat.exc
            ELSE IF e.r.mat.exc = "" /\ e.r.mat.eq # 1 /\ \A i \in 1..n : rs[i] = "ok" THEN "bad:matrix-differs"
            ELSE IF \E i \in 1..n : rs[i] = "ok" THEN "ok" ELSE "unk"
Events == ndJsonDeserialize(IOEnv.TRACE)
K == INSTANCE TraceKit WITH Check <- CheckEv, Events <- Events
Init == K!Init
Next == K!Next
Verdict == K!Verdict
=============================================================================
