------------------------------- MODULE MC_Kron -------------------------------
(* Model-level theorem about the transcription of UIntDict::mul: for all     *)
(* pairs of integer polynomials of the bounded shape, the Kronecker product  *)
(* equals the schoolbook product.  With Extra = 0 (digit width without room  *)
(* for the sign) TLC must find a counterexample.                             *)
EXTENDS Poly, TLC
CONSTANTS Extra, Coefs, MaxLen
CoefSet == {-7, -3, -1, 0, 1, 2, 7}
CoefSetQ == {-7, -1, 0, 2, 7}
Polys == UNION {[1..n -> Coefs] : n \in 1..MaxLen}
Trimmed == {p \in Polys : p[Len(p)] # 0}
VARIABLES pa, pb
Init == pa \in Trimmed /\ pb \in Trimmed
Next == UNCHANGED <<pa, pb>>
KronIsSchoolbook == KronMul(pa, pb, Extra) = ITrim(ISchool(pa, pb))
=============================================================================
