-------------------------------- MODULE Canon --------------------------------
(* Canonical-form invariants of expression objects, stated on dumps.  The   *)
(* predicates are transcribed from the invariants the library documents for *)
(* Add, Mul, Pow and the exact number classes and are evaluated by TLC on   *)
(* every object the API returned, at every depth (IsCanonicalDeep).         *)
EXTENDS Integers, Sequences, Rat

NumKindsC == {"Int", "Rat", "Big", "BigRat", "Complex", "Dbl", "CDbl", "Inf", "NaN"}
IsNumT(t) == t.k \in NumKindsC
IsIntT(t) == t.k \in {"Int", "Big"}
IsRatT(t) == t.k \in {"Rat", "BigRat"}
IsExactT(t) == t.k \in {"Int", "Rat", "Big", "BigRat", "Complex", "Inf", "NaN"}
IsIntVal(t, n) == t.k = "Int" /\ t.n = n
DblZero(t) == t.k = "Dbl" /\ t.s = "zero"
IsZeroT(t) == IsIntVal(t, 0) \/ DblZero(t) \/ (t.k = "CDbl" /\ DblZero(t.a[1]) /\ DblZero(t.a[2]))

CanonRealT(t) == \/ t.k = "Int"
                 \/ t.k = "Big" /\ Len(t.a) > 0 /\ t.a[Len(t.a)].n # 0
                 \/ t.k = "Rat" /\ t.d > 1 /\ Gcd(IAbs(t.n), t.d) = 1
                 \/ t.k = "BigRat"
CanonNumT(t) ==
    CASE t.k \in {"Int", "Rat", "Big", "BigRat"} -> CanonRealT(t)
      [] t.k = "Complex" -> CanonRealT(t.a[1]) /\ CanonRealT(t.a[2]) /\ ~IsIntVal(t.a[2], 0)
      [] t.k = "Inf" -> t.a[1].k = "Int" /\ t.a[1].n \in {-1, 0, 1}
      [] OTHER -> TRUE

\* Add: [coef, Pair(term, coefficient), ...]
CanonAdd(t) ==
    /\ Len(t.a) >= 2 /\ IsNumT(t.a[1])
    /\ (Len(t.a) = 2 => ~IsZeroT(t.a[1]))
    /\ \A i \in 2..Len(t.a) :
         LET key == t.a[i].a[1] val == t.a[i].a[2]
         IN /\ ~IsNumT(key)
            /\ IsNumT(val) /\ ~IsZeroT(val)
            /\ (key.k = "Mul" => IsIntVal(key.a[1], 1))
\* Mul: [coef, Pair(base, exponent), ...]
CanonMul(t) ==
    /\ Len(t.a) >= 2 /\ IsNumT(t.a[1]) /\ ~IsZeroT(t.a[1])
    /\ (Len(t.a) = 2 => ~IsIntVal(t.a[1], 1))
    /\ \A i \in 2..Len(t.a) :
         LET b == t.a[i].a[1] e == t.a[i].a[2]
         IN /\ ~((IsIntT(b) \/ IsRatT(b)) /\ IsIntT(e))
            \* (a factor 0**x with a non-numeric x is allowed: pow(0, x) stays unevaluated)
            /\ ~(IsIntVal(b, 0) /\ IsNumT(e)) /\ ~IsIntVal(b, 1)
            /\ ~(IsNumT(e) /\ IsZeroT(e))
            \* a real coefficient other than +-1 is split off a product under a numeric
            \* power; a complex coefficient stays inside, e.g. ((1+2*I)*x)**(1/2)
            /\ (b.k = "Mul" => /\ ~IsIntT(e)
                               /\ (IsNumT(e) => IsIntVal(b.a[1], 1) \/ IsIntVal(b.a[1], -1)
                                                \/ b.a[1].k \in {"Complex", "CDbl"}))
            /\ ~(b.k = "Pow" /\ IsIntT(e))
            /\ ~(IsNumT(b) /\ IsNumT(e) /\ (~IsExactT(b) \/ ~IsExactT(e)))
CanonPow(t) ==
    LET b == t.a[1] e == t.a[2]
    IN IF IsIntVal(b, 0) THEN ~IsNumT(e)
       ELSE /\ ~IsIntVal(b, 1)
            /\ ~(IsNumT(e) /\ IsZeroT(e))
            /\ ~IsIntVal(e, 1)
            /\ ~((IsIntT(b) \/ IsRatT(b)) /\ IsIntT(e))
            /\ ~(b.k = "Mul" /\ IsIntT(e))
            /\ ~(b.k = "Pow" /\ IsIntT(e))
            /\ ~((b.k \in {"Int", "Rat"}) /\ e.k = "Rat" /\ (e.n < 0 \/ e.n > e.d))
            /\ ~(b.k = "Complex" /\ IsIntVal(b.a[1], 0) /\ IsIntT(e))
            /\ ~(IsNumT(b) /\ IsNumT(e) /\ (~IsExactT(b) \/ ~IsExactT(e)))

\* sign-normalised argument of odd / even functions (could_extract_minus): no negative number, no
\* product with a negative real coefficient or a complex coefficient whose real part is negative
\* (or zero with a negative imaginary part).  Sums depend on the library's term order: left to
\* the assertions of the constructors (hook H1).
NegReal(t) == (t.k \in {"Int", "Rat"} /\ t.n < 0) \/ (t.k \in {"Big", "BigRat"} /\ t.n < 0) \/ (t.k = "Dbl" /\ t.s # "zero" /\ t.n < 0)
MinusNum(t) == NegReal(t) \/ (t.k = "Complex" /\ (NegReal(t.a[1]) \/ (IsIntVal(t.a[1], 0) /\ NegReal(t.a[2]))))
MinusArg(t) == IF t.k = "Mul" THEN MinusNum(t.a[1]) ELSE IF t.k \in {"Int", "Rat", "Complex"} THEN MinusNum(t) ELSE FALSE
SignNormalised == {"Sinh", "Csch", "Cosh", "Sech", "Tanh", "Coth", "ASinh", "ACsch", "ATanh", "ACoth", "Erf", "Erfc", "Abs"}

CanonNode(t) ==
    CASE IsNumT(t) -> CanonNumT(t)
      [] t.k \in SignNormalised -> Len(t.a) = 1 /\ ~MinusArg(t.a[1])
      [] t.k = "Add" -> CanonAdd(t)
      [] t.k = "Mul" -> CanonMul(t)
      [] t.k = "Pow" -> CanonPow(t)
      [] OTHER -> TRUE
RECURSIVE IsCanonicalDeep(_), AllCanon(_, _)
AllCanon(a, i) == i > Len(a) \/ (IsCanonicalDeep(a[i]) /\ AllCanon(a, i + 1))
IsCanonicalDeep(t) ==
    IF t.k = "Dbl" THEN TRUE       \* (children of a double dump are its bit fields)
    ELSE CanonNode(t) /\ AllCanon(t.a, 1)
=============================================================================
