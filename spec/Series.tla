-------------------------------- MODULE Series --------------------------------
(* Truncated power series in one variable over the value domain: the Taylor   *)
(* coefficients of a recipe at 0, from the defining differential equations    *)
(* (f = exp(u): f' = u' f;  f = log(u): f' = u'/u;  s = sin(u), c = cos(u):   *)
(* s' = u' c, c' = -u' s;  f = u^a: u f' = a u' f;  atan: f' = u'/(1+u^2); ...)*)
(* A series is a sequence of N values (coefficients of x^0 .. x^(N-1)).        *)
(* Ser(t, xs, N) is the series of recipe t in the symbol named xs, or the      *)
(* empty sequence when the recipe is outside the supported fragment.           *)
EXTENDS Integers, Sequences, FiniteSets, Term

SConst(v, N) == [i \in 1..N |-> IF i = 1 THEN v ELSE V0]
SX(N) == [i \in 1..N |-> IF i = 2 THEN V1 ELSE V0]
SAdd(a, b) == [i \in 1..Len(a) |-> VAdd(a[i], b[i])]
SNeg(a) == [i \in 1..Len(a) |-> VNeg(a[i])]
SScale(v, a) == [i \in 1..Len(a) |-> VMul(v, a[i])]
RECURSIVE Conv(_, _, _, _)
\* sum_{k=lo..n} a_k * b_{n-k}   (0-based indices)
Conv(a, b, n, k) == IF k > n THEN V0 ELSE VAdd(VMul(a[k + 1], b[n - k + 1]), Conv(a, b, n, k + 1))
SMul(a, b) == [i \in 1..Len(a) |-> Conv(a, b, i - 1, 0)]
\* derivative-like sequence k*u_k (0-based k), used by the recurrences
\* generic linear recurrence: n*f_n = sum_{k=1..n} k*u_k*g_{n-k}
RECURSIVE RecSum(_, _, _, _)
RecSum(u, g, n, k) == IF k > n THEN V0 ELSE VAdd(VMul(VMul(VInt(k), u[k + 1]), g[n - k + 1]), RecSum(u, g, n, k + 1))
\* build f with f_0 given and n*f_n = sign * sum k u_k g_{n-k}, where g may be f itself (exp) or another known series
RECURSIVE SExpFrom(_, _, _)
\* exp: f' = u' f
SExpFrom(u, f, n) == IF n >= Len(u) THEN f
                     ELSE SExpFrom(u, Append(f, VDiv(RecSum(u, f \o [i \in 1..(Len(u) - Len(f)) |-> V0], n, 1), VInt(n))), n + 1)
SExp(u) == SExpFrom(u, <<VExp(u[1])>>, 1)
\* inverse: b_0 = 1/a_0, b_n = -(1/a_0) sum_{k=1..n} a_k b_{n-k}
RECURSIVE SInvFrom(_, _, _)
SInvFrom(a, b, n) == IF n >= Len(a) THEN b
                     ELSE LET bp == b \o [i \in 1..(Len(a) - Len(b)) |-> V0]
                          IN SInvFrom(a, Append(b, VNeg(VMul(b[1], Conv(a, bp, n, 1)))), n + 1)
SInv(a) == SInvFrom(a, <<VDiv(V1, a[1])>>, 1)
SDiv(a, b) == SMul(a, SInv(b))
\* integral with given constant term of the series q (f' = q): f_n = q_{n-1}/n
SInt(c0, q) == [i \in 1..Len(q) |-> IF i = 1 THEN c0 ELSE VDiv(q[i - 1], VInt(i - 1))]
\* u' as a series of the same length (last coefficient unknown, never used by SInt)
SDer(u) == [i \in 1..Len(u) |-> IF i < Len(u) THEN VMul(VInt(i), u[i + 1]) ELSE V0]
SLog(u) == SInt(Fun1("log", u[1]), SMul(SDer(u), SInv(u)))
\* sin and cos together: n s_n = sum k u_k c_{n-k}, n c_n = -sum k u_k s_{n-k}
RECURSIVE SinCosFrom(_, _, _, _, _)
SinCosFrom(u, s, c, n, hyp) ==
    IF n >= Len(u) THEN <<s, c>>
    ELSE LET pad(f) == f \o [i \in 1..(Len(u) - Len(f)) |-> V0]
             sn == VDiv(RecSum(u, pad(c), n, 1), VInt(n))
             cn == VDiv(RecSum(u, pad(s), n, 1), VInt(n))
         IN SinCosFrom(u, Append(s, sn), Append(c, IF hyp THEN cn ELSE VNeg(cn)), n + 1, hyp)
SSinCos(u) == SinCosFrom(u, <<Fun1("sin", u[1])>>, <<Fun1("cos", u[1])>>, 1, FALSE)
SSinhCosh(u) == SinCosFrom(u, <<Fun1("sinh", u[1])>>, <<Fun1("cosh", u[1])>>, 1, TRUE)
\* power with a constant exponent a (a value): n u_0 f_n = sum_{k=1..n} (k a - (n - k)) u_k f_{n-k}
RECURSIVE PowSum(_, _, _, _, _), SPowFrom(_, _, _, _)
PowSum(u, f, a, n, k) == IF k > n THEN V0
                         ELSE VAdd(VMul(VMul(VSub(VMul(VInt(k), a), VInt(n - k)), u[k + 1]), f[n - k + 1]), PowSum(u, f, a, n, k + 1))
SPowFrom(u, f, a, n) == IF n >= Len(u) THEN f
                        ELSE LET fp == f \o [i \in 1..(Len(u) - Len(f)) |-> V0]
                             IN SPowFrom(u, Append(f, VDiv(PowSum(u, fp, a, n, 1), VMul(VInt(n), u[1]))), a, n + 1)
SPow(u, a) == SPowFrom(u, <<VPow(u[1], a)>>, a, 1)
RECURSIVE SPowNat(_, _)
SPowNat(u, k) == IF k = 0 THEN SConst(V1, Len(u)) ELSE SMul(u, SPowNat(u, k - 1))
SOne(N) == SConst(V1, N)
SSq(u) == SMul(u, u)
VSqrtOf(v) == VPow(v, VRat(<<1, 2>>))
\* Lambert W at 0 (table of the first coefficients (-k)^(k-1)/k!), composed with u, u_0 = 0
LWTable == <<R0, R1, <<-1, 1>>, <<3, 2>>, <<-8, 3>>, <<125, 24>>, <<-54, 5>>, <<16807, 720>>>>
RECURSIVE Horner(_, _, _)
Horner(tab, u, k) == IF k > Len(u) THEN SConst(V0, Len(u)) ELSE SAdd(SConst(VRat(tab[k]), Len(u)), SMul(u, Horner(tab, u, k + 1)))

Defined(s) == Len(s) > 0 /\ \A i \in 1..Len(s) : s[i].t = "num"
RECURSIVE Ser(_, _, _)
Ser(t, xs, N) ==
    LET k == t.k
        \* (zero-arity definitions: evaluated at most once per node)
        a1 == Ser(t.a[1], xs, N)
        a2 == Ser(t.a[2], xs, N)
        A(i) == IF i = 1 THEN a1 ELSE a2
        ok1 == Len(t.a) >= 1 /\ Defined(a1)
        ok2 == Len(t.a) >= 2 /\ Defined(a1) /\ Defined(a2)
        constExp == Len(t.a) = 2 /\ ~Occurs(t.a[2], xs)
        nope == <<>>
    IN CASE k = "Sym" -> (IF t.s = xs THEN SX(N) ELSE nope)
         [] k \in {"Int", "Rat", "Complex", "Const"} -> SConst(Val(t, [q \in {} |-> VUndef]), N)
         [] k \in {"add", "addv"} -> LET ss == [i \in 1..Len(t.a) |-> Ser(t.a[i], xs, N)]
                                     IN IF \A i \in 1..Len(t.a) : Defined(ss[i])
                                        THEN LET F[i \in 0..Len(t.a)] == IF i = 0 THEN SConst(V0, N) ELSE SAdd(F[i - 1], ss[i]) IN F[Len(t.a)] ELSE nope
         [] k \in {"mul", "mulv"} -> LET ss == [i \in 1..Len(t.a) |-> Ser(t.a[i], xs, N)]
                                     IN IF \A i \in 1..Len(t.a) : Defined(ss[i])
                                        THEN LET F[i \in 0..Len(t.a)] == IF i = 0 THEN SOne(N) ELSE SMul(F[i - 1], ss[i]) IN F[Len(t.a)] ELSE nope
         [] k = "sub" -> (IF ok2 THEN SAdd(A(1), SNeg(A(2))) ELSE nope)
         [] k = "neg" -> (IF ok1 THEN SNeg(A(1)) ELSE nope)
         [] k = "div" -> (IF ok2 /\ ~ExactZero(A(2)[1]) THEN SDiv(A(1), A(2)) ELSE nope)
         [] k = "pow" -> (IF ~ok1 \/ ~constExp THEN nope
                          ELSE LET a == Val(t.a[2], [q \in {} |-> VUndef])
                               IN IF a.t # "num" THEN nope
                                  ELSE IF ExactInt(a) /\ a.re[1] >= 0 THEN SPowNat(A(1), a.re[1])
                                  ELSE IF ExactZero(A(1)[1]) THEN nope
                                  ELSE SPow(A(1), a))
         [] k = "sqrt" -> (IF ok1 /\ ~ExactZero(A(1)[1]) THEN SPow(A(1), VRat(<<1, 2>>)) ELSE nope)
         [] k = "exp" -> (IF ok1 THEN SExp(A(1)) ELSE nope)
         [] k = "log" -> (IF ok1 /\ ~ExactZero(A(1)[1]) THEN SLog(A(1)) ELSE nope)
         [] k = "sin" -> (IF ok1 THEN SSinCos(A(1))[1] ELSE nope)
         [] k = "cos" -> (IF ok1 THEN SSinCos(A(1))[2] ELSE nope)
         [] k = "tan" -> (IF ok1 THEN LET p == SSinCos(A(1)) IN SDiv(p[1], p[2]) ELSE nope)
         [] k = "sec" -> (IF ok1 THEN SInv(SSinCos(A(1))[2]) ELSE nope)
         [] k = "sinh" -> (IF ok1 THEN SSinhCosh(A(1))[1] ELSE nope)
         [] k = "cosh" -> (IF ok1 THEN SSinhCosh(A(1))[2] ELSE nope)
         [] k = "tanh" -> (IF ok1 THEN LET p == SSinhCosh(A(1)) IN SDiv(p[1], p[2]) ELSE nope)
         [] k = "atan" -> (IF ok1 THEN SInt(Fun1("atan", A(1)[1]), SDiv(SDer(A(1)), SAdd(SOne(N), SSq(A(1))))) ELSE nope)
         [] k = "atanh" -> (IF ok1 THEN SInt(Fun1("atanh", A(1)[1]), SDiv(SDer(A(1)), SAdd(SOne(N), SNeg(SSq(A(1)))))) ELSE nope)
         [] k = "asin" -> (IF ok1 THEN SInt(Fun1("asin", A(1)[1]), SMul(SDer(A(1)), SPow(SAdd(SOne(N), SNeg(SSq(A(1)))), VRat(<<-1, 2>>)))) ELSE nope)
         [] k = "acos" -> (IF ok1 THEN SInt(Fun1("acos", A(1)[1]), SNeg(SMul(SDer(A(1)), SPow(SAdd(SOne(N), SNeg(SSq(A(1)))), VRat(<<-1, 2>>))))) ELSE nope)
         [] k = "asinh" -> (IF ok1 THEN SInt(Fun1("asinh", A(1)[1]), SMul(SDer(A(1)), SPow(SAdd(SOne(N), SSq(A(1))), VRat(<<-1, 2>>)))) ELSE nope)
         [] k = "lambertw" -> (IF ok1 /\ ExactZero(A(1)[1]) /\ N <= 8 THEN Horner(LWTable, A(1), 1) ELSE nope)
         [] OTHER -> nope
=============================================================================
