---------------------------------- MODULE RC ----------------------------------
(* Reference counting of immutable expression objects (class Basic with       *)
(* intrusive counts, RCP handles): the design that C40 relies on.  Objects    *)
(* form a DAG (children are created before their parents); handles are the    *)
(* RCP variables of a caller.  Every handle operation is a pure function on   *)
(* the state record (so that the trace specification can replay recorded      *)
(* histories with the same definitions) and an action of the state machine.   *)
(* TLC checks, for every interleaving of creating, copying, assigning and     *)
(* dropping handles over at most MaxObj objects, that counts equal the number *)
(* of referrers, that an object is freed exactly when its count reaches zero  *)
(* (cascading to its children), and that a quiescent caller (no handles)      *)
(* leaves no live object: the observable the trace specification checks after *)
(* every replayed case (hook H2: Basic::verif_live_basic).                    *)
EXTENDS Integers, FiniteSets, Sequences
CONSTANTS MaxObj, MaxHandles,
          Cascade,        \* FALSE: a deliberately wrong variant (children of a freed object keep their counts) that TLC must refute
          ReleaseFirst    \* TRUE: a deliberately wrong assignment (old pointee released before the new one is acquired) that TLC must refute
VARIABLES rc,        \* live object -> reference count
          kids,      \* live object -> sequence of children (the argument vector of the node)
          handles,   \* handle id -> object
          nextId
vars == <<rc, kids, handles, nextId>>
St == [rc |-> rc, kids |-> kids, handles |-> handles, nextId |-> nextId]
St0 == [rc |-> [o \in {} |-> 0], kids |-> [o \in {} |-> <<>>], handles |-> [h \in {} |-> 0], nextId |-> 1]
Becomes(s) == rc' = s.rc /\ kids' = s.kids /\ handles' = s.handles /\ nextId' = s.nextId
Live == DOMAIN rc
KidSet(s, o) == {s.kids[o][i] : i \in 1..Len(s.kids[o])}
\* counts in todo (a sequence of objects) drop by one each; an object reaching zero is freed and (Cascade) releases its children
RECURSIVE Release(_, _, _)
Release(r, k, todo) ==
    IF todo = <<>> THEN [rc |-> r, kids |-> k]
    ELSE LET o == Head(todo)
         IN IF r[o] > 1 THEN Release([r EXCEPT ![o] = @ - 1], k, Tail(todo))
            ELSE Release([x \in (DOMAIN r) \ {o} |-> r[x]], [x \in (DOMAIN k) \ {o} |-> k[x]],
                         Tail(todo) \o (IF Cascade THEN k[o] ELSE <<>>))
\* ---- the operations as functions of the state
NewF(s, h, ch) ==          \* make_rcp of a node with argument vector ch, held by the new handle h
    LET o == s.nextId
        inc(x) == Cardinality({i \in 1..Len(ch) : ch[i] = x})
    IN [rc |-> [x \in (DOMAIN s.rc) \cup {o} |-> IF x = o THEN 1 ELSE s.rc[x] + inc(x)],
        kids |-> [x \in (DOMAIN s.rc) \cup {o} |-> IF x = o THEN ch ELSE s.kids[x]],
        handles |-> [g \in (DOMAIN s.handles) \cup {h} |-> IF g = h THEN o ELSE s.handles[g]],
        nextId |-> o + 1]
DupF(s, h, g) ==           \* RCP g(h): copy construction
    [s EXCEPT !.rc = [@ EXCEPT ![s.handles[h]] = @ + 1],
              !.handles = [x \in (DOMAIN s.handles) \cup {g} |-> IF x = g THEN s.handles[h] ELSE s.handles[x]]]
DropF(s, h) ==             \* destruction / reset of h
    LET res == Release(s.rc, s.kids, <<s.handles[h]>>)
    IN [s EXCEPT !.rc = res.rc, !.kids = res.kids, !.handles = [g \in (DOMAIN s.handles) \ {h} |-> s.handles[g]]]
\* assignment h = (an RCP holding) target.  RCP::operator= acquires the new pointee before it releases the old one: the
\* right-hand side may be a reference to an RCP stored inside the object that h alone keeps alive, and releasing first
\* would free the new pointee (through the cascade) before its count is raised.
Dangles(s, h, target) == ReleaseFirst /\ target \notin DOMAIN Release(s.rc, s.kids, <<s.handles[h]>>).rc
AssignF(s, h, target) ==
    LET old == s.handles[h]
        res == IF ReleaseFirst THEN Release(s.rc, s.kids, <<old>>)
               ELSE Release([s.rc EXCEPT ![target] = @ + 1], s.kids, <<old>>)
    IN [s EXCEPT !.rc = IF ReleaseFirst THEN [res.rc EXCEPT ![target] = @ + 1] ELSE res.rc,
                 !.kids = res.kids, !.handles = [@ EXCEPT ![h] = target]]
\* ---- the state machine
Init == rc = St0.rc /\ kids = St0.kids /\ handles = St0.handles /\ nextId = St0.nextId
FreshH == CHOOSE h \in 1..(MaxHandles + 1) : h \notin DOMAIN handles
CanAdd == Cardinality(DOMAIN handles) < MaxHandles
New(ch) == nextId <= MaxObj /\ CanAdd /\ Becomes(NewF(St, FreshH, ch))
Dup(h) == CanAdd /\ Becomes(DupF(St, h, FreshH))
Drop(h) == Becomes(DropF(St, h))
AssignHandle(h, g) == ~Dangles(St, h, handles[g]) /\ Becomes(AssignF(St, h, handles[g]))
AssignChild(h, i) == ~Dangles(St, h, kids[handles[h]][i]) /\ Becomes(AssignF(St, h, kids[handles[h]][i]))
ArgVectors == UNION {[1..n -> Live] : n \in 0..2}
Next == \/ \E ch \in ArgVectors : New(ch)
        \/ \E h \in DOMAIN handles : Dup(h) \/ Drop(h)
        \/ \E h, g \in DOMAIN handles : AssignHandle(h, g)
        \/ \E h \in DOMAIN handles : \E i \in 1..Len(kids[handles[h]]) : AssignChild(h, i)
Spec == Init /\ [][Next]_vars
\* ---- properties
Referrers(o) == Cardinality({h \in DOMAIN handles : handles[h] = o})
                + Cardinality({<<p, i>> \in Live \X (1..2) : i <= Len(kids[p]) /\ kids[p][i] = o})
CountsExact == \A o \in Live : rc[o] = Referrers(o) /\ rc[o] > 0
ChildrenLive == \A o \in Live : KidSet(St, o) \subseteq Live
HandlesLive == \A h \in DOMAIN handles : handles[h] \in Live
QuiescentIsEmpty == (DOMAIN handles = {}) => Live = {}
\* the wrong assignment reaches a state in which it would acquire a freed object
NoDangling == \A h \in DOMAIN handles : \A i \in 1..Len(kids[handles[h]]) : ~Dangles(St, h, kids[handles[h]][i])
=============================================================================
