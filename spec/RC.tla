---------------------------------- MODULE RC ----------------------------------
(* Reference counting of immutable expression objects (class Basic with       *)
(* intrusive counts, RCP handles): the design that C40's leak clause relies    *)
(* on.  Objects form a DAG (children are created before their parents);        *)
(* handles are the RCP variables of a caller.  TLC checks, for every           *)
(* interleaving of creating, copying and dropping handles over at most MaxObj  *)
(* objects, that counts equal the number of referrers, that an object is       *)
(* freed exactly when its count reaches zero (cascading to its children), and  *)
(* that a quiescent caller (no handles) leaves no live object: the observable  *)
(* the trace specification checks after every replayed case (hook H2:          *)
(* Basic::verif_live_basic).                                                   *)
EXTENDS Integers, FiniteSets, Sequences
CONSTANTS MaxObj, MaxHandles, Cascade      \* Cascade = FALSE: a deliberately wrong variant (children of a freed object keep their counts) that TLC must refute
VARIABLES rc,        \* live object -> reference count
          kids,      \* live object -> set of children
          handles,   \* bag of handles: handle id -> object
          nextId
vars == <<rc, kids, handles, nextId>>
Live == DOMAIN rc
Init == rc = [o \in {} |-> 0] /\ kids = [o \in {} |-> {}] /\ handles = [h \in {} |-> 0] /\ nextId = 1
\* set of objects freed when the counts in dec (object -> decrement) are applied, cascading
RECURSIVE Release(_, _, _)
\* todo: sequence of objects whose count drops by one; returns <<rc, kids>> after all cascades
Release(r, k, todo) ==
    IF todo = <<>> THEN <<r, k>>
    ELSE LET o == Head(todo)
         IN IF r[o] > 1 THEN Release([r EXCEPT ![o] = @ - 1], k, Tail(todo))
            ELSE \* freed: remove it, then release its children
                 LET ch == k[o]
                     chSeq == CHOOSE s \in [1..Cardinality(ch) -> ch] : \A i, j \in 1..Cardinality(ch) : i # j => s[i] # s[j]
                     r2 == [x \in (DOMAIN r) \ {o} |-> r[x]]
                     k2 == [x \in (DOMAIN k) \ {o} |-> k[x]]
                 IN Release(r2, k2, Tail(todo) \o (IF Cascade THEN chSeq ELSE <<>>))
FreshH == CHOOSE h \in 1..(MaxHandles + 1) : h \notin DOMAIN handles
New(ch) == /\ nextId <= MaxObj /\ Cardinality(DOMAIN handles) < MaxHandles
           /\ ch \subseteq Live
           /\ rc' = [o \in Live \cup {nextId} |-> IF o = nextId THEN 1 ELSE IF o \in ch THEN rc[o] + 1 ELSE rc[o]]
           /\ kids' = [o \in Live \cup {nextId} |-> IF o = nextId THEN ch ELSE kids[o]]
           /\ handles' = [h \in (DOMAIN handles) \cup {FreshH} |-> IF h = FreshH THEN nextId ELSE handles[h]]
           /\ nextId' = nextId + 1
Dup(h) == /\ Cardinality(DOMAIN handles) < MaxHandles
          /\ rc' = [rc EXCEPT ![handles[h]] = @ + 1]
          /\ handles' = [g \in (DOMAIN handles) \cup {FreshH} |-> IF g = FreshH THEN handles[h] ELSE handles[g]]
          /\ UNCHANGED <<kids, nextId>>
Drop(h) == LET res == Release(rc, kids, <<handles[h]>>)
           IN /\ rc' = res[1] /\ kids' = res[2]
              /\ handles' = [g \in (DOMAIN handles) \ {h} |-> handles[g]]
              /\ UNCHANGED nextId
Next == (\E ch \in SUBSET Live : New(ch)) \/ (\E h \in DOMAIN handles : Dup(h) \/ Drop(h))
Spec == Init /\ [][Next]_vars
Referrers(o) == Cardinality({h \in DOMAIN handles : handles[h] = o}) + Cardinality({p \in Live : o \in kids[p]})
CountsExact == \A o \in Live : rc[o] = Referrers(o) /\ rc[o] > 0
ChildrenLive == \A o \in Live : kids[o] \subseteq Live
QuiescentIsEmpty == (DOMAIN handles = {}) => Live = {}
=============================================================================
