------------------------------ MODULE Trace_C37 ------------------------------
(* C37: cse(exprs) = (replacements, reduced).  Contract:                    *)
(*  fresh     every replacement symbol is a symbol that does not occur in   *)
(*            the inputs, and the replacement symbols are pairwise distinct *)
(*  ordered   the expression of replacement j mentions replacement symbols  *)
(*            of index < j only                                             *)
(*  faithful  substituting back, last to first, gives the inputs: the       *)
(*            harness does it with xreplace and must report equal objects;  *)
(*            independently the specification evaluates reduced[i] in the   *)
(*            environment extended by the replacements (in order) and       *)
(*            compares with the value of input i                            *)
EXTENDS Integers, Sequences, FiniteSets, TLC, Json, IOUtils, Term, Envs
VARIABLES l, bad, dec

RECURSIVE SymsOf(_), SymsOfSeq(_, _)
SymsOfSeq(a, i) == IF i > Len(a) THEN {} ELSE SymsOf(a[i]) \cup SymsOfSeq(a, i + 1)
SymsOf(t) == IF t.k = "Sym" THEN {t.s} ELSE IF t.k = "Dbl" THEN {} ELSE SymsOfSeq(t.a, 1)
RECURSIVE ExtEnv(_, _, _)
\* environment after evaluating replacements 1..j in order
ExtEnv(repl, env, j) == IF j = 0 THEN env
                        ELSE LET e == ExtEnv(repl, env, j - 1)
                             IN [s \in (DOMAIN e) \cup {repl[j][1].s} |-> IF s = repl[j][1].s THEN Val(repl[j][2], e) ELSE e[s]]
Base(k) == LET e == EnvSets["arith"][k] IN [s \in {"x", "y", "z", "w", "x0", "x1"} |->
              CASE s = "w" -> VRat(<<7, 3>>) [] s = "x0" -> VRat(<<-5, 2>>) [] s = "x1" -> VRat(<<4, 1>>) [] OTHER -> e[s]]
CheckEv(e) ==
    IF e.r.exc # "" THEN "bad:harness:" \o e.r.exc
    ELSE IF e.r.cexc = "VerifAssertionError" THEN "bad:assertion"
    ELSE IF e.r.cexc # "" THEN "bad:exception:" \o e.r.cexc
    ELSE LET repl == e.r.repl
             n == Len(repl)
             inSyms == SymsOfSeq(e.r.ins, 1)
             rs(j) == repl[j][1].s
             rsyms == {rs(j) : j \in 1..n}
             value(i) == \E k \in 1..4 : LET b == Base(k)
                                             want == Val(e.r.ins[i], b)
                                             got == Val(e.r.reduced[i], ExtEnv(repl, b, n))
                                         IN want.t = "num" /\ Cmp3(want, got) = "ne"
         IN IF Len(e.r.reduced) # Len(e.r.ins) THEN "bad:number-of-reduced-expressions"
            ELSE IF \E j \in 1..n : repl[j][1].k # "Sym" THEN "bad:replacement-key-not-a-symbol"
            ELSE IF \E j \in 1..n : rs(j) \in inSyms THEN "bad:replacement-symbol-not-fresh"
            ELSE IF Cardinality(rsyms) # n THEN "bad:replacement-symbol-repeated"
            ELSE IF \E j \in 1..n : \E s \in SymsOf(repl[j][2]) : s \in rsyms /\ s \notin {rs(i) : i \in 1..(j - 1)} THEN "bad:replacement-refers-to-later-symbol"
            ELSE IF \E i \in 1..Len(e.r.same) : e.r.same[i] # 1 THEN "bad:back-substitution-differs"
            ELSE IF \E i \in 1..Len(e.r.ins) : value(i) THEN "bad:value"
            ELSE "ok"
Events == ndJsonDeserialize(IOEnv.TRACE)
K == INSTANCE TraceKit WITH Check <- CheckEv, Events <- Events
Init == K!Init
Next == K!Next
Verdict == K!Verdict
=============================================================================
