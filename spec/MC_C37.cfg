INIT Init
NEXT Next
