------------------------------ MODULE Trace_C34 ------------------------------
(* C34: a definite answer of a property query under assumptions must hold   *)
(* at every assignment satisfying the assumptions.  The truth of each       *)
(* property on a value of the specification's value domain is three-valued; *)
(* only a definite disagreement rejects.                                    *)
EXTENDS Integers, Sequences, FiniteSets, TLC, Json, IOUtils, Term, Envs
VARIABLES l, bad, dec

Tri(b) == IF b THEN "T" ELSE "F"
Neg3(t) == IF t = "T" THEN "F" ELSE IF t = "F" THEN "T" ELSE "U"
Inf(v) == v.t \in {"oo", "noo", "zoo"}
\* exactly known, or known in polar form (radicals): mo[5] = angle in units of pi/12
NonRealPolar(v) == IsNum(v) /\ Len(v.mo) = 5 /\ v.mo[5] % 12 # 0
RealPolar(v) == IsNum(v) /\ Len(v.mo) = 5 /\ v.mo[5] % 12 = 0
IsReal3(v) == IF Inf(v) THEN (IF v.t = "zoo" THEN "F" ELSE "U")     \* (oo: extended real, no claim)
              ELSE IF ~IsNum(v) THEN "U"
              ELSE IF Exact(v) THEN Tri(v.im = R0 /\ v.ip = R0)
              ELSE IF NonRealPolar(v) THEN "F" ELSE IF RealPolar(v) THEN "T" ELSE "U"
\* sign of a real value: -1, 0, 1, or 2
Sign3(v) == IF v.t = "oo" THEN 1 ELSE IF v.t = "noo" THEN -1 ELSE PhaseSign(v)
Zero3(v) == IF Inf(v) THEN "F" ELSE IF ~IsNum(v) THEN "U"
            ELSE IF Exact(v) THEN Tri(ExactZero(v))
            ELSE IF v.fl = 0 /\ MDef(v.m) /\ v.m # <<0, 0>> THEN "F" ELSE "U"       \* a non-zero residue: not zero
SignIs(v, want) ==    \* want: set of signs
    IF IsReal3(v) = "F" THEN "F"
    ELSE IF v.t = "zoo" THEN "F"
    ELSE LET s == Sign3(v) IN IF s = 2 THEN "U" ELSE Tri(s \in want)
Rational3(v) == IF ~IsNum(v) THEN (IF Inf(v) THEN "F" ELSE "U")
                ELSE IF Exact(v) THEN Tri(v.im = R0 /\ v.ip = R0 /\ v.pi = R0) ELSE "U"
Integer3(v) == IF ~IsNum(v) THEN (IF Inf(v) THEN "F" ELSE "U")
               ELSE IF Exact(v) THEN Tri(ExactInt(v)) ELSE "U"
\* irrational: real and not rational (exactly known values: a non-zero multiple of pi added)
Irrational3(v) == IF ~IsNum(v) THEN (IF Inf(v) THEN "F" ELSE "U")
                  ELSE IF Exact(v) THEN Tri(v.im = R0 /\ v.ip = R0 /\ v.pi # R0) ELSE "U"
Parity3(v, r) == IF ~IsNum(v) THEN (IF Inf(v) THEN "F" ELSE "U")
                 ELSE IF Exact(v) THEN (IF ExactInt(v) THEN Tri(IAbs(v.re[1]) % 2 = r) ELSE "F") ELSE "U"
\* algebraic: Gaussian rationals are; a rational plus a non-zero rational multiple of pi (or i pi) is not
Algebraic3(v) == IF ~IsNum(v) THEN (IF Inf(v) THEN "F" ELSE "U")
                 ELSE IF Exact(v) THEN Tri(v.pi = R0 /\ v.ip = R0) ELSE "U"
NumberTheoretic == {"integer", "rational", "irrational", "even", "odd", "algebraic", "transcendental"}
Truth(p, v) ==
    IF v.t \in {"undef", "bool", "nan"} THEN "U"
    \* the classification of a floating-point value is a convention (3.0 is not "an integer"): not decided
    ELSE IF IsNum(v) /\ v.fl = 1 /\ p \in NumberTheoretic THEN "U"
    ELSE CASE p = "zero" -> Zero3(v)
           [] p = "nonzero" -> (IF v.t = "zoo" \/ Inf(v) THEN "U" ELSE Neg3(Zero3(v)))
           [] p = "positive" -> SignIs(v, {1})
           [] p = "negative" -> SignIs(v, {-1})
           [] p = "nonnegative" -> SignIs(v, {0, 1})
           [] p = "nonpositive" -> SignIs(v, {0, -1})
           [] p = "real" -> IsReal3(v)
           [] p = "complex" -> (IF IsNum(v) THEN "T" ELSE "U")
           [] p = "integer" -> Integer3(v)
           [] p = "rational" -> Rational3(v)
           [] p = "irrational" -> Irrational3(v)
           [] p = "finite" -> (IF IsNum(v) THEN "T" ELSE IF Inf(v) THEN "F" ELSE "U")
           [] p = "infinite" -> (IF IsNum(v) THEN "F" ELSE IF Inf(v) THEN "T" ELSE "U")
           [] p = "even" -> Parity3(v, 0)
           [] p = "odd" -> Parity3(v, 1)
           [] p = "algebraic" -> Algebraic3(v)
           [] p = "transcendental" -> (IF IsNum(v) THEN Neg3(Algebraic3(v)) ELSE IF Inf(v) THEN "F" ELSE "U")
           [] OTHER -> "U"

\* structural polynomial test on the dump: numbers, constants and non-variable subterms are
\* coefficients; variables combine by Add, Mul and non-negative integer powers only
RECURSIVE HasVar(_, _), HasVarSeq(_, _, _), IsPoly(_, _), IsPolySeq(_, _, _)
HasVarSeq(a, vars, i) == IF i > Len(a) THEN FALSE ELSE HasVar(a[i], vars) \/ HasVarSeq(a, vars, i + 1)
HasVar(t, vars) == IF t.k = "Sym" THEN (vars = {} \/ t.s \in vars) ELSE IF t.k = "Dbl" THEN FALSE ELSE HasVarSeq(t.a, vars, 1)
IsPolySeq(a, vars, i) == i > Len(a) \/ (IsPoly(a[i], vars) /\ IsPolySeq(a, vars, i + 1))
IsPoly(t, vars) ==
    IF ~HasVar(t, vars) THEN TRUE
    ELSE CASE t.k = "Sym" -> TRUE
           [] t.k = "Add" -> \A i \in 2..Len(t.a) : IsPoly(t.a[i].a[1], vars)
           [] t.k = "Mul" -> \A i \in 2..Len(t.a) : IsPoly(T("Pow", t.a[i].a, "", 0, 0), vars)
           [] t.k = "Pow" -> (IF t.a[2].k = "Int" /\ t.a[2].n = 1 THEN IsPoly(t.a[1], vars)
                              ELSE t.a[2].k = "Int" /\ t.a[2].n >= 0 /\ IsPoly(t.a[1], vars))
           [] OTHER -> FALSE

Props == {"zero", "nonzero", "positive", "negative", "nonnegative", "nonpositive", "real", "complex", "integer", "rational",
          "irrational", "finite", "infinite", "even", "odd", "algebraic", "transcendental"}
CheckEv(e) ==
    IF e.r.exc # "" THEN (IF e.r.exc = "VerifAssertionError" THEN "bad:assertion" ELSE "unk")
    ELSE LET envs == EnvSets[e.c.envs]
             vals == [k \in 1..Len(envs) |-> Val(e.c.e, envs[k])]
             wrong == {p \in Props : e.r.q[p] \in {"T", "F"} /\ \E k \in 1..Len(envs) : Truth(p, vals[k]) \notin {"U", e.r.q[p]}}
             decided == {p \in Props : e.r.q[p] \in {"T", "F"} /\ \E k \in 1..Len(envs) : Truth(p, vals[k]) = e.r.q[p]}
             vars == {e.c.vars[i].s : i \in 1..Len(e.c.vars)}
             polyWrong == e.r.q.polynomial \in {"T", "F"} /\ e.r.q.polynomial # Tri(IsPoly(e.r.e, vars))
         IN IF \E p \in Props : e.r.q[p] = "X:VerifAssertionError" THEN "bad:assertion"
            ELSE IF wrong # {} THEN LET p == CHOOSE p \in wrong : TRUE
                                        k == CHOOSE k \in 1..Len(envs) : Truth(p, vals[k]) \notin {"U", e.r.q[p]}
                                    IN "bad:is_" \o p \o "=" \o e.r.q[p] \o "@" \o ToString(k)
            ELSE IF polyWrong THEN "bad:is_polynomial=" \o e.r.q.polynomial
            ELSE "ok"

Events == ndJsonDeserialize(IOEnv.TRACE)
K == INSTANCE TraceKit WITH Check <- CheckEv, Events <- Events
Init == K!Init
Next == K!Next
Verdict == K!Verdict
=============================================================================
