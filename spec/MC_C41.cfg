INIT Init
NEXT Next
