-------------------------------- MODULE Order --------------------------------
(* Relational model of equality, hashing and ordering of expressions (C01,  *)
(* C02).  An observation is a finite universe 1..n of objects with the      *)
(* relations the library reported: eq[i][j], hash class hash[i], cmp[i][j], *)
(* less[i][j] (the key order of ordered containers), container sizes and    *)
(* iteration orders.  The invariants are the axioms the containers rely on. *)
EXTENDS Integers, Sequences, FiniteSets

\* objects that could be built
Live(o) == {i \in 1..Len(o.ok) : o.ok[i] = 1}
Eqv(o, i, j) == o.eq[i][j] = 1

\* each operator returns the set of witnesses (tuples of indices) violating the axiom
EqReflexive(o) == {<<i>> : i \in {i \in Live(o) : ~Eqv(o, i, i)}}
EqSymmetric(o) == {p \in Live(o) \X Live(o) : p[1] < p[2] /\ Eqv(o, p[1], p[2]) # Eqv(o, p[2], p[1])}
EqTransitive(o) == {t \in Live(o) \X Live(o) \X Live(o) :
                      Eqv(o, t[1], t[2]) /\ Eqv(o, t[2], t[3]) /\ ~Eqv(o, t[1], t[3])}
EqImpliesHash(o) == {p \in Live(o) \X Live(o) : p[1] < p[2] /\ Eqv(o, p[1], p[2]) /\ o.hash[p[1]] # o.hash[p[2]]}
HashCacheStable(o) == {<<i>> : i \in {i \in Live(o) : o.rehash[i] # 1}}

CmpRange(o) == {p \in Live(o) \X Live(o) : o.cmp[p[1]][p[2]] \notin {-1, 0, 1}}
CmpZeroIffEq(o) == {p \in Live(o) \X Live(o) : (o.cmp[p[1]][p[2]] = 0) # Eqv(o, p[1], p[2])}
CmpAntisym(o) == {p \in Live(o) \X Live(o) : p[1] < p[2] /\ o.cmp[p[1]][p[2]] # -(o.cmp[p[2]][p[1]])}
CmpTransitive(o) == {t \in Live(o) \X Live(o) \X Live(o) :
                       o.cmp[t[1]][t[2]] = -1 /\ o.cmp[t[2]][t[3]] = -1 /\ o.cmp[t[1]][t[3]] # -1}
\* the container key order is a strict weak order whose incomparability is eq
Lt(o, i, j) == o.less[i][j] = 1
LessIrreflexive(o) == {<<i>> : i \in {i \in Live(o) : Lt(o, i, i)}}
LessTotalUpToEq(o) == {p \in Live(o) \X Live(o) : p[1] < p[2] /\
                         ((IF Lt(o, p[1], p[2]) THEN 1 ELSE 0) + (IF Lt(o, p[2], p[1]) THEN 1 ELSE 0)
                          + (IF Eqv(o, p[1], p[2]) THEN 1 ELSE 0)) # 1}
LessTransitive(o) == {t \in Live(o) \X Live(o) \X Live(o) :
                        Lt(o, t[1], t[2]) /\ Lt(o, t[2], t[3]) /\ ~Lt(o, t[1], t[3])}

\* number of eq-classes: representatives = objects with no smaller equal one
Reps(o) == {i \in Live(o) : \A j \in Live(o) : j < i => ~Eqv(o, j, i)}
ContainersAreQuotients(o) ==
    LET n == Cardinality(Reps(o))
    IN (IF o.set # n THEN {<<-1>>} ELSE {}) \cup (IF o.umap # n THEN {<<-2>>} ELSE {})
       \cup (IF o.uset # n THEN {<<-3>>} ELSE {})
\* every insertion order gives the same iteration order, sorted by the key order, one element per class
OrdersAgree(o) ==
    (IF \E p \in 1..Len(o.orders) : o.orders[p] # o.orders[1] THEN {<<-4>>} ELSE {})
    \cup (IF \E p \in 1..Len(o.orders) : \E a \in 1..Len(o.orders[p]) : \E b \in 1..Len(o.orders[p]) :
                a < b /\ ~Lt(o, o.orders[p][a], o.orders[p][b]) THEN {<<-5>>} ELSE {})
\* objects built along different construction paths of the same value must be equal
AltPathsEqual(o, groups) ==
    {p \in Live(o) \X Live(o) : p[1] < p[2] /\ groups[p[1]] = groups[p[2]] /\ groups[p[1]] # 0 /\ ~Eqv(o, p[1], p[2])}
=============================================================================
