------------------------------- MODULE Expand -------------------------------
(* Structural side of C09: the "expanded" normal form of dumps.             *)
EXTENDS Integers, Sequences, Term

IsPosInt(t) == t.k = "Int" /\ t.n > 0
RECURSIVE IsExpanded(_), AllExpanded(_, _)
AllExpanded(a, i) == i > Len(a) \/ (IsExpanded(a[i]) /\ AllExpanded(a, i + 1))
\* no product and no positive integer power of a sum outside function arguments
IsExpanded(t) ==
    CASE t.k = "Add" ->
           \A i \in 2..Len(t.a) : t.a[i].a[1].k # "Add" /\ IsExpanded(t.a[i].a[1])
      [] t.k = "Mul" ->
           \A i \in 2..Len(t.a) :
              LET b == t.a[i].a[1] e == t.a[i].a[2]
              IN /\ ~(b.k = "Add" /\ IsPosInt(e))
                 /\ (IsPosInt(e) => IsExpanded(b))
      [] t.k = "Pow" -> /\ ~(t.a[1].k = "Add" /\ IsPosInt(t.a[2]))
                        /\ (IsPosInt(t.a[2]) => IsExpanded(t.a[1]))
      [] OTHER -> TRUE
=============================================================================
