INIT Init
NEXT Next
