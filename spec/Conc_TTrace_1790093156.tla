---- MODULE Conc_TTrace_1790093156 ----
EXTENDS Conc, Sequences, TLCExt, Toolbox, Naturals, TLC

_expression ==
    LET Conc_TEExpression == INSTANCE Conc_TEExpression
    IN Conc_TEExpression!expression
----

_trace ==
    LET Conc_TETrace == INSTANCE Conc_TETrace
    IN Conc_TETrace!trace
----

_inv ==
    ~(
        TLCGet("level") = Len(_TETrace)
        /\
        rc = (0)
        /\
        pc = (<<"acq", "acq">>)
        /\
        round = (<<1, 1>>)
        /\
        tmp = (<<2, 1>>)
        /\
        cnt = (1)
        /\
        ids = (<<0, 0>>)
        /\
        holds = ({})
        /\
        freed = (TRUE)
        /\
        seen = ({7})
        /\
        hash = (7)
    )
----

_init ==
    /\ rc = _TETrace[1].rc
    /\ seen = _TETrace[1].seen
    /\ ids = _TETrace[1].ids
    /\ freed = _TETrace[1].freed
    /\ hash = _TETrace[1].hash
    /\ cnt = _TETrace[1].cnt
    /\ round = _TETrace[1].round
    /\ pc = _TETrace[1].pc
    /\ tmp = _TETrace[1].tmp
    /\ holds = _TETrace[1].holds
----

_next ==
    /\ \E i,j \in DOMAIN _TETrace:
        /\ \/ /\ j = i + 1
              /\ i = TLCGet("level")
        /\ rc  = _TETrace[i].rc
        /\ rc' = _TETrace[j].rc
        /\ seen  = _TETrace[i].seen
        /\ seen' = _TETrace[j].seen
        /\ ids  = _TETrace[i].ids
        /\ ids' = _TETrace[j].ids
        /\ freed  = _TETrace[i].freed
        /\ freed' = _TETrace[j].freed
        /\ hash  = _TETrace[i].hash
        /\ hash' = _TETrace[j].hash
        /\ cnt  = _TETrace[i].cnt
        /\ cnt' = _TETrace[j].cnt
        /\ round  = _TETrace[i].round
        /\ round' = _TETrace[j].round
        /\ pc  = _TETrace[i].pc
        /\ pc' = _TETrace[j].pc
        /\ tmp  = _TETrace[i].tmp
        /\ tmp' = _TETrace[j].tmp
        /\ holds  = _TETrace[i].holds
        /\ holds' = _TETrace[j].holds

\* Uncomment the ASSUME below to write the states of the error trace
\* to the given file in Json format. Note that you can pass any tuple
\* to `JsonSerialize`. For example, a sub-sequence of _TETrace.
    \* ASSUME
    \*     LET J == INSTANCE Json
    \*         IN J!JsonSerialize("Conc_TTrace_1790093156.json", _TETrace)

=============================================================================

 Note that you can extract this module `Conc_TEExpression`
  to a dedicated file to reuse `expression` (the module in the 
  dedicated `Conc_TEExpression.tla` file takes precedence 
  over the module `Conc_TEExpression` below).

---- MODULE Conc_TEExpression ----
EXTENDS Conc, Sequences, TLCExt, Toolbox, Naturals, TLC

expression == 
    [
        \* To hide variables of the `Conc` spec from the error trace,
        \* remove the variables below.  The trace will be written in the order
        \* of the fields of this record.
        rc |-> rc
        ,seen |-> seen
        ,ids |-> ids
        ,freed |-> freed
        ,hash |-> hash
        ,cnt |-> cnt
        ,round |-> round
        ,pc |-> pc
        ,tmp |-> tmp
        ,holds |-> holds
        
        \* Put additional constant-, state-, and action-level expressions here:
        \* ,_stateNumber |-> _TEPosition
        \* ,_rcUnchanged |-> rc = rc'
        
        \* Format the `rc` variable as Json value.
        \* ,_rcJson |->
        \*     LET J == INSTANCE Json
        \*     IN J!ToJson(rc)
        
        \* Lastly, you may build expressions over arbitrary sets of states by
        \* leveraging the _TETrace operator.  For example, this is how to
        \* count the number of times a spec variable changed up to the current
        \* state in the trace.
        \* ,_rcModCount |->
        \*     LET F[s \in DOMAIN _TETrace] ==
        \*         IF s = 1 THEN 0
        \*         ELSE IF _TETrace[s].rc # _TETrace[s-1].rc
        \*             THEN 1 + F[s-1] ELSE F[s-1]
        \*     IN F[_TEPosition - 1]
    ]

=============================================================================



Parsing and semantic processing can take forever if the trace below is long.
 In this case, it is advised to uncomment the module below to deserialize the
 trace from a generated binary file.

\*
\*---- MODULE Conc_TETrace ----
\*EXTENDS Conc, IOUtils, TLC
\*
\*trace == IODeserialize("Conc_TTrace_1790093156.bin", TRUE)
\*
\*=============================================================================
\*

---- MODULE Conc_TETrace ----
EXTENDS Conc, TLC

trace == 
    <<
    ([rc |-> 1,pc |-> <<"acq", "acq">>,round |-> <<0, 0>>,tmp |-> <<0, 0>>,cnt |-> 0,ids |-> <<>>,holds |-> {},freed |-> FALSE,seen |-> {},hash |-> 0]),
    ([rc |-> 1,pc |-> <<"acq", "acq2">>,round |-> <<0, 0>>,tmp |-> <<0, 1>>,cnt |-> 0,ids |-> <<>>,holds |-> {},freed |-> FALSE,seen |-> {},hash |-> 0]),
    ([rc |-> 1,pc |-> <<"acq2", "acq2">>,round |-> <<0, 0>>,tmp |-> <<1, 1>>,cnt |-> 0,ids |-> <<>>,holds |-> {},freed |-> FALSE,seen |-> {},hash |-> 0]),
    ([rc |-> 2,pc |-> <<"hash", "acq2">>,round |-> <<0, 0>>,tmp |-> <<1, 1>>,cnt |-> 0,ids |-> <<>>,holds |-> {1},freed |-> FALSE,seen |-> {},hash |-> 0]),
    ([rc |-> 2,pc |-> <<"hash2", "acq2">>,round |-> <<0, 0>>,tmp |-> <<1, 1>>,cnt |-> 0,ids |-> <<>>,holds |-> {1},freed |-> FALSE,seen |-> {},hash |-> 0]),
    ([rc |-> 2,pc |-> <<"dummy", "acq2">>,round |-> <<0, 0>>,tmp |-> <<1, 1>>,cnt |-> 0,ids |-> <<>>,holds |-> {1},freed |-> FALSE,seen |-> {7},hash |-> 7]),
    ([rc |-> 2,pc |-> <<"dummy", "hash">>,round |-> <<0, 0>>,tmp |-> <<1, 1>>,cnt |-> 0,ids |-> <<>>,holds |-> {1, 2},freed |-> FALSE,seen |-> {7},hash |-> 7]),
    ([rc |-> 2,pc |-> <<"dummy", "dummy">>,round |-> <<0, 0>>,tmp |-> <<1, 1>>,cnt |-> 0,ids |-> <<>>,holds |-> {1, 2},freed |-> FALSE,seen |-> {7},hash |-> 7]),
    ([rc |-> 2,pc |-> <<"dummy2", "dummy">>,round |-> <<0, 0>>,tmp |-> <<0, 1>>,cnt |-> 0,ids |-> <<>>,holds |-> {1, 2},freed |-> FALSE,seen |-> {7},hash |-> 7]),
    ([rc |-> 2,pc |-> <<"dummy2", "dummy2">>,round |-> <<0, 0>>,tmp |-> <<0, 0>>,cnt |-> 0,ids |-> <<>>,holds |-> {1, 2},freed |-> FALSE,seen |-> {7},hash |-> 7]),
    ([rc |-> 2,pc |-> <<"rel", "dummy2">>,round |-> <<0, 0>>,tmp |-> <<0, 0>>,cnt |-> 1,ids |-> <<0>>,holds |-> {1, 2},freed |-> FALSE,seen |-> {7},hash |-> 7]),
    ([rc |-> 2,pc |-> <<"rel2", "dummy2">>,round |-> <<0, 0>>,tmp |-> <<2, 0>>,cnt |-> 1,ids |-> <<0>>,holds |-> {1, 2},freed |-> FALSE,seen |-> {7},hash |-> 7]),
    ([rc |-> 1,pc |-> <<"acq", "dummy2">>,round |-> <<1, 0>>,tmp |-> <<2, 0>>,cnt |-> 1,ids |-> <<0>>,holds |-> {2},freed |-> FALSE,seen |-> {7},hash |-> 7]),
    ([rc |-> 1,pc |-> <<"acq", "rel">>,round |-> <<1, 0>>,tmp |-> <<2, 0>>,cnt |-> 1,ids |-> <<0, 0>>,holds |-> {2},freed |-> FALSE,seen |-> {7},hash |-> 7]),
    ([rc |-> 1,pc |-> <<"acq", "rel2">>,round |-> <<1, 0>>,tmp |-> <<2, 1>>,cnt |-> 1,ids |-> <<0, 0>>,holds |-> {2},freed |-> FALSE,seen |-> {7},hash |-> 7]),
    ([rc |-> 0,pc |-> <<"acq", "acq">>,round |-> <<1, 1>>,tmp |-> <<2, 1>>,cnt |-> 1,ids |-> <<0, 0>>,holds |-> {},freed |-> TRUE,seen |-> {7},hash |-> 7])
    >>
----


=============================================================================

---- CONFIG Conc_TTrace_1790093156 ----
CONSTANTS
    Threads = { 1 , 2 }
    Rounds = 2
    Atomic = FALSE
    H = 7

INVARIANT
    _inv

CHECK_DEADLOCK
    \* CHECK_DEADLOCK off because of PROPERTY or INVARIANT above.
    FALSE

INIT
    _init

NEXT
    _next

CONSTANT
    _TETrace <- _trace

ALIAS
    _expression
=============================================================================
\* Generated on Tue Sep 22 16:05:58 UTC 2026