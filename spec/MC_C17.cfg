INIT Init
NEXT Next
