------------------------------- MODULE MC_RCH -------------------------------
(* Histories of handle operations from the reference-counting state machine *)
(* (module RC), for replay on real RCP<const Basic> handles: TLC simulates  *)
(* the machine, checks its invariants in every state and emits each history *)
(* of length Depth with the handle / object identifiers the model chose.    *)
EXTENDS RC, TLC, Json, IOUtils
CONSTANTS Depth
VARIABLES hist
Op(name, h, g, ch) == [op |-> name, h |-> h, g |-> g, ch |-> ch]
HInit == Init /\ hist = <<>>
HNext == /\ Len(hist) < Depth
         /\ \/ \E ch \in ArgVectors : New(ch) /\ hist' = Append(hist, Op("new", FreshH, 0, ch))
            \/ \E h \in DOMAIN handles : Dup(h) /\ hist' = Append(hist, Op("dup", h, FreshH, <<>>))
            \/ \E h \in DOMAIN handles : Drop(h) /\ hist' = Append(hist, Op("drop", h, 0, <<>>))
            \/ \E h, g \in DOMAIN handles : AssignHandle(h, g) /\ hist' = Append(hist, Op("assign", h, g, <<>>))
            \/ \E h \in DOMAIN handles : \E i \in 1..Len(kids[handles[h]]) : AssignChild(h, i) /\ hist' = Append(hist, Op("assignarg", h, i, <<>>))
HSpec == HInit /\ [][HNext]_<<vars, hist>>
Emit == (Len(hist) = Depth) =>
          Serialize(ToJson([op |-> "rcpops", ops |-> hist]) \o "\n", IOEnv.OUT,
                    [format |-> "TXT", charset |-> "UTF-8", openOptions |-> <<"WRITE", "CREATE", "APPEND">>]).exitValue = 0
=============================================================================
