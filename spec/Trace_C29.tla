------------------------------ MODULE Trace_C29 ------------------------------
(* C29: Lt/Le/Gt/Ge on real numbers are true exactly when the numeric       *)
(* relation holds; Eq/Ne are symmetric and complementary; substituting      *)
(* numbers into symbolic relationals gives the same truth values.           *)
EXTENDS Integers, Sequences, FiniteSets, TLC, Json, IOUtils, Num
VARIABLES l, bad, dec

Truth(v) == IF v.exc # "" THEN "exc:" \o v.exc
            ELSE IF v.v.k = "True" THEN "T" ELSE IF v.v.k = "False" THEN "F" ELSE "other:" \o v.v.k
TV(b) == IF b THEN "T" ELSE "F"
Neg(s) == IF s = "T" THEN "F" ELSE IF s = "F" THEN "T" ELSE s

CheckEv(e) ==
    LET A == NVal(e.c.a)
        B == NVal(e.c.b)
        c == RealCmp(A, B)
        r == [i \in 1..Len(e.r.vs) |-> Truth(e.r.vs[i])]
        ord(i, want) == IF r[i] = TV(want) THEN "" ELSE "bad:order:" \o e.c.ts[i].k \o "=" \o r[i]
        errs == IF c = "unk" THEN <<>>
                ELSE SelectSeq(<< ord(1, c = "lt"), ord(2, c \in {"lt", "eq"}), ord(3, c = "gt"),
                                  ord(4, c \in {"gt", "eq"}),
                                  ord(9, c = "lt"), ord(10, c \in {"lt", "eq"}), ord(11, c = "gt"),
                                  ord(12, c \in {"gt", "eq"}) >>, LAMBDA s : s # "")
        eqs == SelectSeq(<<
                 IF r[5] \in {"T", "F"} /\ r[5] = r[7] THEN "" ELSE "bad:Eq-not-symmetric",
                 IF r[6] \in {"T", "F"} /\ r[6] = r[8] THEN "" ELSE "bad:Ne-not-symmetric",
                 IF r[6] = Neg(r[5]) THEN "" ELSE "bad:Ne-not-negation-of-Eq",
                 IF r[13] = r[5] THEN "" ELSE "bad:subs-Eq",
                 IF r[14] = r[6] THEN "" ELSE "bad:subs-Ne",
                 \* same-kind exact numbers: Eq is equality of values
                 IF IsExactKind(e.c.a) /\ IsExactKind(e.c.b) /\ c # "unk" /\ r[5] # TV(c = "eq")
                 THEN "bad:Eq-exact" ELSE "" >>, LAMBDA s : s # "")
    IN IF e.r.exc # "" THEN "bad:harness:" \o e.r.exc
       ELSE IF Len(errs) > 0 THEN errs[1]
       ELSE IF Len(eqs) > 0 THEN eqs[1]
       ELSE IF c = "unk" THEN "unk" ELSE "ok"

Events == ndJsonDeserialize(IOEnv.TRACE)
K == INSTANCE TraceKit WITH Check <- CheckEv, Events <- Events
Init == K!Init
Next == K!Next
Verdict == K!Verdict
=============================================================================
