INIT Init
NEXT Next
