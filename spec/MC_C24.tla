------------------------------- MODULE MC_C24 -------------------------------
(* Cases for C24: square matrices of exact numbers with a right-hand side   *)
(* and a second matrix.                                                     *)
EXTENDS Integers, Sequences, FiniteSets, TLC, Json, IOUtils, SequencesExt, Randomization, Term
Thorough == "TIER" \in DOMAIN IOEnv /\ IOEnv.TIER = "thorough"
E2 == {TInt(-2), TInt(-1), TInt(0), TInt(1), TInt(2)}
E2r == {TInt(-1), TInt(0), TInt(1), TRat(1, 2)}
E3 == {TInt(-1), TInt(0), TInt(1), TInt(2)}
M2 == [1..4 -> E2] \cup [1..4 -> E2r]
Sym3 == {<<a, b, c, b, d, e, c, e, f>> : a \in {TInt(1), TInt(2), TInt(4)}, b \in {TInt(0), TInt(1), TInt(-1)}, c \in {TInt(0), TInt(1)},
                                        d \in {TInt(2), TInt(3)}, e \in {TInt(0), TInt(-1)}, f \in {TInt(3), TInt(5)}}
N3 == IF Thorough THEN 4000 ELSE 350
M3 == RandomSubset(N3, [1..9 -> E3]) \cup Sym3
         \cup {<<TInt(0), TInt(1), TInt(2), TInt(1), TInt(0), TInt(3), TInt(4), TInt(-3), TInt(8)>>,      \* zero pivot
               <<TInt(1), TInt(2), TInt(3), TInt(2), TInt(4), TInt(6), TInt(1), TInt(0), TInt(1)>>,       \* rank 2
               <<TInt(1), TInt(2), TInt(3), TInt(2), TInt(4), TInt(6), TInt(3), TInt(6), TInt(9)>>,       \* rank 1
               <<TInt(0), TInt(0), TInt(0), TInt(0), TInt(0), TInt(0), TInt(0), TInt(0), TInt(0)>>,
               <<TI, TInt(1), TInt(0), TInt(2), TComplex(TInt(1), TInt(1)), TInt(1), TInt(0), TInt(1), TInt(3)>>}
Case(n, a, b, c) == [op |-> "dmat", n |-> n, a |-> a, b |-> b, c |-> c]
\* a square matrix together with a rectangular companion
RCase(a, d, dr, dc) == [op |-> "dmat", n |-> 2, a |-> a, b |-> <<TInt(1), TInt(-2)>>, c |-> <<TInt(1), TInt(2), TInt(3), TInt(4)>>, d |-> d, dr |-> dr, dc |-> dc]
R23 == RandomSubset(IF Thorough THEN 3000 ELSE 250, [1..6 -> {TInt(-1), TInt(0), TInt(1), TInt(2), TRat(1, 2)}])
R34 == RandomSubset(IF Thorough THEN 2000 ELSE 120, [1..12 -> {TInt(-1), TInt(0), TInt(1), TInt(2)}])
Cases == {Case(2, a, <<TInt(1), TInt(-2)>>, <<TInt(1), TInt(2), TInt(3), TInt(4)>>) : a \in M2}
         \cup {Case(3, a, <<TInt(1), TInt(0), TInt(-2)>>, <<TInt(1), TInt(0), TInt(2), TInt(-1), TInt(3), TInt(1), TInt(0), TInt(1), TInt(1)>>) : a \in M3}
         \cup {RCase(<<TInt(1), TInt(2), TInt(3), TInt(5)>>, d, 2, 3) : d \in R23} \cup {RCase(<<TInt(0), TInt(2), TInt(3), TInt(5)>>, d, 3, 2) : d \in R23}
         \cup {RCase(<<TInt(2), TInt(1), TInt(1), TInt(1)>>, d, 3, 4) : d \in R34} \cup {RCase(<<TInt(2), TInt(1), TInt(4), TInt(2)>>, d, 4, 3) : d \in R34}
         \cup {Case(1, <<a>>, <<TInt(3)>>, <<TInt(2)>>) : a \in E2}
ASSUME PrintT(<<"cases", Cardinality(Cases)>>)
ASSUME ndJsonSerialize(IOEnv.OUT, SetToSeq(Cases))
VARIABLE dummy
Init == dummy = 0
Next == UNCHANGED dummy
=============================================================================
