INIT Init
NEXT Next
