------------------------------ MODULE MC_Order ------------------------------
(* The universe of objects for C01/C02: at least one object of every kind   *)
(* named by the properties, the boundary numbers (signed zeros, equal       *)
(* values of different kinds, NaN, infinities) and, tagged with a common    *)
(* group number, alternative construction paths of one value.               *)
EXTENDS Integers, Sequences, FiniteSets, TLC, Json, IOUtils, SequencesExt, Randomization, Term

x == TSym("x")
y == TSym("y")
B(k, a, b) == TOp(k, <<a, b>>)
U(k, a) == TOp(k, <<a>>)
Iv(a, b, lo, ro) == T("interval", <<a, b>>, "", lo, ro)
TT == T("True", <<>>, "", 0, 0)
FF == T("False", <<>>, "", 0, 0)
N0(k) == T(k, <<>>, "", 0, 0)
\* <<group, recipe>>; group 0 = no partner
Pool == <<
  <<0, TInt(0)>>, <<0, TInt(1)>>, <<0, TInt(-1)>>, <<0, TInt(2)>>, <<0, TRat(1, 2)>>, <<0, TRat(-1, 2)>>,
  <<0, TI>>, <<0, TComplex(TInt(1), TInt(1))>>, <<0, TComplex(TRat(1, 2), TInt(-1))>>,
  <<0, TDblZero(1)>>, <<0, TDblZero(-1)>>, <<0, TDbl(1, 1, 0)>>, <<0, TDbl(1, 1, -1)>>, <<0, TDbl(-1, 3, -1)>>, <<0, TDbl(1, 1, 1)>>,
  <<0, T("Dbl", <<>>, "nan", 1, 0)>>, <<0, T("Dbl", <<>>, "inf", 1, 0)>>, <<0, T("Dbl", <<>>, "inf", -1, 0)>>,
  <<0, TCDbl(TDbl(1, 1, 0), TDbl(1, 1, -1))>>, <<0, TCDbl(TDblZero(1), TDbl(1, 1, 0))>>,
  <<0, TCDbl(TDblZero(-1), TDbl(1, 1, 0))>>, <<0, TCDbl(TDbl(1, 1, 0), TDblZero(-1))>>, <<0, TCDbl(TDbl(1, 1, 0), TDblZero(1))>>,
  <<0, TCDbl(T("Dbl", <<>>, "nan", 1, 0), TDbl(1, 1, 0))>>, <<0, TCDbl(TDbl(1, 1, 1), T("Dbl", <<>>, "inf", 1, 0))>>,
  <<0, TInf(1)>>, <<0, TInf(-1)>>, <<0, TInf(0)>>, <<0, TNaN>>,
  <<0, x>>, <<0, y>>, <<0, TConst("pi")>>, <<0, TConst("E")>>, <<0, TConst("EulerGamma")>>,
  <<1, B("add", x, y)>>, <<1, B("add", y, x)>>, <<1, TOp("addv", <<y, x>>)>>, <<1, B("sub", x, U("neg", y))>>,
  <<2, B("mul", TInt(2), x)>>, <<2, B("add", x, x)>>, <<2, B("sub", B("mul", TInt(3), x), x)>>,
  <<3, B("pow", x, TInt(2))>>, <<3, B("mul", x, x)>>, <<3, B("div", B("pow", x, TInt(3)), x)>>,
  <<4, B("sub", x, y)>>, <<4, B("add", x, U("neg", y))>>, <<0, U("neg", B("sub", y, x))>>,
  <<5, U("sqrt", x)>>, <<5, B("pow", x, TRat(1, 2))>>,
  <<6, B("div", TInt(1), x)>>, <<6, B("pow", x, TInt(-1))>>,
  <<7, U("exp", x)>>, <<7, B("pow", TConst("E"), x)>>,
  <<8, U("sin", U("neg", x))>>, <<8, U("neg", U("sin", x))>>, <<0, U("sin", x)>>, <<0, U("cos", x)>>,
  <<9, U("cos", U("neg", x))>>, <<9, U("cos", x)>>,
  <<0, U("abs", x)>>, <<0, U("gamma", x)>>, <<0, U("log", x)>>, <<0, B("atan2", x, y)>>, <<0, U("floor", x)>>,
  <<0, TFn("f", <<x>>)>>, <<0, TFn("f", <<y>>)>>, <<0, TFn("g", <<x>>)>>, <<0, TFn("f", <<x, y>>)>>,
  <<10, TOp("max", <<x, y>>)>>, <<10, TOp("max", <<y, x>>)>>, <<0, TOp("min", <<x, y>>)>>,
  <<11, B("Lt", x, y)>>, <<11, B("Gt", y, x)>>, <<12, B("Le", x, y)>>, <<12, B("Ge", y, x)>>, <<12, U("not", B("Lt", y, x))>>,
  <<13, B("Eq", x, y)>>, <<13, B("Eq", y, x)>>, <<0, B("Ne", x, y)>>, <<0, TT>>, <<0, FF>>,
  <<14, TOp("and", <<B("Lt", x, y), B("Le", x, TInt(1))>>)>>, <<14, TOp("and", <<B("Le", x, TInt(1)), B("Lt", x, y)>>)>>,
  <<0, TOp("or", <<B("Lt", x, y), B("Le", x, TInt(1))>>)>>, <<0, TOp("xor", <<B("Lt", x, y), B("Le", x, TInt(1))>>)>>,
  <<0, TOp("piecewise", <<x, B("Lt", x, y), y, TT>>)>>,
  <<15, Iv(TInt(0), TInt(1), 0, 0)>>, <<15, TOp("union", <<Iv(TInt(0), TRat(1, 2), 0, 0), Iv(TRat(1, 2), TInt(1), 0, 0)>>)>>,
  <<0, Iv(TInt(0), TInt(1), 1, 0)>>, <<0, Iv(TInt(0), TInt(1), 0, 1)>>, <<0, Iv(TInt(0), TInt(1), 1, 1)>>,
  <<0, Iv(TInf(-1), TInt(1), 1, 0)>>, <<0, Iv(TInt(0), TInf(1), 0, 1)>>, <<0, Iv(TInf(-1), TInf(1), 1, 1)>>, <<0, Iv(TRat(1, 2), TInt(2), 0, 0)>>,
  <<16, TOp("finiteset", <<TInt(1), TInt(2)>>)>>, <<16, TOp("finiteset", <<TInt(2), TInt(1)>>)>>,
  <<16, TOp("union", <<TOp("finiteset", <<TInt(1)>>), TOp("finiteset", <<TInt(2)>>)>>)>>,
  <<0, TOp("finiteset", <<x, y>>)>>, <<0, N0("EmptySet")>>, <<0, N0("Reals")>>, <<0, N0("Integers")>>, <<0, N0("Rationals")>>,
  <<0, N0("Complexes")>>, <<0, N0("UniversalSet")>>, <<0, N0("Naturals")>>, <<0, N0("Naturals0")>>,
  <<0, TOp("union", <<Iv(TInt(0), TInt(1), 0, 0), TOp("finiteset", <<TInt(3)>>)>>)>>,
  <<0, B("complement", N0("Reals"), Iv(TInt(0), TInt(1), 0, 0))>>, <<0, B("contains", x, Iv(TInt(0), TInt(1), 0, 0))>>,
  <<0, TOp("imageset", <<x, B("mul", TInt(2), x), N0("Integers")>>)>>, <<0, B("conditionset", x, B("Lt", x, y))>>,
  <<0, T("diff", <<TFn("f", <<x>>), x>>, "", 1, 0)>>, <<0, T("diff", <<TFn("f", <<x, y>>), y>>, "", 1, 0)>>,
  <<0, B("kronecker_delta", x, y)>>, <<0, U("unevaluated_expr", B("add", x, TInt(1)))>>,
  <<17, B("mul", B("pow", TInt(2), TRat(1, 2)), B("pow", TInt(2), TRat(1, 2)))>>, <<17, TInt(2)>>,
  <<0, B("pow", TInt(8), TRat(1, 2))>>, <<0, B("mul", TInt(2), B("pow", TInt(2), TRat(1, 2)))>> >>

Recipes == [i \in 1..Len(Pool) |-> Pool[i][2]]
Groups == [i \in 1..Len(Pool) |-> Pool[i][1]]

\* ---- siblings: every object obtained from a pool object by ONE small change anywhere inside
\* it (a literal bumped or negated, a symbol renamed, an open/closed flag toggled, two
\* operands swapped, an operand dropped).  Such near-duplicates are where an __eq__, __hash__
\* or compare() that ignores or double-counts a field is exposed.
RECURSIVE Mutate(_), MutChild(_, _)
Leaf(t) ==
    CASE t.k = "Int" -> {TInt(t.n + 1), TInt(-t.n - 1)}
      [] t.k = "Rat" -> {TRat(t.n + t.d, t.d), TRat(-t.n, t.d), TRat(t.n, t.d + 1)}
      [] t.k = "Sym" -> {TSym(IF t.s = "x" THEN "y" ELSE "x"), TSym("z")}
      [] t.k = "Const" -> {TConst(IF t.s = "pi" THEN "E" ELSE "pi")}
      [] t.k = "Inf" -> {TInf(-1 * t.a[1].n), TInf(0)}
      [] t.k = "fn" -> {T("fn", t.a, IF t.s = "f" THEN "g" ELSE "f", 0, 0)}
      [] t.k = "interval" -> {T("interval", t.a, "", 1 - t.n, t.d), T("interval", t.a, "", t.n, 1 - t.d)}
      [] t.k = "True" -> {FF}
      [] t.k = "False" -> {TT}
      [] OTHER -> {}
MutChild(t, i) == {[t EXCEPT !.a = [t.a EXCEPT ![i] = m]] : m \in Mutate(t.a[i])}
Mutate(t) ==
    IF t.k \in {"Dbl", "CDbl"} THEN {}
    ELSE Leaf(t)
         \cup UNION {MutChild(t, i) : i \in 1..Len(t.a)}
         \cup (IF Len(t.a) >= 2 /\ t.k \notin {"Complex", "Rat"}
               THEN {[t EXCEPT !.a = [j \in 1..Len(t.a) |-> IF j = 1 THEN t.a[2] ELSE IF j = 2 THEN t.a[1] ELSE t.a[j]]]} ELSE {})
         \cup (IF Len(t.a) >= 3 /\ t.k \in {"add", "mul", "addv", "mulv", "max", "min", "finiteset", "and", "or", "xor", "fn", "union"}
               THEN {[t EXCEPT !.a = SubSeq(t.a, 1, Len(t.a) - 1)]} ELSE {})
         \cup (IF t.k = "Complex" THEN {TComplex(t.a[1], m) : m \in Leaf(t.a[2])} \cup {TComplex(m, t.a[2]) : m \in Leaf(t.a[1])} ELSE {})

\* families: consecutive pool objects with all their siblings, one batch each
Chunk == 5
NChunks == (Len(Pool) + Chunk - 1) \div Chunk
Family(c) == LET idx == {i \in 1..Len(Pool) : (i - 1) \div Chunk = c - 1}
                 objs == UNION {{Pool[i][2]} \cup Mutate(Pool[i][2]) : i \in idx}
             IN SetToSeq(objs)
FamilyCases == {[op |-> "order", ts |-> Family(c), groups |-> [i \in 1..Len(Family(c)) |-> 0], perms |-> 4, seed |-> c] : c \in 1..NChunks}
Cases == << [op |-> "order", ts |-> Recipes, groups |-> Groups, perms |-> 8, seed |-> 1] >> \o SetToSeq(FamilyCases)
ASSUME PrintT(<<"objects", Len(Pool), "families", NChunks, [c \in 1..NChunks |-> Len(Family(c))]>>)
ASSUME ndJsonSerialize(IOEnv.OUT, Cases)
VARIABLE dummy
Init == dummy = 0
Next == UNCHANGED dummy
=============================================================================
