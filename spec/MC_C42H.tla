------------------------------- MODULE MC_C42H -------------------------------
(* The C containers as a state machine (module Containers): TLC explores /   *)
(* simulates operation histories, checks the abstract invariants in every   *)
(* state and emits each history of length Depth for replay on the real      *)
(* CVecBasic / CSetBasic / CMapBasicBasic.                                  *)
EXTENDS Containers, TLC, Json, IOUtils, Term
CONSTANTS Depth
VARIABLES st, hist
x == TSym("x")
Vals == <<TOp("add", <<x, TInt(1)>>), x, TInt(2), TOp("add", <<TInt(1), x>>)>>
Cls == <<1, 2, 3, 1>>            \* values 1 and 4 are equal objects built differently
OpsV == {<<"VecPush", i, 0>> : i \in 1..4} \cup {<<"VecGet", n, 0>> : n \in 0..3} \cup {<<"VecSet", n, i>> : n \in 0..2, i \in 1..4} \cup {<<"VecErase", n, 0>> : n \in 0..3}
OpsS == {<<"SetInsert", i, 0>> : i \in 1..4} \cup {<<"SetFind", i, 0>> : i \in 1..4} \cup {<<"SetErase", i, 0>> : i \in 1..4}
OpsM == {<<"MapInsert", i, j>> : i, j \in 1..4} \cup {<<"MapGet", i, 0>> : i \in 1..4}
AllOps == OpsV \cup OpsS \cup OpsM
Norm(op) == CASE op[1] = "VecPush" -> <<op[1], Cls[op[2]], 0>>
              [] op[1] = "VecSet" -> <<op[1], op[2], Cls[op[3]]>>
              [] op[1] \in {"SetInsert", "SetFind", "SetErase", "MapGet"} -> <<op[1], Cls[op[2]], 0>>
              [] op[1] = "MapInsert" -> <<op[1], Cls[op[2]], Cls[op[3]]>>
              [] OTHER -> op
Init == st = Empty /\ hist = <<>>
Next == /\ Len(hist) < Depth
        /\ \E op \in AllOps : st' = Step(st, Norm(op)).st /\ hist' = Append(hist, op)
Spec == Init /\ [][Next]_<<st, hist>>
\* abstract invariants of the containers
TypeOK == /\ \A i \in 1..Len(st.vec) : st.vec[i] \in 1..3
          /\ st.set \subseteq 1..3 /\ DOMAIN st.map \subseteq 1..3 /\ \A k \in DOMAIN st.map : st.map[k] \in 1..3
Bounded == Len(st.vec) <= Len(hist) /\ Cardinality(st.set) <= 3
Emit == (Len(hist) = Depth) =>
          Serialize(ToJson([op |-> "ccont", ops |-> hist, vals |-> Vals]) \o "\n", IOEnv.OUT,
                    [format |-> "TXT", charset |-> "UTF-8", openOptions |-> <<"WRITE", "CREATE", "APPEND">>]).exitValue = 0
=============================================================================
