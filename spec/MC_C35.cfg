INIT Init
NEXT Next
