------------------------------- MODULE MC_C22 -------------------------------
(* Cases for C22: pairs of multivariate polynomials over equal,             *)
(* overlapping, disjoint and empty variable sets, given as variable lists   *)
(* (in any order) and monomial dictionaries.                                *)
EXTENDS Integers, Sequences, FiniteSets, TLC, Json, IOUtils, SequencesExt, Randomization, Term
Thorough == "TIER" \in DOMAIN IOEnv /\ IOEnv.TIER = "thorough"
\* (the thorough tier samples three times as many of each operand set)
Sub(S, n) == LET m == IF Thorough THEN 3 * n ELSE n IN IF Cardinality(S) <= m THEN S ELSE RandomSubset(m, S)
VarLists == {<<>>, <<"x">>, <<"y">>, <<"x", "y">>, <<"y", "x">>, <<"y", "z">>, <<"z", "x">>, <<"x", "y", "z">>, <<"z", "y", "x">>, <<"w">>}
IntCoef == {TInt(1), TInt(-1), TInt(2), TInt(-3), TInt(5), TInt(0)}
ExprCoef == {TInt(1), TInt(-2), TRat(1, 2), TSym("a"), TOp("mul", <<TInt(2), TSym("b")>>), TOp("sqrt", <<TInt(2)>>), TOp("add", <<TSym("a"), TInt(1)>>), TInt(0)}
Exps(n) == [1..n -> 0..2]
\* one monomial: exponents followed by the coefficient
Mono(n, C) == {e \o <<c>> : e \in Exps(n), c \in C}
\* dictionaries: sequences of 1-3 monomials with distinct exponent vectors
Dicts(n, C) == {<<>>} \cup {<<m>> : m \in Sub(Mono(n, C), 12)}
               \cup {<<m1, m2>> : m1, m2 \in Sub(Mono(n, C), 9)} \cup {<<m1, m2, m3>> : m1, m2, m3 \in Sub(Mono(n, C), 5)}
Distinct(d, n) == \A i, j \in 1..Len(d) : i # j => SubSeq(d[i], 1, n) # SubSeq(d[j], 1, n)
Polys(C) == UNION {{[v |-> vs, d |-> d] : d \in {dd \in Dicts(Len(vs), C) : Distinct(dd, Len(vs))}} : vs \in VarLists}
Pt == [x |-> TInt(2), y |-> TInt(-1), z |-> TInt(3), w |-> TInt(-2)]
Case(kind, p, q, k) == [op |-> "mpoly", kind |-> kind, av |-> p.v, a |-> p.d, bv |-> q.v, b |-> q.d, k |-> k, pt |-> Pt]
Cases == {Case("Int", p, q, k) : p \in Sub(Polys(IntCoef), 45), q \in Sub(Polys(IntCoef), 22), k \in {0, 2}}
         \cup {Case("Int", p, q, 3) : p \in Sub(Polys(IntCoef), 30), q \in Sub(Polys(IntCoef), 4)}
         \cup {Case("Expr", p, q, k) : p \in Sub(Polys(ExprCoef), 40), q \in Sub(Polys(ExprCoef), 18), k \in {1, 2}}
ASSUME PrintT(<<"cases", Cardinality(Cases)>>)
ASSUME ndJsonSerialize(IOEnv.OUT, SetToSeq(Cases))
VARIABLE dummy
Init == dummy = 0
Next == UNCHANGED dummy
=============================================================================
