------------------------------- MODULE MC_C15 -------------------------------
(* Cases for C15: batches of expressions in x, y for the C code printers,   *)
(* with the numeric binding of the symbols.                                 *)
EXTENDS Integers, Sequences, FiniteSets, TLC, Json, IOUtils, SequencesExt, Randomization, Term
Thorough == "TIER" \in DOMAIN IOEnv /\ IOEnv.TIER = "thorough"
Sub(S, n, nt) == LET m == IF Thorough THEN nt ELSE n IN IF Cardinality(S) <= m THEN S ELSE RandomSubset(m, S)
x == TSym("x")
y == TSym("y")
B(k, a, b) == TOp(k, <<a, b>>)
U(k, a) == TOp(k, <<a>>)
Atoms == {x, y, TInt(2), TInt(-3), TRat(1, 2), TRat(-2, 3), TRat(22, 7), TDbl(1, 3, -1), TConst("pi"), TConst("E"), TInt(1)}
F1 == {"sin", "cos", "tan", "cot", "sec", "csc", "asin", "acos", "atan", "sinh", "cosh", "tanh", "asinh", "atanh", "exp", "log", "sqrt", "cbrt", "abs", "floor", "ceiling", "sign", "gamma", "loggamma", "erf", "erfc", "truncate"}
D1 == {B(k, a, b) : k \in {"add", "sub", "mul", "div", "pow"}, a, b \in Atoms} \cup {U(f, a) : f \in F1, a \in {x, y, B("mul", x, y), TRat(1, 2), B("add", x, TInt(1))}}
      \cup {B(f, a, b) : f \in {"atan2", "max", "min"}, a, b \in {x, y, TRat(1, 2)}} \cup {U("neg", x), B("pow", x, TInt(-2)), B("pow", x, TRat(3, 2)), B("pow", y, TRat(-1, 2)), B("pow", TInt(2), x), B("pow", x, y),
            TOp("piecewise", <<x, B("Lt", x, y), y, T("True", <<>>, "", 0, 0)>>), TOp("piecewise", <<B("pow", x, TInt(2)), B("Le", y, TInt(0)), U("sin", x), B("Lt", x, TInt(2)), TInt(7), T("True", <<>>, "", 0, 0)>>),
            TOp("max", <<x, y, TInt(1)>>), TOp("add", <<x, y, TRat(1, 3)>>), TOp("mul", <<TInt(-2), x, B("pow", y, TInt(2))>>)}
D2 == {B(k, a, b) : k \in {"add", "mul", "div", "pow", "sub"}, a \in Sub(D1, 40, 120), b \in Sub(D1 \cup Atoms, 25, 40)} \cup {U(f, a) : f \in Sub(F1, 12, 27), a \in Sub(D1, 40, 120)}
\* every exponent the printers treat specially (and their neighbours), in every embedding a power can have
PExp == {TInt(-1), TInt(2), TInt(-2), TInt(3), TInt(-3), TRat(1, 2), TRat(-1, 2), TRat(1, 3), TRat(-1, 3), TRat(3, 2), TRat(-3, 2), TRat(2, 3), TRat(-2, 3), TRat(5, 2), TRat(-5, 2), TDbl(1, 1, -1), TDbl(-1, 3, -1), y, U("neg", y)}
PBase == {x, B("add", x, y), U("sin", x), B("mul", TInt(2), x), TInt(2), TRat(3, 2), TConst("E"), U("csc", x)}
PPow == {B("pow", b, e) : b \in PBase, e \in PExp}
PForms == UNION {{p, B("mul", y, p), B("div", y, p), TOp("mul", <<TInt(7), y, p>>), B("div", B("mul", TInt(7), y), p), B("div", y, B("mul", x, p)), B("add", x, B("div", y, p)), U("neg", p),
                  B("sub", y, p), U("sin", p), B("pow", p, TInt(2)), B("pow", p, TRat(1, 2)), B("div", p, y), B("mul", p, B("pow", y, TRat(-3, 2)))} : p \in PPow}
Pool == Atoms \cup D1 \cup D2

PS == SetToSeq(Sub(Pool, 1000, 6000) \cup Sub(PForms, 800, 2500))
Batch == 100
NB == (Len(PS) + Batch - 1) \div Batch
Points == {<<TDbl(1, 3, -1), TDbl(1, 1, -2)>>, <<TDbl(-1, 3, -2), TDbl(1, 1, 1)>>} \cup (IF Thorough THEN {<<TDbl(1, 5, -3), TDbl(-1, 7, -2)>>} ELSE {})
\* special values at run time: arguments that vanish, ties, boundaries of conditions (x = y, x = -y, x = 0, y = 0)
xmy == B("sub", x, y)
xpy == B("add", x, y)
EArg == {xmy, xpy, x, y, B("mul", x, y), B("sub", B("mul", TInt(2), x), B("mul", TInt(2), y))}
Edge == {U(f, a) : f \in {"sign", "abs", "floor", "ceiling", "sqrt", "cbrt", "sin", "cos", "tan", "asin", "atan", "sinh", "tanh", "exp", "erf"}, a \in EArg}
        \cup {B(f, a, b) : f \in {"max", "min", "atan2"}, a, b \in {x, y, xmy, TInt(0)}}
        \cup {TOp("piecewise", <<TInt(1), B(r, a, b), TInt(2), T("True", <<>>, "", 0, 0)>>) : r \in {"Lt", "Le", "Eq", "Ne"}, a \in {x, xmy}, b \in {y, TInt(0)}}
        \cup {B("add", B("mul", TInt(3), U("sign", a)), y) : a \in EArg} \cup {B("pow", a, TInt(2)) : a \in EArg} \cup {B("pow", TInt(2), a) : a \in EArg}
        \cup {B("mul", a, U("abs", a)) : a \in EArg} \cup {B("pow", U("abs", a), TRat(1, 2)) : a \in EArg}
ES == SetToSeq(Edge)
NE == (Len(ES) + Batch - 1) \div Batch
EdgePoints == {<<TDbl(1, 3, -1), TDbl(1, 3, -1)>>, <<TDbl(-1, 3, -2), TDbl(1, 3, -2)>>, <<TDblZero(1), TDbl(1, 1, 1)>>, <<TDbl(1, 1, 1), TDblZero(1)>>, <<TDblZero(1), TDblZero(1)>>, <<TDbl(-1, 1, 0), TDbl(-1, 1, 0)>>}
Cases == {[op |-> "ccode", ts |-> SubSeq(PS, (b - 1) * Batch + 1, IF b * Batch > Len(PS) THEN Len(PS) ELSE b * Batch), x |-> p[1], y |-> p[2], edge |-> 0] : b \in 1..NB, p \in Points}
         \cup {[op |-> "ccode", ts |-> SubSeq(ES, (b - 1) * Batch + 1, IF b * Batch > Len(ES) THEN Len(ES) ELSE b * Batch), x |-> p[1], y |-> p[2], edge |-> 1] : b \in 1..NE, p \in EdgePoints}
ASSUME PrintT(<<"cases", Cardinality(Cases), Len(PS)>>)
ASSUME ndJsonSerialize(IOEnv.OUT, SetToSeq(Cases))
VARIABLE dummy
Init == dummy = 0
Next == UNCHANGED dummy
=============================================================================
