------------------------------- MODULE MC_C20 -------------------------------
(* Cases for C20: structured mutations (byte replaced / xor-ed, truncation,  *)
(* duplication of a suffix) at every position of the serialized form of a   *)
(* set of base expressions.                                                 *)
EXTENDS Integers, Sequences, FiniteSets, TLC, Json, IOUtils, SequencesExt, Randomization, Term
Thorough == "TIER" \in DOMAIN IOEnv /\ IOEnv.TIER = "thorough"
x == TSym("x")
y == TSym("y")
B(k, a, b) == TOp(k, <<a, b>>)
U(k, a) == TOp(k, <<a>>)
Bases == {TInt(5), B("pow", TInt(10), TInt(30)), TRat(-22, 7), TComplex(TInt(2), TInt(-3)), TDbl(1, 3, -1), x, TConst("pi"), B("add", x, y), TOp("mul", <<TInt(2), x, B("pow", y, TInt(2))>>),
          U("sin", B("add", x, TInt(1))), B("atan2", x, y), TFn("f", <<x, y>>), B("Lt", x, y), TOp("and", <<B("Lt", x, y), B("Le", y, TInt(1))>>),
          T("interval", <<TInt(0), TInt(1)>>, "", 0, 0), TOp("finiteset", <<x, TInt(1)>>), TOp("piecewise", <<x, B("Lt", x, TInt(0)), y, T("True", <<>>, "", 0, 0)>>),
          T("diff", <<TFn("f", <<x>>), x>>, "", 1, 0), TOp("add", <<U("sin", B("add", x, y)), U("cos", B("add", x, y))>>), TInf(1), TNaN}
Vals == {0, 1, 2, 127, 128, 255, 13, 64}
Step == IF Thorough THEN 1 ELSE 3
Positions == {p \in 0..(IF Thorough THEN 260 ELSE 200) : p % Step = 0}
Muts(p) == [i \in 1..(Cardinality(Vals) * 2 + 2) |->
              LET vs == SetToSeq(Vals) n == Len(vs)
              IN IF i <= n THEN <<p, vs[i], "set">> ELSE IF i <= 2 * n THEN <<p, vs[i - n], "xor">> ELSE IF i = 2 * n + 1 THEN <<p, 0, "cut">> ELSE <<p, 0, "dup">>]
\* structural mutations: the j-th object record replaced by a back reference to the i-th (typed slots receive objects
\* of another class)
Typed == Bases \cup {B("pow", x, B("add", TInt(2), y)), B("contains", x, T("interval", <<TInt(0), TInt(1)>>, "", 0, 0)), B("Eq", TInt(7), U("not", B("Lt", x, y))),
                     B("mul", TRat(2, 3), B("pow", x, y)), TComplex(TRat(1, 2), TInt(3)), TOp("union", <<T("interval", <<TInt(0), TInt(1)>>, "", 0, 0), TOp("finiteset", <<TInt(5), x>>)>>),
                     TOp("or", <<B("Lt", x, y), U("not", B("Le", y, x))>>), TOp("complement", <<TOp("Reals", <<>>), TOp("finiteset", <<x>>)>>), B("add", B("mul", TInt(2), x), TRat(1, 2)),
                     TOp("piecewise", <<x, B("Lt", x, TInt(0)), y, T("True", <<>>, "", 0, 0)>>), B("mul", TI, x), B("add", TDbl(1, 3, -1), x)}
BackRefs == [k \in 1..45 |-> LET ps == SetToSeq({<<i, j>> \in (0..8) \X (1..9) : i < j}) IN <<ps[k][1], ps[k][2], "backref">>]
Cases == {[op |-> "loadmut", t |-> b, muts |-> Muts(p)] : b \in Bases, p \in Positions} \cup {[op |-> "loadmut", t |-> b, muts |-> BackRefs] : b \in Typed}
ASSUME PrintT(<<"cases", Cardinality(Cases)>>)
ASSUME ndJsonSerialize(IOEnv.OUT, SetToSeq(Cases))
VARIABLE dummy
Init == dummy = 0
Next == UNCHANGED dummy
=============================================================================
