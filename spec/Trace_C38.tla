------------------------------ MODULE Trace_C38 ------------------------------
(* C38: the finite-difference weights w[i,k] for a grid g_1..g_n around a   *)
(* are exact on polynomials of degree < n:                                  *)
(*      sum_i w[i,k] * (g_i - a)^m  =  k! if m = k, else 0    (m < n)       *)
(* (the k-th derivative at a of the basis polynomial (x - a)^m).  These     *)
(* equations determine the weights uniquely for k < n; for k >= n every     *)
(* polynomial of degree < n has k-th derivative 0.                          *)
EXTENDS Integers, Sequences, FiniteSets, TLC, Json, IOUtils, Term
VARIABLES l, bad, dec
RECURSIVE SumW(_, _, _, _, _, _)
\* sum over grid points i.. of w[i,k] * (g_i - a)^m
SumW(ws, gv, av, k, m, i) ==
    IF i > Len(gv) THEN V0
    ELSE VAdd(VMul(ws[i + k * Len(gv)], VPowInt(VSub(gv[i], av), m)), SumW(ws, gv, av, k, m, i + 1))
CheckEv(e) ==
    IF e.r.exc # "" THEN "bad:harness:" \o e.r.exc
    ELSE IF e.r.wexc = "VerifAssertionError" THEN "bad:assertion"
    ELSE IF e.r.wexc # "" THEN "bad:exception:" \o e.r.wexc
    ELSE LET n == Len(e.c.grid)
             M == e.c.m
             env == [a |-> VRat(<<3, 7>>)]          \* value for a symbolic centre
             gv == [i \in 1..n |-> Val(e.c.grid[i], env)]
             av == Val(e.c.around, env)
             ws == [i \in 1..Len(e.r.w) |-> Val(e.r.w[i], env)]
             res == {<<k, m>> \in (0..M) \X (0..(n - 1)) :
                       Cmp3(SumW(ws, gv, av, k, m, 1), IF m = k THEN VInt(Fact(k)) ELSE V0) # "eq"}
         IN IF Len(e.r.w) # n * (M + 1) THEN "bad:size"
            ELSE IF res = {} THEN "ok"
            ELSE LET km == CHOOSE km \in res : TRUE
                 IN IF Cmp3(SumW(ws, gv, av, km[1], km[2], 1), IF km[2] = km[1] THEN VInt(Fact(km[1])) ELSE V0) = "ne"
                    THEN "bad:weights:order=" \o ToString(km[1]) \o ",degree=" \o ToString(km[2]) ELSE "unk"
Events == ndJsonDeserialize(IOEnv.TRACE)
K == INSTANCE TraceKit WITH Check <- CheckEv, Events <- Events
Init == K!Init
Next == K!Next
Verdict == K!Verdict
=============================================================================
