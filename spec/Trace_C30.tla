------------------------------ MODULE Trace_C30 ------------------------------
(* C30: solve / linsolve.                                                   *)
(*  polynomial and rational equations are generated from their roots: the   *)
(*  solution set within the domain is  roots \ poles ; every returned member *)
(*  must be a solution and every solution must be returned.  Members are    *)
(*  compared (a) exactly, by evaluating the equation at the member in the   *)
(*  value domain when the member's value is defined, and (b) numerically:   *)
(*  the harness records each member to 2^-20 (fixed point), the case carries *)
(*  the true roots to 2^-20, and they must agree within Tol units.          *)
(*  trigonometric equations: membership of 61 probe points k*pi/12 in the   *)
(*  returned union of image sets must coincide with f(x) = 0.               *)
(*  linsolve: every equation evaluates to 0 at the returned vector.         *)
EXTENDS Integers, Sequences, FiniteSets, TLC, Json, IOUtils, Term, Envs
VARIABLES l, bad, dec
Tol == 16
IAbsV(v) == IF v < 0 THEN -v ELSE v
Near(a, b) == IAbsV(a.re - b.re) <= Tol /\ IAbsV(a.im - b.im) <= Tol
IsRealA(a) == IAbsV(a.im) <= Tol
NoE == [q \in {} |-> VUndef]
EnvX(v) == [s \in {"x"} |-> v]
SeqSet(s) == {s[i] : i \in 1..Len(s)}

\* ---- polynomial / rational equations
\* three-valued membership of an approximate point in the recorded structure of the solution set
TAnd3(ms) == IF "F" \in ms THEN "F" ELSE IF "U" \in ms THEN "U" ELSE "T"
TOr3(ms) == IF "T" \in ms THEN "T" ELSE IF "U" \in ms THEN "U" ELSE "F"
TNot3(m) == IF m = "T" THEN "F" ELSE IF m = "F" THEN "T" ELSE "U"
RECURSIVE InT(_, _), MembersOf(_)
InT(nd, p) ==
    CASE nd.t = "fin" -> (IF \E i \in 1..Len(nd.m) : nd.m[i].ok = 1 /\ Near(nd.m[i], p) THEN "T"
                          ELSE IF \E i \in 1..Len(nd.m) : nd.m[i].ok = 0 THEN "U" ELSE "F")
      [] nd.t = "empty" -> "F"
      [] nd.t = "reals" -> (IF IsRealA(p) THEN "T" ELSE "F")
      [] nd.t \in {"complexes", "universal"} -> "T"
      [] nd.t = "inter" -> TAnd3({InT(nd.a[i], p) : i \in 1..Len(nd.a)})
      [] nd.t = "union" -> TOr3({InT(nd.a[i], p) : i \in 1..Len(nd.a)})
      [] nd.t = "compl" -> TAnd3({InT(nd.a[1], p), TNot3(InT(nd.a[2], p))})
      [] OTHER -> "U"
\* every listed member anywhere in the structure
MembersOf(nd) == IF nd.t = "fin" THEN SeqSet(nd.m) ELSE UNION {MembersOf(nd.a[i]) : i \in 1..Len(nd.a)}
Pt(a) == [re |-> a.re, im |-> a.im]
PolyCheck(c, r) ==
    LET poles == {Pt(q) : q \in SeqSet(c.poles)}
        roots == {Pt(q) : q \in SeqSet(c.roots)}
        \* (an unexpanded quotient mul(P, pow(Q, -1)) is combined factor by factor at construction: a factor of higher
        \*  multiplicity in P than in Q stays a root of the constructed object, which is what solve is given)
        mult(seq, q) == Cardinality({i \in 1..Len(seq) : Near(Pt(seq[i]), q)})
        combined == c.f.k = "mul"
        sols0 == {q \in roots : IF combined THEN mult(c.roots, q) > mult(c.poles, q) ELSE ~\E p \in poles : Near(p, q)}
        sols == IF c.dom = "R" THEN {q \in sols0 : IsRealA(q)} ELSE sols0
        mems == MembersOf(r.tree)
        cands == roots \cup poles \cup {Pt(m) : m \in {mm \in mems : mm.ok = 1}}
        isSol(p) == \E q \in sols : Near(p, q)
        wrong == {p \in cands : LET m == InT(r.tree, p) IN m # "U" /\ (m = "T") # isSol(p)}
        \* exact check of the listed members that are in the set: the equation vanishes at the member
        exactBad == {m \in mems : m.ok = 1 /\ InT(r.tree, Pt(m)) = "T" /\ c.kind = "poly" /\
                                  LET v == Val(m.v, NoE)
                                  IN v.t = "num" /\ LET fv == Val(c.f, EnvX(v)) IN fv.t \in {"num", "zoo", "nan", "oo", "noo"} /\ Cmp3(fv, V0) = "ne"}
    IN IF r.sexc = "VerifAssertionError" THEN "bad:assertion"
       ELSE IF r.sexc # "" THEN "bad:exception:" \o r.sexc
       ELSE IF c.kind = "const" THEN (IF (r.s.k = "EmptySet") = (c.f.n # 0) THEN "ok" ELSE "bad:constant-equation")
       ELSE IF exactBad # {} THEN "bad:member-is-not-a-root(exact)"
       ELSE IF wrong # {} THEN
                (IF \E p \in wrong : isSol(p) THEN "bad:solution-missing"
                 \* numerator or denominator of degree >= 3: the roots come from the Cardano / Ferrari formulas in radical
                 \* form and the library's structural set difference cannot identify a root with the equal pole: own class
                 ELSE IF \E p \in wrong : \E q \in poles : Near(p, q)
                      THEN (IF Len(c.roots) >= 3 \/ Len(c.poles) >= 3 THEN "bad:pole-returned:radical-forms-not-identified" ELSE "bad:pole-returned")
                 ELSE "bad:member-is-not-a-solution")
       ELSE IF \E p \in cands : InT(r.tree, p) = "U" THEN "unk"
       ELSE "ok"

\* ---- trigonometric equations: probes k*pi/12
Probes == {VPiMul(RMk(k, 12)) : k \in -30..30}
\* membership of a value in the dumped solution set, reading an image set over (-oo, oo) as indexed by the
\* integers when ints = TRUE (the library's stand-in, see solve.cpp) and literally otherwise: "T", "F", "U"
\* is d an integer multiple of a?  (both exact real values p + q*pi; pi is irrational, so the rational
\* and the pi components must be multiples with the same integer factor)
IntMultiple(d, a) ==
    IF ~(ExactReal(d) /\ ExactReal(a)) THEN "U"
    ELSE LET kr == IF a.re = R0 THEN RU ELSE RDiv(d.re, a.re)
             kp == IF a.pi = R0 THEN RU ELSE RDiv(d.pi, a.pi)
         IN IF a.re = R0 /\ a.pi = R0 THEN "U"
            ELSE IF a.re = R0 THEN (IF d.re # R0 THEN "F" ELSE IF ~RDef(kp) THEN "U" ELSE IF kp[2] = 1 THEN "T" ELSE "F")
            ELSE IF a.pi = R0 THEN (IF d.pi # R0 THEN "F" ELSE IF ~RDef(kr) THEN "U" ELSE IF kr[2] = 1 THEN "T" ELSE "F")
            ELSE IF ~RDef(kr) \/ ~RDef(kp) THEN "U" ELSE IF kr = kp /\ kr[2] = 1 THEN "T" ELSE "F"
RECURSIVE MemS(_, _, _)
MemS(s, xv, ints) ==
    CASE s.k = "EmptySet" -> "F"
      [] s.k = "FiniteSet" -> (LET cs == {Cmp3(Val(s.a[i], NoE), xv) : i \in 1..Len(s.a)}
                               IN IF "eq" \in cs THEN "T" ELSE IF "unk" \in cs THEN "U" ELSE "F")
      [] s.k = "Union" -> (LET ms == {MemS(s.a[i], xv, ints) : i \in 1..Len(s.a)}
                           IN IF "T" \in ms THEN "T" ELSE IF "U" \in ms THEN "U" ELSE "F")
      [] s.k = "ImageSet" ->
           (LET n == s.a[1].s
                e0 == Val(s.a[2], [q \in {n} |-> V0])
                e1 == Val(s.a[2], [q \in {n} |-> V1])
                e2 == Val(s.a[2], [q \in {n} |-> VInt(2)])
                a == VSub(e1, e0)
                linear == Cmp3(VSub(e2, e1), a) = "eq"
                whole == s.a[3].k = "Interval" /\ s.a[3].a[1].k = "Inf" /\ s.a[3].a[2].k = "Inf"
            IN IF ~whole \/ e0.t # "num" \/ a.t # "num" \/ ~linear \/ ExactZero(a) THEN "U"
               ELSE IF ~ints THEN (IF ExactReal(e0) /\ ExactReal(a) /\ ExactReal(xv) THEN "T" ELSE "U")    \* a real line
               ELSE IntMultiple(VSub(xv, e0), a))
      [] s.k = "Intersection" -> (LET ms == {IF s.a[i].k \in {"Reals", "Complexes", "UniversalSet"} THEN "T" ELSE MemS(s.a[i], xv, ints) : i \in 1..Len(s.a)}
                                  IN IF "F" \in ms THEN "F" ELSE IF "U" \in ms THEN "U" ELSE "T")
      [] OTHER -> "U"
\* (a value known by residues only: a non-zero residue proves "not zero"; a zero residue proves nothing)
IsSol(f, xv) == LET fv == Val(f, EnvX(xv)) IN IF fv.t = "num" /\ Exact(fv) THEN (IF ExactZero(fv) THEN "T" ELSE "F")
                                               ELSE IF fv.t = "num" /\ fv.fl = 0 /\ MDef(fv.m) /\ fv.m # <<0, 0>> THEN "F"
                                               ELSE IF fv.t \in {"zoo", "oo", "noo", "nan"} THEN "F" ELSE "U"
TrigCheck(c, r) ==
    IF r.sexc = "VerifAssertionError" THEN "bad:assertion"
    ELSE IF r.sexc # "" THEN "bad:exception:" \o r.sexc
    ELSE LET wrongI == {p \in Probes : LET m == MemS(r.s, p, TRUE) s == IsSol(c.f, p) IN m # "U" /\ s # "U" /\ m # s}
             wrongL == {p \in Probes : LET m == MemS(r.s, p, FALSE) s == IsSol(c.f, p) IN m # "U" /\ s # "U" /\ m # s}
             decided == {p \in Probes : MemS(r.s, p, TRUE) # "U" /\ IsSol(c.f, p) # "U"}
         IN IF wrongI # {} THEN (IF \E p \in wrongI : IsSol(c.f, p) = "T" THEN "bad:trig:solution-missing" ELSE "bad:trig:member-is-not-a-solution")
            ELSE IF decided = {} THEN "unk"
            ELSE IF wrongL # {} THEN "bad:trig:image-set-over-the-reals-stands-for-the-integers"
            ELSE "ok"

\* ---- linsolve
LinCheck(c, r) ==
    IF r.sexc = "VerifAssertionError" THEN "bad:assertion"
    ELSE LET n == Len(c.syms)
             zero == [s \in SeqSet(c.syms) |-> V0]
             unit(j) == [s \in SeqSet(c.syms) |-> IF s = c.syms[j] THEN V1 ELSE V0]
             \* the system matrix from the equations: a_ij = eq_i(e_j) - eq_i(0), b_i = -eq_i(0)
             rhs == [i \in 1..n |-> VNeg(Val(c.eqs[i], zero))]
             A == [i \in 1..n |-> [j \in 1..n |-> VSub(Val(c.eqs[i], unit(j)), Val(c.eqs[i], zero))]]
             det == IF n = 2 THEN VSub(VMul(A[1][1], A[2][2]), VMul(A[1][2], A[2][1]))
                    ELSE VAdd(VSub(VMul(A[1][1], VSub(VMul(A[2][2], A[3][3]), VMul(A[2][3], A[3][2]))),
                                   VMul(A[1][2], VSub(VMul(A[2][1], A[3][3]), VMul(A[2][3], A[3][1])))),
                              VMul(A[1][3], VSub(VMul(A[2][1], A[3][2]), VMul(A[2][2], A[3][1]))))
             unique == det.t = "num" /\ Exact(det) /\ ~ExactZero(det)
         IN IF ~unique THEN "unk"
            ELSE IF r.sexc # "" THEN "bad:linsolve:exception:" \o r.sexc
            ELSE IF Len(r.sol) # n THEN "bad:linsolve:size"
            ELSE LET env == [s \in SeqSet(c.syms) |-> Val(r.sol[CHOOSE j \in 1..n : c.syms[j] = s], NoE)]
                 IN IF \E i \in 1..n : Cmp3(Val(c.eqs[i], env), V0) = "ne" THEN "bad:linsolve:not-a-solution"
                    ELSE IF \A i \in 1..n : Cmp3(Val(c.eqs[i], env), V0) = "eq" THEN "ok" ELSE "unk"

CheckEv(e) ==
    IF e.r.exc # "" THEN "bad:harness:" \o e.r.exc
    ELSE CASE e.c.op = "linsolve" -> LinCheck(e.c, e.r)
           [] e.c.kind = "trig" -> TrigCheck(e.c, e.r)
           [] OTHER -> PolyCheck(e.c, e.r)
Events == ndJsonDeserialize(IOEnv.TRACE)
K == INSTANCE TraceKit WITH Check <- CheckEv, Events <- Events
Init == K!Init
Next == K!Next
Verdict == K!Verdict
=============================================================================
