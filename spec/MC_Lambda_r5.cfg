SPECIFICATION Spec
CONSTANTS
  Depth = 5
  Kind = "real"
  OutLists <- RealOutLists
  InVecs <- RealVecs
INVARIANTS CallsSeeLastInit Emit
CHECK_DEADLOCK FALSE
