INIT Init
NEXT Next
