------------------------------ MODULE MC_CSROps ------------------------------
(* Cases for the whole-matrix CSR operations: pairs of small dense matrices *)
(* (all contents of the given shapes over a small value set).               *)
EXTENDS Integers, Sequences, FiniteSets, TLC, Json, IOUtils, SequencesExt

Thorough == "TIER" \in DOMAIN IOEnv /\ IOEnv.TIER = "thorough"
\* shapes: (rows, cols, values)
Shapes == IF Thorough THEN {<<2, 2, {-1, 0, 1, 2}>>, <<2, 3, {0, 1}>>, <<3, 2, {0, -2}>>, <<1, 4, {0, 1, 2}>>, <<3, 1, {-1, 0, 1, 2}>>}     \* (all pairs: ~90000 cases)
          ELSE {<<2, 2, {-1, 0, 2}>>, <<2, 3, {0, 1}>>, <<3, 2, {0, -2}>>}
Flats(n, vals) == [1..n -> vals]
Case(sh, a, b) == [op |-> "csr_ops", rows |-> sh[1], cols |-> sh[2], a |-> a, b |-> b,
                   sr |-> [i \in 1..sh[1] |-> i + 1], sc |-> [i \in 1..sh[2] |-> -i]]
Cases == UNION {{Case(sh, a, b) : a \in Flats(sh[1] * sh[2], sh[3]), b \in Flats(sh[1] * sh[2], sh[3])} : sh \in Shapes}
ASSUME PrintT(<<"cases", Cardinality(Cases)>>)
ASSUME ndJsonSerialize(IOEnv.OUT, SetToSeq(Cases))
VARIABLE dummy
Init == dummy = 0
Next == UNCHANGED dummy
=============================================================================
