SPECIFICATION Spec
CONSTANTS
  Depth = 5
  Kind = "complex"
  OutLists <- ComplexOutLists
  InVecs <- ComplexVecs
INVARIANTS CallsSeeLastInit Emit
CHECK_DEADLOCK FALSE
