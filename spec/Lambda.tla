------------------------------- MODULE Lambda -------------------------------
(* Lambda evaluators (LambdaRealDoubleVisitor / LambdaComplexDoubleVisitor) *)
(* as a state machine: an evaluator object is either uninitialised or holds *)
(* the (inputs, outputs, cse) of its LAST init; call(vec) returns the       *)
(* values of the outputs at inputs := vec.  Nothing else of the history     *)
(* matters: re-initialisation behaves like a fresh object, CSE does not     *)
(* change results.                                                          *)
EXTENDS Integers, Sequences, FiniteSets, Term

CONSTANTS OutLists,    \* sequence of output lists (each a sequence of recipes)
          InVecs       \* sequence of input vectors (each a sequence of literal terms for x, y, z)
VARIABLES cfg,         \* 0 = uninitialised, else index into OutLists
          cse,         \* the cse flag of the last init
          lastOut      \* index of the input vector of the last call (0 = none); observation only
lvars == <<cfg, cse, lastOut>>

Names == <<"x", "y", "z">>
EnvOf(vec) == [s \in {Names[i] : i \in 1..Len(vec)} |->
                 LET i == CHOOSE i \in 1..Len(vec) : Names[i] = s IN Val(vec[i], [q \in {} |-> VUndef])]
\* what call(vec) must return for the list with index c: one value per output
Expected(c, vec) == [i \in 1..Len(OutLists[c]) |-> Val(OutLists[c][i], EnvOf(vec))]

LInit == cfg = 0 /\ cse = FALSE /\ lastOut = 0
DoInit(c, b) == cfg' = c /\ cse' = b /\ lastOut' = 0
DoCall(v) == cfg # 0 /\ lastOut' = v /\ UNCHANGED <<cfg, cse>>
=============================================================================
