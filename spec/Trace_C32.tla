------------------------------ MODULE Trace_C32 ------------------------------
(* C32: recorded results of the number-theoretic functions against their    *)
(* definitions (module NT).  A sub-check answers "" (agrees / not decided)  *)
(* or the reason; results that do not fit TLC's integers are not decided.   *)
EXTENDS NT, TLC, Json, IOUtils
VARIABLES l, bad, dec

Pick(rs) == IF \E i \in 1..Len(rs) : rs[i] # ""
            THEN rs[CHOOSE i \in 1..Len(rs) : rs[i] # "" /\ \A j \in 1..(i - 1) : rs[j] = ""] ELSE ""
IsInt(t) == t.k = "Int"
\* a recorded integer result o.v against want
EqI(name, o, want) == IF o.exc = "VerifAssertionError" THEN "bad:" \o name \o ":assertion"
                      ELSE IF o.exc # "" THEN "bad:" \o name \o ":exception:" \o o.exc
                      ELSE IF ~IsInt(o.v) THEN "" ELSE IF o.v.n = want THEN "" ELSE "bad:" \o name
\* a recorded plain number (not a dump)
EqN(name, o, want) == IF o.exc = "VerifAssertionError" THEN "bad:" \o name \o ":assertion"
                      ELSE IF o.exc # "" THEN "bad:" \o name \o ":exception:" \o o.exc
                      ELSE IF o.v = want THEN "" ELSE "bad:" \o name
\* a recorded rational (Int or Rat dump) against a guarded rational
EqR(name, o, want) == IF o.exc # "" THEN "bad:" \o name \o ":exception:" \o o.exc
                      ELSE IF ~RDef(want) \/ o.v.k \notin {"Int", "Rat"} THEN ""
                      ELSE IF <<o.v.n, o.v.d>> = want THEN "" ELSE "bad:" \o name
IntList(o) == [i \in 1..Len(o.v) |-> o.v[i].n]
AllInts(o) == \A i \in 1..Len(o.v) : IsInt(o.v[i])
SetOf(s) == {s[i] : i \in 1..Len(s)}
Ascending(s) == \A i \in 1..(Len(s) - 1) : s[i] < s[i + 1]
\* a list result that must enumerate exactly the set want, ascending, without repetition
EqSet(name, o, want) == IF o.exc # "" THEN "bad:" \o name \o ":exception:" \o o.exc
                        ELSE IF ~AllInts(o) THEN ""
                        ELSE IF SetOf(IntList(o)) # want THEN "bad:" \o name
                        ELSE IF Len(o.v) # Cardinality(want) THEN "bad:" \o name \o ":repeated" ELSE ""
\* a factor-finding method: a reported factor is non-trivial; must = TRUE when the method is complete
\* (below minN the method documents that it refuses the argument)
Factor(name, o, n, must, minN) ==
    IF o.exc = "VerifAssertionError" THEN "bad:" \o name \o ":assertion"
    ELSE IF o.exc # "" THEN (IF n < minN THEN "" ELSE "bad:" \o name \o ":exception:" \o o.exc)
    ELSE IF o.rc # 0 THEN (IF IsInt(o.v) /\ ~(o.v.n > 1 /\ o.v.n < n /\ n % o.v.n = 0) THEN "bad:" \o name \o ":not-a-proper-factor" ELSE "")
    ELSE IF must /\ ~IsPrime(n) THEN "bad:" \o name \o ":composite-not-factored" ELSE ""

Check1(c, r) ==
    LET n == c.n
        fs == FactorSeq(n)
        ps == {fs[i] : i \in 1..Len(fs)}
        exps == PerfectExps(n)
        emax == IF exps = {} THEN 1 ELSE CHOOSE e \in exps : \A f \in exps : f <= e
        emin == IF exps = {} THEN 1 ELSE CHOOSE e \in exps : \A f \in exps : f >= e
    IN Pick(<<
       IF n <= 45 THEN EqI("fibonacci", r.fibonacci, Fib(n)) ELSE "",
       IF n <= 44 THEN EqI("lucas", r.lucas, Luc(n)) ELSE "",
       IF n >= 1 /\ n <= 45 THEN Pick(<<EqI("fibonacci2", r.fibonacci2, Fib(n)), EqI("fibonacci2:prev", [exc |-> r.fibonacci2.exc, v |-> r.fibonacci2.w], Fib(n - 1))>>) ELSE "",
       IF n >= 1 /\ n <= 44 THEN Pick(<<EqI("lucas2", r.lucas2, Luc(n)), EqI("lucas2:prev", [exc |-> r.lucas2.exc, v |-> r.lucas2.w], Luc(n - 1))>>) ELSE "",
       IF n <= 12 THEN EqI("factorial", r.factorial, NFact(n)) ELSE "",
       IF n >= 2 THEN Pick(<<Factor("factor", r.factor, n, TRUE, 0), Factor("factor_trial_division", r.factor_trial, n, TRUE, 0),
                             Factor("factor_lehman_method", r.factor_lehman, n, TRUE, 21),
                             Factor("factor_pollard_pm1_method", r.factor_pm1, n, FALSE, 4), Factor("factor_pollard_rho_method", r.factor_rho, n, FALSE, 5)>>) ELSE "",
       IF n >= 2 THEN (IF r.prime_factors.exc # "" THEN "bad:prime_factors:exception:" \o r.prime_factors.exc
                       ELSE IF IntList(r.prime_factors) # fs THEN "bad:prime_factors" ELSE "") ELSE "",
       IF n >= 2 THEN (IF r.multiplicities.exc # "" THEN "bad:prime_factor_multiplicities:exception:" \o r.multiplicities.exc
                       ELSE IF {<<r.multiplicities.v[i][1].n, r.multiplicities.v[i][2]>> : i \in 1..Len(r.multiplicities.v)} # {<<p, Multiplicity(n, p)>> : p \in ps}
                               \/ Len(r.multiplicities.v) # Cardinality(ps) THEN "bad:prime_factor_multiplicities" ELSE "") ELSE "",
       \* B_1: both sign conventions exist; this library's is recorded by the test-suite (bernoulli(1) = -1/2 or 1/2): magnitude only
       IF n <= 16 /\ n # 1 THEN EqR("bernoulli", r.bernoulli, Bern(n)) ELSE "",
       IF n = 1 /\ r.bernoulli.exc = "" /\ ~(r.bernoulli.v.k = "Rat" /\ r.bernoulli.v.d = 2 /\ r.bernoulli.v.n \in {-1, 1}) THEN "bad:bernoulli" ELSE "",
       IF n <= 12 THEN EqR("harmonic", r.harmonic1, HarmM(n, 1)) ELSE "",
       IF n <= 6 THEN EqR("harmonic(n,2)", r.harmonic2, HarmM(n, 2)) ELSE "",
       IF n >= 2 /\ n <= 130 THEN
           LET roots == PrimitiveRoots(n)
           IN Pick(<< IF r.primitive_root.exc # "" THEN "bad:primitive_root:exception:" \o r.primitive_root.exc
                      ELSE IF (r.primitive_root.rc = 1) # (roots # {}) THEN "bad:primitive_root:existence"
                      ELSE IF r.primitive_root.rc = 1 /\ r.primitive_root.v.n \notin roots THEN "bad:primitive_root"
                      ELSE IF r.primitive_root.rc = 1 /\ IsPrime(n) /\ \E g \in roots : g < r.primitive_root.v.n THEN "bad:primitive_root:not-smallest"
                      ELSE "",
                      EqSet("primitive_root_list", r.primitive_root_list, roots) >>)
       \* larger moduli: a reported root must have order phi(n)
       ELSE IF n > 130 /\ n <= 1000 /\ r.primitive_root.exc = "" /\ r.primitive_root.rc = 1 /\ IsInt(r.primitive_root.v)
            THEN (IF Coprime(r.primitive_root.v.n, n) /\ Order(r.primitive_root.v.n, n) = Totient(n) THEN "" ELSE "bad:primitive_root")
       ELSE "",
       IF n >= 1 /\ n <= 300 THEN EqI("totient", r.totient, Totient(n)) ELSE "",
       IF n >= 1 /\ n <= 130 THEN EqI("carmichael", r.carmichael, Carmichael(n)) ELSE "",
       IF n >= 1 THEN EqN("mobius", r.mobius, Mobius(n)) ELSE "",
       IF n <= 300 THEN EqN("mertens", r.mertens, Mertens(n)) ELSE "",
       EqI("nextprime", r.nextprime, NextPrime(n)),
       EqN("probab_prime_p", r.isprime, IF IsPrime(n) THEN 1 ELSE 0),
       IF n <= 300 THEN EqI("primepi", r.primepi, PrimePi(n)) ELSE "",
       IF n >= 1 /\ n <= 28 THEN EqI("primorial", r.primorial, Primorial(n)) ELSE "",
       IF n >= 1 /\ n <= 300 THEN Pick(<<EqSet("quadratic_residues", r.quadratic_residues, QuadResidues(n)),
                                          IF r.quadratic_residues.exc = "" /\ ~Ascending(IntList(r.quadratic_residues)) THEN "bad:quadratic_residues:order" ELSE "">>) ELSE "",
       IF n >= 2 THEN Pick(<<EqI("perfect_power:exponent", [exc |-> r.perfect_power.exc, v |-> r.perfect_power.w], emax),
                             EqI("perfect_power:base", r.perfect_power, BaseOf(n, emax)),
                             EqI("perfect_power(lowest):exponent", [exc |-> r.perfect_power_lowest.exc, v |-> r.perfect_power_lowest.w], emin),
                             EqI("perfect_power(lowest):base", r.perfect_power_lowest, BaseOf(n, emin))>>) ELSE "" >>)

Check2(c, r) ==
    LET a == c.a
        b == c.b
        g == NGcd(a, b)
        F(name) == r[name]
        Has(name) == name \in DOMAIN r
    IN Pick(<<
       EqI("gcd", r.gcd, g), EqI("lcm", r.lcm, NLcm(a, b)),
       IF r.gcd_ext.exc # "" THEN "bad:gcd_ext:exception:" \o r.gcd_ext.exc
       ELSE IF r.gcd_ext.v.n # g THEN "bad:gcd_ext:gcd"
       ELSE IF r.gcd_ext.s.n * a + r.gcd_ext.t.n * b # g THEN "bad:gcd_ext:bezout" ELSE "",
       IF b # 0 THEN Pick(<< EqI("mod", r.mod, ModT(a, b)), EqI("quotient", r.quotient, QuoT(a, b)),
                             EqI("mod_f", r.mod_f, ModF(a, b)), EqI("quotient_f", r.quotient_f, QuoF(a, b)),
                             EqI("quotient_mod:q", r.quotient_mod, QuoT(a, b)), EqI("quotient_mod:r", [exc |-> r.quotient_mod.exc, v |-> r.quotient_mod.w], ModT(a, b)),
                             EqI("quotient_mod_f:q", r.quotient_mod_f, QuoF(a, b)), EqI("quotient_mod_f:r", [exc |-> r.quotient_mod_f.exc, v |-> r.quotient_mod_f.w], ModF(a, b)),
                             EqN("divides", r.divides, IF NDivides(b, a) THEN 1 ELSE 0) >>) ELSE "",
       IF b >= 1 THEN Pick(<<
           IF r.mod_inverse.exc # "" THEN "bad:mod_inverse:exception:" \o r.mod_inverse.exc
           ELSE IF (r.mod_inverse.rc = 1) # (NGcd(a, b) = 1) THEN "bad:mod_inverse:existence"
           ELSE IF r.mod_inverse.rc = 1 /\ ~(r.mod_inverse.v.n \in 0..(b - 1) /\ (a * r.mod_inverse.v.n) % b = 1 % b) THEN "bad:mod_inverse" ELSE "",
           IF b <= 60 THEN (IF r.multiplicative_order.exc # "" THEN "bad:multiplicative_order:exception:" \o r.multiplicative_order.exc
                            ELSE IF (r.multiplicative_order.rc = 1) # Coprime(a, b) THEN "bad:multiplicative_order:existence"
                            ELSE IF r.multiplicative_order.rc = 1 /\ r.multiplicative_order.v.n # Order(a, b) THEN "bad:multiplicative_order" ELSE "") ELSE "",
           EqN("is_quad_residue", r.is_quad_residue, IF IsSquareMod(a, b) THEN 1 ELSE 0) >>) ELSE "",
       IF Has("binomial") /\ b <= 24 /\ a \in -12..24 THEN EqI("binomial", r.binomial, Binom(a, b)) ELSE "",
       EqN("kronecker", r.kronecker, Kronecker(a, b)),
       IF Has("jacobi") THEN EqN("jacobi", r.jacobi, Jacobi(a, b)) ELSE "",
       IF Has("legendre") THEN EqN("legendre", r.legendre, Legendre(a, b)) ELSE "",
       IF Has("polygonal_number") /\ b <= 1000 THEN Pick(<<EqI("polygonal_number", r.polygonal_number, Polygonal(a, b)),
                                             EqI("principal_polygonal_root", r.polygonal_root_of_number, b)>>) ELSE "" >>)

Check3(c, r) ==
    LET a == c.a
        n == c.n
        m == c.m
        g == NGcd(c.r, c.s)
        rr == c.r \div (IF g = 0 THEN 1 ELSE g)
        ss == c.s \div (IF g = 0 THEN 1 ELSE g)
        roots == NthRoots(a, n, m)
        \* a^rr modulo m: for a negative rr the inverse of a must exist
        invs == {x \in 0..(m - 1) : (a * x) % m = 1 % m}
        base == IF rr >= 0 THEN a ELSE IF invs = {} THEN -1 ELSE CHOOSE x \in invs : TRUE
        target == IF base = -1 THEN -1 ELSE PowMod(base, NAbs(rr), m)
        pows == IF target = -1 THEN {} ELSE {x \in 0..(m - 1) : PowMod(x, ss, m) = target}
        L == NLcm(m, c.s)
        sols == {x \in 0..(L - 1) : x % m = a % m /\ x % c.s = n % c.s}
    IN Pick(<<
       EqSet("nthroot_mod_list", r.nthroot_mod_list, roots),
       IF r.nthroot_mod_list.exc = "" /\ ~Ascending(IntList(r.nthroot_mod_list)) THEN "bad:nthroot_mod_list:order" ELSE "",
       IF r.nthroot_mod.exc # "" THEN "bad:nthroot_mod:exception:" \o r.nthroot_mod.exc
       ELSE IF (r.nthroot_mod.rc = 1) # (roots # {}) THEN "bad:nthroot_mod:existence"
       \* (nthroot_mod promises a solution, not the least non-negative representative: compared as a residue)
       ELSE IF r.nthroot_mod.rc = 1 /\ (r.nthroot_mod.v.n % m) \notin roots THEN "bad:nthroot_mod" ELSE "",
       EqN("is_nth_residue", r.is_nth_residue, IF roots # {} THEN 1 ELSE 0),
       IF r.powermod.exc # "" THEN "bad:powermod:exception:" \o r.powermod.exc
       ELSE IF (r.powermod.rc = 1) # (pows # {}) THEN "bad:powermod:existence"
       ELSE IF r.powermod.rc = 1 /\ r.powermod.v.n \notin pows THEN "bad:powermod" ELSE "",
       EqSet("powermod_list", r.powermod_list, pows),
       IF r.crt.exc # "" THEN "bad:crt:exception:" \o r.crt.exc
       ELSE IF (r.crt.rc = 1) # (sols # {}) THEN "bad:crt:existence"
       ELSE IF r.crt.rc = 1 /\ r.crt.v.n \notin sols THEN "bad:crt" ELSE "" >>)

CheckEv(e) ==
    IF e.r.exc # "" THEN "bad:harness:" \o e.r.exc
    ELSE LET why == CASE e.c.op = "nt1" -> Check1(e.c, e.r)
                      [] e.c.op = "nt2" -> Check2(e.c, e.r)
                      [] OTHER -> Check3(e.c, e.r)
         IN IF why = "" THEN "ok" ELSE why
Events == ndJsonDeserialize(IOEnv.TRACE)
K == INSTANCE TraceKit WITH Check <- CheckEv, Events <- Events
Init == K!Init
Next == K!Next
Verdict == K!Verdict
=============================================================================
