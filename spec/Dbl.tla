--------------------------------- MODULE Dbl ---------------------------------
(* IEEE doubles as dumped by the harness: s = class ("fin","zero","inf",     *)
(* "nan"), n = sign, a = <<mhi, mlo, e, nhi, nlo, ne>> where                 *)
(* (nhi*2^26 + nlo) * 2^ne is the value with a 53-bit normalised mantissa.   *)
(* DblClose: agreement to about 2^-40 relative, decided on the integer fields.*)
EXTENDS Integers, Sequences

IAbsD(x) == IF x < 0 THEN -x ELSE x
\* "close", "far" or "unk" (exponents differ by one: not decided here)
DblClose(a, b) ==
    IF a.s # "fin" \/ b.s # "fin"
    THEN (IF a.s = b.s /\ (a.s = "nan" \/ a.s = "zero" \/ a.n = b.n) THEN "close"
          ELSE IF a.s = "zero" /\ b.s = "fin" THEN (IF b.a[6].n + 52 < -40 THEN "close" ELSE "far")
          ELSE IF b.s = "zero" /\ a.s = "fin" THEN (IF a.a[6].n + 52 < -40 THEN "close" ELSE "far")
          ELSE "far")
    ELSE IF a.n # b.n THEN (IF a.a[6].n + 52 < -40 /\ b.a[6].n + 52 < -40 THEN "close" ELSE "far")
    ELSE IF a.a[6].n = b.a[6].n
         THEN (IF IAbsD(a.a[4].n - b.a[4].n) > 1 THEN "far"
               ELSE IF IAbsD((a.a[4].n - b.a[4].n) * 67108864 + (a.a[5].n - b.a[5].n)) <= 8192 THEN "close" ELSE "far")
    ELSE IF IAbsD(a.a[6].n - b.a[6].n) = 1 THEN "unk"
    ELSE "far"
\* complex doubles: both parts (a tiny part next to a large one is compared absolutely)
CDblClose(a, b) ==
    LET r == DblClose(a.a[1], b.a[1]) i == DblClose(a.a[2], b.a[2])
    IN IF r = "close" /\ i = "close" THEN "close"
       ELSE IF r = "far" \/ i = "far" THEN "far" ELSE "unk"
AnyClose(a, b) == IF a.k = "Dbl" /\ b.k = "Dbl" THEN DblClose(a, b)
                  ELSE IF a.k = "CDbl" /\ b.k = "CDbl" THEN CDblClose(a, b)
                  ELSE IF a = b THEN "close" ELSE "far"

\* ---- the double nearest below a positive rational p/q (p, q < 2^15): 53 mantissa bits by long division.
\* Result in the shape of a dumped double (only the fields DblClose reads): truncation instead of rounding
\* differs by at most one unit in the last place, far inside DblClose's tolerance.
RECURSIVE Log2Floor(_, _, _), DivBits(_, _, _, _)
\* t with 2^t <= p/q < 2^(t+1), searched upward from t
Log2Floor(p, q, t) == IF t >= 0 THEN (IF p < q * (2 ^ (t + 1)) THEN t ELSE Log2Floor(p, q, t + 1))
                      ELSE (IF p * (2 ^ (-t)) >= q THEN (IF p * (2 ^ (-t)) < 2 * q THEN t ELSE Log2Floor(p, q, t + 1)) ELSE -99)
\* next n bits of r/den (r < den) as an integer
DivBits(r, den, n, acc) == IF n = 0 THEN <<acc, r>> ELSE LET r2 == 2 * r IN IF r2 >= den THEN DivBits(r2 - den, den, n - 1, 2 * acc + 1) ELSE DivBits(r2, den, n - 1, 2 * acc)
RatToDbl(p, q) ==        \* p, q > 0
    LET t0 == CHOOSE t \in -16..16 : (IF t >= 0 THEN p >= q * (2 ^ t) /\ p < q * (2 ^ (t + 1)) ELSE p * (2 ^ (-t)) >= q /\ p * (2 ^ (-t)) < 2 * q)
        num == IF t0 >= 0 THEN p ELSE p * (2 ^ (-t0))
        den == IF t0 >= 0 THEN q * (2 ^ t0) ELSE q
        hi == DivBits(num - den, den, 26, 1)           \* leading 1 and 26 more bits
        lo == DivBits(hi[2], den, 26, 0)
    IN [k |-> "Dbl", s |-> "fin", n |-> 1, d |-> 0,
        a |-> <<[n |-> 0], [n |-> 0], [n |-> 0], [n |-> hi[1]], [n |-> lo[1]], [n |-> t0 - 52]>>]
\* expected dump of the double value of a rational (sign, zero)
RatDbl(r) == IF r[1] = 0 THEN [k |-> "Dbl", s |-> "zero", n |-> 1, d |-> 0, a |-> <<>>]
             ELSE LET d == RatToDbl(IF r[1] < 0 THEN -r[1] ELSE r[1], r[2]) IN [d EXCEPT !.n = IF r[1] < 0 THEN -1 ELSE 1]
=============================================================================
