--------------------------------- MODULE Dbl ---------------------------------
(* IEEE doubles as dumped by the harness: s = class ("fin","zero","inf",     *)
(* "nan"), n = sign, a = <<mhi, mlo, e, nhi, nlo, ne>> where                 *)
(* (nhi*2^26 + nlo) * 2^ne is the value with a 53-bit normalised mantissa.   *)
(* DblClose: agreement to about 2^-40 relative, decided on the integer fields.*)
EXTENDS Integers, Sequences

IAbsD(x) == IF x < 0 THEN -x ELSE x
\* "close", "far" or "unk" (exponents differ by one: not decided here)
DblClose(a, b) ==
    IF a.s # "fin" \/ b.s # "fin"
    THEN (IF a.s = b.s /\ (a.s = "nan" \/ a.s = "zero" \/ a.n = b.n) THEN "close"
          ELSE IF a.s = "zero" /\ b.s = "fin" THEN (IF b.a[6].n + 52 < -40 THEN "close" ELSE "far")
          ELSE IF b.s = "zero" /\ a.s = "fin" THEN (IF a.a[6].n + 52 < -40 THEN "close" ELSE "far")
          ELSE "far")
    ELSE IF a.n # b.n THEN (IF a.a[6].n + 52 < -40 /\ b.a[6].n + 52 < -40 THEN "close" ELSE "far")
    ELSE IF a.a[6].n = b.a[6].n
         THEN (IF IAbsD(a.a[4].n - b.a[4].n) > 1 THEN "far"
               ELSE IF IAbsD((a.a[4].n - b.a[4].n) * 67108864 + (a.a[5].n - b.a[5].n)) <= 8192 THEN "close" ELSE "far")
    ELSE IF IAbsD(a.a[6].n - b.a[6].n) = 1 THEN "unk"
    ELSE "far"
\* complex doubles: both parts (a tiny part next to a large one is compared absolutely)
CDblClose(a, b) ==
    LET r == DblClose(a.a[1], b.a[1]) i == DblClose(a.a[2], b.a[2])
    IN IF r = "close" /\ i = "close" THEN "close"
       ELSE IF r = "far" \/ i = "far" THEN "far" ELSE "unk"
AnyClose(a, b) == IF a.k = "Dbl" /\ b.k = "Dbl" THEN DblClose(a, b)
                  ELSE IF a.k = "CDbl" /\ b.k = "CDbl" THEN CDblClose(a, b)
                  ELSE IF a = b THEN "close" ELSE "far"
=============================================================================
