------------------------------- MODULE MC_C30 -------------------------------
(* Cases for C30: polynomial equations of degree <= 4 built from their      *)
(* roots (so the solution set is known), rational equations with common     *)
(* factors, linear trigonometric equations and square linear systems.       *)
EXTENDS Integers, Sequences, FiniteSets, TLC, Json, IOUtils, SequencesExt, Randomization, Term
Thorough == "TIER" \in DOMAIN IOEnv /\ IOEnv.TIER = "thorough"
x == TSym("x")
B(k, a, b) == TOp(k, <<a, b>>)
U(k, a) == TOp(k, <<a>>)
\* (the thorough tier samples three times as many of each operand set)
Sub(S, n) == LET m == IF Thorough THEN 3 * n ELSE n IN IF Cardinality(S) <= m THEN S ELSE RandomSubset(m, S)
FP == 1048576                                   \* fixed point: units of 2^-20
Approx(p, q) == (2 * p * FP + q) \div (2 * q)   \* round(p/q * 2^20), q > 0
Root(t, re, im) == [t |-> t, re |-> re, im |-> im]
\* factors: [f |-> polynomial recipe, deg, roots]
Lin(p, q) == [f |-> B("sub", x, TRat(p, q)), deg |-> 1, roots |-> <<Root(TRat(p, q), Approx(p, q), 0)>>]
Lins == {Lin(0, 1), Lin(1, 1), Lin(-1, 1), Lin(2, 1), Lin(-2, 1), Lin(1, 2), Lin(-3, 2), Lin(3, 1), Lin(2, 3)}
S3 == U("sqrt", TInt(3))
Quads == { [f |-> B("add", B("pow", x, TInt(2)), TInt(1)), deg |-> 2, roots |-> <<Root(TI, 0, FP), Root(U("neg", TI), 0, -FP)>>],
           [f |-> TOp("add", <<B("pow", x, TInt(2)), x, TInt(1)>>), deg |-> 2,
            roots |-> <<Root(B("div", B("add", TInt(-1), B("mul", TI, S3)), TInt(2)), -524288, 908093), Root(B("div", B("sub", TInt(-1), B("mul", TI, S3)), TInt(2)), -524288, -908093)>>],
           [f |-> B("sub", B("pow", x, TInt(2)), TInt(2)), deg |-> 2, roots |-> <<Root(U("sqrt", TInt(2)), 1482910, 0), Root(U("neg", U("sqrt", TInt(2))), -1482910, 0)>>],
           [f |-> TOp("add", <<B("pow", x, TInt(2)), B("mul", TInt(2), x), TInt(5)>>), deg |-> 2, roots |-> <<Root(TComplex(TInt(-1), TInt(2)), -FP, 2 * FP), Root(TComplex(TInt(-1), TInt(-2)), -FP, -2 * FP)>>],
           [f |-> B("sub", B("mul", TInt(2), B("pow", x, TInt(2))), TInt(1)), deg |-> 2, roots |-> <<Root(B("pow", TInt(2), TRat(-1, 2)), 741455, 0), Root(U("neg", B("pow", TInt(2), TRat(-1, 2))), -741455, 0)>>],
           [f |-> TOp("add", <<B("pow", x, TInt(2)), U("neg", x), TInt(-1)>>), deg |-> 2,
            roots |-> <<Root(B("div", B("add", TInt(1), U("sqrt", TInt(5))), TInt(2)), 1696632, 0), Root(B("div", B("sub", TInt(1), U("sqrt", TInt(5))), TInt(2)), -648056, 0)>>] }
Factors == Lins \cup Quads
\* factor sequences of total degree <= 4 (ordered, with repetition: the order of the factors does not matter after expansion)
FSeqs(n) == {s \in [1..n -> Factors] : LET Dg[i \in 0..n] == IF i = 0 THEN 0 ELSE Dg[i - 1] + s[i].deg IN Dg[n] <= 4}
AllSeqs == FSeqs(1) \cup Sub(FSeqs(2), 120) \cup Sub(FSeqs(3), 140) \cup Sub(FSeqs(4), 100)
Prod(s) == IF Len(s) = 1 THEN s[1].f ELSE TOp("mul", [i \in 1..Len(s) |-> s[i].f])
Roots(s) == LET R[i \in 0..Len(s)] == IF i = 0 THEN <<>> ELSE R[i - 1] \o s[i].roots IN R[Len(s)]
Lead == {TInt(1), TInt(-2), TRat(1, 3)}
PolyCases == {[op |-> "solve", f |-> U("expand", B("mul", c, Prod(s))), x |-> "x", dom |-> d, roots |-> Roots(s), poles |-> <<>>, kind |-> "poly"]
              : s \in AllSeqs, c \in Sub(Lead, 2), d \in {"U", "R"}}
             \cup {[op |-> "solve", f |-> Prod(s), x |-> "x", dom |-> "C", roots |-> Roots(s), poles |-> <<>>, kind |-> "poly"] : s \in Sub(FSeqs(2) \cup FSeqs(3), 60)}
             \cup {[op |-> "solve", f |-> B("Eq", U("expand", Prod(s)), TInt(0)), x |-> "x", dom |-> "U", roots |-> Roots(s), poles |-> <<>>, kind |-> "poly"] : s \in Sub(FSeqs(2), 30)}
             \cup {[op |-> "solve", f |-> TInt(n), x |-> "x", dom |-> "R", roots |-> <<>>, poles |-> <<>>, kind |-> "const"] : n \in {0, 3}}
\* rational equations P/Q: numerator and denominator from linear/quadratic factors, sharing factors
RatCases == {[op |-> "solve", f |-> B(dv, U(ex, Prod(p)), U(ex, Prod(q))), x |-> "x", dom |-> d, roots |-> Roots(p), poles |-> Roots(q), kind |-> "rational"]
             : p \in Sub(FSeqs(1) \cup FSeqs(2), 24), q \in Sub(FSeqs(1) \cup FSeqs(2), 12), d \in {"U", "R"}, dv \in {"div"}, ex \in {"expand"}}
            \cup {[op |-> "solve", f |-> B("mul", Prod(p), B("pow", Prod(q), TInt(-1))), x |-> "x", dom |-> "U", roots |-> Roots(p), poles |-> Roots(q), kind |-> "rational"]
                  : p \in Sub(FSeqs(2), 20), q \in Sub(FSeqs(1), 9)}
            \cup {[op |-> "solve", f |-> B("add", B("div", TInt(1), B("sub", x, TInt(1))), B("div", TInt(1), B("add", x, TInt(2)))), x |-> "x", dom |-> "U",
                   roots |-> <<Root(TRat(-1, 2), -524288, 0)>>, poles |-> <<Root(TInt(1), FP, 0), Root(TInt(-2), -2 * FP, 0)>>, kind |-> "rational"]}
\* linear trigonometric equations
Pi == TConst("pi")
TrigEqs == {U("sin", x), U("cos", x), U("sin", B("mul", TInt(2), x)), B("sub", U("cos", x), TInt(1)), B("add", U("cos", B("mul", TInt(2), x)), TInt(1)),
            B("add", U("sin", x), U("cos", x)), B("sub", U("sin", x), U("cos", x)), B("sub", B("mul", TInt(2), U("sin", x)), TInt(1)),
            B("sub", U("tan", x), TInt(1)), U("sin", B("sub", x, B("div", Pi, TInt(3)))), B("add", B("mul", TInt(2), U("cos", x)), U("sqrt", TInt(3))),
            B("sub", U("sin", x), TInt(2)), U("tan", B("mul", TInt(3), x)), B("sub", B("pow", U("sin", x), TInt(2)), TRat(1, 4))}
TrigCases == {[op |-> "solve", f |-> f, x |-> "x", dom |-> d, roots |-> <<>>, poles |-> <<>>, kind |-> "trig"] : f \in TrigEqs, d \in {"U", "R"}}
\* square linear systems with a unique solution
Syms == <<"x", "y", "z">>
Ent == {TInt(0), TInt(1), TInt(-1), TInt(2), TRat(1, 2), TInt(-3)}
Eqn(row, rhs) == B("sub", TOp("add", [j \in 1..Len(row) |-> B("mul", row[j], TSym(Syms[j]))]), rhs)
LinCases == {[op |-> "linsolve", eqs |-> <<Eqn(<<m[1], m[2]>>, m[5]), Eqn(<<m[3], m[4]>>, m[6])>>, syms |-> <<"x", "y">>] : m \in Sub([1..6 -> Ent], 220)}
            \cup {[op |-> "linsolve", eqs |-> <<Eqn(<<m[1], m[2], m[3]>>, m[10]), Eqn(<<m[4], m[5], m[6]>>, m[11]), Eqn(<<m[7], m[8], m[9]>>, m[12])>>, syms |-> <<"x", "y", "z">>]
                  : m \in Sub([1..12 -> {TInt(0), TInt(1), TInt(-1), TInt(2)}], 220)}
Cases == PolyCases \cup RatCases \cup TrigCases \cup LinCases
ASSUME PrintT(<<"cases", Cardinality(PolyCases), Cardinality(RatCases), Cardinality(TrigCases), Cardinality(LinCases)>>)
ASSUME ndJsonSerialize(IOEnv.OUT, SetToSeq(Cases))
VARIABLE dummy
Init == dummy = 0
Next == UNCHANGED dummy
=============================================================================
