INIT Init
NEXT Next
