------------------------------ MODULE Trace_C17 ------------------------------
(* C17: parse(s) of the string printed from a tree by module Syntax is the  *)
(* expression built directly from the tree: equal as objects (both go       *)
(* through the canonicalising constructors), and in particular equal in     *)
(* value.  Case (s, t) pairs come from MC_C17; the trace spec re-derives    *)
(* nothing from s: the binding of s to t is module Syntax itself.           *)
EXTENDS Integers, Sequences, FiniteSets, TLC, Json, IOUtils, Term, Envs
VARIABLES l, bad, dec
Env == [s \in {"x", "y", "x1", "_a"} |-> CASE s = "x" -> VRat(<<3, 2>>) [] s = "y" -> VRat(<<-2, 3>>) [] s = "x1" -> VRat(<<5, 1>>) [] OTHER -> VRat(<<1, 4>>)]
CheckEv(e) ==
    IF e.r.exc # "" THEN "bad:harness:" \o e.r.exc
    ELSE IF e.r.bexc # "" THEN (IF e.r.pexc # "" THEN "unk" ELSE "bad:parse-accepted-what-construction-rejects:" \o e.r.bexc)
    ELSE IF e.r.pexc = "VerifAssertionError" THEN "bad:assertion"
    ELSE IF e.r.pexc # "" THEN "bad:parse:exception:" \o e.r.pexc
    ELSE IF e.r.p = e.r.b THEN (IF e.r.eq = 1 THEN "ok" ELSE "bad:eq-false-on-identical-dumps")
    ELSE LET c == Cmp3(Val(e.r.p, Env), Val(e.r.b, Env))
         IN IF c = "ne" THEN "bad:value" ELSE "bad:structure"
Events == ndJsonDeserialize(IOEnv.TRACE)
K == INSTANCE TraceKit WITH Check <- CheckEv, Events <- Events
Init == K!Init
Next == K!Next
Verdict == K!Verdict
=============================================================================
