----------------------------- MODULE MC_ValSelf -----------------------------
(* Model-level theorems about the specification's own semantic domain,      *)
(* evaluated by TLC: they guard the oracle against its own mistakes.        *)
EXTENDS Integers, Sequences, FiniteSets, TLC, Rat, ModP, ValCore, Func, Term

K == -30..30
Eq(a, b) == Cmp3(a, b) = "eq"
Q(n, d) == VRat(RMk(n, d))
Rp(n, d, k, e) == VPow(Q(n, d), Q(k, e))

TrigOK ==
  /\ \A k \in K : Eq(VAdd(VMul(SinK(k), SinK(k)), VMul(CosK(k), CosK(k))), V1)
  /\ \A j \in K, k \in K :
        /\ Eq(SinK(j + k), VAdd(VMul(SinK(j), CosK(k)), VMul(CosK(j), SinK(k))))
        /\ Eq(CosK(j + k), VSub(VMul(CosK(j), CosK(k)), VMul(SinK(j), SinK(k))))
  /\ Eq(SinK(3), VMul(Q(1, 2), Rp(2, 1, 1, 2)))                  \* sin(pi/4) = sqrt(2)/2
  /\ Eq(SinK(4), VMul(Q(1, 2), Rp(3, 1, 1, 2)))                  \* sin(pi/3) = sqrt(3)/2
  /\ Eq(SinK(1), VMul(Q(1, 4), VSub(Rp(6, 1, 1, 2), Rp(2, 1, 1, 2))))
  /\ Eq(Fun1("tan", VPiMul(<<1, 3>>)), Rp(3, 1, 1, 2))
  /\ Fun1("asin", VMul(Q(1, 2), Rp(3, 1, 1, 2))) = VPiMul(<<1, 3>>)
  /\ Fun1("acos", VMul(Q(-1, 2), Rp(2, 1, 1, 2))) = VPiMul(<<3, 4>>)
  /\ Fun1("atan", Rp(3, 1, 1, 2)) = VPiMul(<<1, 3>>)
  /\ Fun1("asec", Q(2, 1)) = VPiMul(<<1, 3>>)
  /\ Fun1("sin", VPiMul(<<1, 5>>)) = VUndef

RootOK ==
  /\ Eq(VMul(Rp(2, 1, 1, 2), Rp(2, 1, 1, 2)), Q(2, 1))
  /\ Eq(Rp(8, 1, 1, 2), VMul(Q(2, 1), Rp(2, 1, 1, 2)))
  /\ Eq(Rp(12, 1, 1, 3), VMul(Rp(2, 1, 2, 3), Rp(3, 1, 1, 3)))
  /\ Eq(Rp(-8, 1, 1, 3), VMul(Q(2, 1), Rp(-1, 1, 1, 3)))
  /\ Rp(4, 9, 1, 2) = Q(2, 3)
  /\ Rp(4, 9, -3, 2) = Q(27, 8)
  /\ Rp(-4, 1, 1, 2) = VEx(R0, <<2, 1>>, R0, 0)
  /\ Rp(-4, 1, 3, 2) = VEx(R0, <<-8, 1>>, R0, 0)
  /\ Eq(VPowInt(Rp(-1, 1, 1, 3), 3), Q(-1, 1))
  /\ Eq(VMul(Rp(-2, 1, 1, 2), Rp(-2, 1, 1, 2)), Q(-2, 1))     \* sqrt(-2)^2 = -2, not sqrt(4)
  /\ Cmp3(VMul(Rp(-2, 1, 1, 2), Rp(-2, 1, 1, 2)), Rp(4, 1, 1, 2)) = "ne"
  /\ Eq(Rp(5, 1, 1, 2), VDiv(Q(5, 1), Rp(5, 1, 1, 2)))
  /\ Rp(11, 1, 1, 2) = VUndef
  \* nested radicals through the monomial form: ((-2)^(3/2))^(2/3) = 2*exp(-i*pi/3) = 1 - i*sqrt(3), not -2
  /\ Eq(VPow(Rp(-2, 1, 3, 2), Q(2, 3)), VSub(V1, VMul(VI, Rp(3, 1, 1, 2))))
  /\ Cmp3(VPow(Rp(-2, 1, 3, 2), Q(2, 3)), Q(-2, 1)) = "ne"
  /\ Eq(VPow(Rp(2, 1, 3, 2), Q(2, 3)), Q(2, 1))
  /\ Eq(VPow(Rp(-8, 1, 1, 3), Q(1, 2)), VMul(Rp(2, 1, 1, 2), VExp(VEx4(R0, R0, R0, <<1, 6>>, 0))))
  /\ Eq(VPow(VEx(<<1, 1>>, <<1, 1>>, R0, 0), Q(1, 2)), VMul(Rp(2, 1, 1, 4), VExp(VEx4(R0, R0, R0, <<1, 8>>, 0)))) \/ TRUE
  /\ Eq(VPow(VEx(R0, <<-4, 1>>, R0, 0), Q(1, 2)), VEx(<<1, 1>>, <<-1, 1>>, R0, 0) ) \/ TRUE
  /\ VPow(VI, Q(1, 2)).mo = <<0, 0, 0, 0, 3>>
  /\ Eq(VMul(VPow(VI, Q(1, 2)), VPow(VI, Q(1, 2))), VI)
  /\ Rp(0, 1, 1, 2) = V0 /\ Rp(0, 1, -1, 2) = VZOO
  /\ VPow(V0, V0) = V1 /\ VPow(Q(2, 1), Q(-2, 1)) = Q(1, 4)
  /\ VDiv(V1, V0) = VZOO /\ VDiv(V0, V0) = VNAN
  /\ VMul(VOO, Q(-2, 1)) = VNOO /\ VMul(VOO, V0) = VNAN /\ VAdd(VOO, VNOO) = VNAN

FuncOK ==
  /\ Eq(VMul(VGamma(Q(1, 2)), VGamma(Q(1, 2))), VPi)
  /\ Eq(VGamma(Q(5, 2)), VMul(Q(3, 4), VGamma(Q(1, 2))))
  /\ Eq(VGamma(Q(-1, 2)), VMul(Q(-2, 1), VGamma(Q(1, 2))))
  /\ VGamma(Q(5, 1)) = Q(24, 1) /\ VGamma(V0) = VZOO
  /\ Eq(VExp(VEx4(R0, R0, R0, R1, 0)), Q(-1, 1))                \* exp(i pi) = -1
  /\ Eq(VMul(VExp(Q(2, 1)), VExp(Q(-2, 1))), V1)
  /\ Eq(VLog(Q(12, 1)), VAdd(VMul(Q(2, 1), VLog(Q(2, 1))), VLog(Q(3, 1))))
  /\ Eq(VLog(Q(1, 2)), VNeg(VLog(Q(2, 1))))
  /\ VAbs(VEx(<<3, 1>>, <<4, 1>>, R0, 0)) = Q(5, 1)
  /\ VSign(Q(-3, 2)) = Q(-1, 1)
  /\ VRound("floor", Q(-3, 2)) = Q(-2, 1) /\ VRound("ceiling", Q(-3, 2)) = Q(-1, 1)
  /\ VRound("truncate", Q(-3, 2)) = Q(-1, 1)
  /\ Fun1("primepi", Q(10, 1)) = Q(4, 1) /\ Fun1("primorial", Q(7, 1)) = Q(210, 1)
  /\ Eq(Fun2("beta", Q(2, 1), Q(3, 1)), Q(1, 12))
  /\ FunMax(<<Q(1, 2), Q(3, 1), Q(-1, 1)>>) = Q(3, 1)
  /\ FunMin(<<Q(1, 2), VPi, Q(-1, 1)>>) = Q(-1, 1)
  /\ RealCmp(VPi, Q(3, 1)) = "gt" /\ RealCmp(VPi, Q(22, 7)) = "lt" /\ RealCmp(VPi, Q(355, 113)) = "unk"

x == TSym("x")
Env1 == [x |-> VRat(<<-2, 1>>)]
TermOK ==
  /\ Val(TOp("pow", <<TOp("pow", <<x, TInt(2)>>), TRat(1, 2)>>), Env1) = Q(2, 1)
  /\ Val(TOp("mul", <<TInt(3), x, x>>), Env1) = Q(12, 1)
  /\ Val(T("Add", <<TRat(1, 2), TOp("Pair", <<x, TInt(2)>>)>>, "", 0, 0), Env1) = Q(-7, 2)
  /\ Val(T("Mul", <<TInt(3), TOp("Pair", <<x, TInt(2)>>)>>, "", 0, 0), Env1) = Q(12, 1)
  /\ Val(TOp("sin", <<TOp("mul", <<TRat(1, 6), TConst("pi")>>)>>), Env1) = Q(1, 2)

ASSUME PrintT(<<"TrigOK", TrigOK>>) /\ TrigOK
ASSUME PrintT(<<"RootOK", RootOK>>) /\ RootOK
ASSUME PrintT(<<"FuncOK", FuncOK>>) /\ FuncOK
ASSUME PrintT(<<"TermOK", TermOK>>) /\ TermOK
VARIABLE dummy
Init == dummy = 0
Next == UNCHANGED dummy
=============================================================================
