INIT Init
NEXT Next
