------------------------------- MODULE MC_C28 -------------------------------
(* Cases for C28: propositional formulas over relational and membership     *)
(* atoms; their simplified forms must have the same truth table.            *)
EXTENDS Integers, Sequences, FiniteSets, TLC, Json, IOUtils, SequencesExt, Randomization, Term

Thorough == "TIER" \in DOMAIN IOEnv /\ IOEnv.TIER = "thorough"
x == TSym("x")
y == TSym("y")
B(k, a, b) == TOp(k, <<a, b>>)
TT == T("True", <<>>, "", 0, 0)
FF == T("False", <<>>, "", 0, 0)
Iv(a, b, lo, ro) == T("interval", <<a, b>>, "", lo, ro)
Atoms == { B("Lt", x, TInt(1)), B("Le", x, y), B("Eq", x, y), B("Ne", x, TInt(0)), B("Gt", x, TInt(1)), B("Ge", y, TInt(2)),
           B("contains", x, TOp("finiteset", <<TInt(1), TInt(2), TInt(3)>>)), B("contains", x, Iv(TInt(0), TInt(1), 0, 0)),
           B("contains", x, TOp("finiteset", <<TInt(0), TInt(2)>>)), B("Lt", y, x), TT, FF }
Lits == Atoms \cup {TOp("not", <<a>>) : a \in Atoms}
Ops == {"and", "or", "xor", "nand", "nor", "xnor"}
L1 == {TOp(k, <<a, b>>) : k \in Ops, a \in Lits, b \in Lits}
      \cup {TOp(k, <<a, b, c>>) : k \in Ops, a \in RandomSubset(8, Lits), b \in RandomSubset(8, Lits), c \in RandomSubset(6, Lits)}
S1 == RandomSubset(IF Thorough THEN 600 ELSE 60, L1)
L2 == {TOp(k, <<a, b>>) : k \in Ops, a \in S1, b \in RandomSubset(10, Lits)}
      \cup {TOp("not", <<a>>) : a \in S1}
      \cup {TOp(k, <<a, b>>) : k \in {"and", "or", "xor"}, a \in RandomSubset(20, S1), b \in RandomSubset(15, S1)}
Pw == {TOp("piecewise", <<TInt(1), c1, TInt(2), c2, TInt(3), TT>>) : c1 \in RandomSubset(12, Lits \cup S1), c2 \in RandomSubset(10, Lits \cup S1)}
      \cup {TOp("piecewise", <<x, c1, y, TT>>) : c1 \in Lits}
      \cup {TOp("piecewise", <<TInt(1), c1, TInt(2), c2>>) : c1 \in RandomSubset(10, Lits), c2 \in RandomSubset(10, Lits)}
Recipes == Lits \cup L1 \cup L2 \cup Pw
Cases == {[op |-> "ev", chk |-> "val", envs |-> "logic", ts |-> <<t>>] : t \in Recipes}
ASSUME PrintT(<<"cases", Cardinality(L1), Cardinality(L2), Cardinality(Pw)>>)
ASSUME ndJsonSerialize(IOEnv.OUT, SetToSeq(Cases))
VARIABLE dummy
Init == dummy = 0
Next == UNCHANGED dummy
=============================================================================
