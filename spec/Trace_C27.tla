------------------------------ MODULE Trace_C27 ------------------------------
(* C27: the set the library returned must have, at every probe point, the   *)
(* membership the recipe's boolean combination defines; contains() must not *)
(* give a definite answer that contradicts it.                              *)
EXTENDS Integers, Sequences, FiniteSets, TLC, Json, IOUtils, SetsAlg
VARIABLES l, bad, dec

\* the probe points, in the order of MC_C27!ProbeTerms
Q(n, d) == RMk(n, d)
Pts == [i \in 1..7 |-> Probe(Q(i - 4, 1), "int")]
       \o <<Probe(Q(1, 2), "rat"), Probe(Q(3, 2), "rat"), Probe(Q(-1, 2), "rat"), Probe(Q(5, 2), "rat")>>
       \o <<Probe(Q(-7, 2), "rat"), Probe(Q(-9, 4), "rat"), Probe(Q(-5, 4), "rat"), Probe(Q(-1, 4), "rat"), Probe(Q(1, 4), "rat"),
            Probe(Q(3, 4), "rat"), Probe(Q(5, 4), "rat"), Probe(Q(7, 4), "rat"), Probe(Q(9, 4), "rat"), Probe(Q(11, 4), "rat"), Probe(Q(7, 2), "rat")>>
       \o <<Probe(Q(-13, 5), "irr"), Probe(Q(-7, 5), "irr"), Probe(Q(-3, 10), "irr"), Probe(Q(7, 20), "irr"), Probe(Q(7, 10), "irr"),
            Probe(Q(7, 5), "irr"), Probe(Q(17, 10), "irr"), Probe(Q(11, 5), "irr"), Probe(Q(13, 5), "irr"), Probe(Q(16, 5), "irr")>>
       \o <<Probe(Q(0, 1), "cplx"), Probe(Q(1, 1), "cplx")>>

RECURSIVE Scan(_, _, _)
Scan(e, i, seen) ==
    IF i > Len(Pts) THEN (IF seen THEN "ok" ELSE "unk")
    ELSE LET want == Mem(e.c.t, Pts[i])
             got == Mem(e.r.v, Pts[i])
             ct == e.r.cont[i]
         IN IF want \in {"T", "F"} /\ got \in {"T", "F"} /\ want # got THEN "bad:membership@" \o ToString(i)
            ELSE IF want \in {"T", "F"} /\ ct \in {"T", "F"} /\ ct # want THEN "bad:contains@" \o ToString(i)
            ELSE Scan(e, i + 1, seen \/ (want \in {"T", "F"} /\ got \in {"T", "F"}))

CheckEv(e) ==
    IF e.r.exc # "" THEN "bad:harness:" \o e.r.exc
    ELSE IF e.c.op = "setprobes" THEN "ok"
    ELSE IF e.r.ve = "VerifAssertionError" THEN "bad:assertion"
    ELSE IF e.r.ve # "" THEN "bad:exception:" \o e.r.ve
    ELSE IF Len(e.r.cont) # Len(Pts) THEN "bad:probe-count"
    ELSE Scan(e, 1, FALSE)

Events == ndJsonDeserialize(IOEnv.TRACE)
K == INSTANCE TraceKit WITH Check <- CheckEv, Events <- Events
Init == K!Init
Next == K!Next
Verdict == K!Verdict
=============================================================================
