INIT Init
NEXT Next
