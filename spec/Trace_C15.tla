------------------------------ MODULE Trace_C15 ------------------------------
(* C15: the C source printed for an expression, compiled by the C compiler  *)
(* with x and y bound to the given doubles, evaluates to the value of the   *)
(* expression at those inputs: the exact rational value where the           *)
(* specification knows it (long division, module Dbl), and in every case    *)
(* the value the library's own double evaluator (C12) gives, to 2^-40.  A   *)
(* printer may refuse an expression (exception); what it prints must        *)
(* compile.                                                                 *)
EXTENDS Integers, Sequences, FiniteSets, TLC, Json, IOUtils, Term, Dbl
VARIABLES l, bad, dec
Kinds == <<"c", "c89", "c99">>
One(it, t, env, edge) ==
    IF it.bexc # "" THEN "unk"
    ELSE LET val == Val(IF it.e.k = "Null" THEN t ELSE it.e, env)     \* the value of the constructed object (C07/C08 decide whether construction kept the recipe's value)
             exact == val.t = "num" /\ ExactRat(val) /\ IAbs(val.re[1]) < 32768 /\ val.re[2] < 32768
             want == RatDbl(val.re)
             bads == {k \in 1..3 : it[Kinds[k]].exc = "does-not-compile"}
             vals == {k \in 1..3 : it[Kinds[k]].exc = ""}
             lib == edge = 0 /\ it.lib.exc = "" /\ it.lib.v.k = "Dbl" /\ it.lib.v.s # "nan"     \* (special points: only the specification decides)
             farx == {k \in vals : exact /\ DblClose(it[Kinds[k]].v, want) = "far"}
             far == {k \in vals : lib /\ it[Kinds[k]].v.s # "nan" /\ DblClose(it[Kinds[k]].v, it.lib.v) = "far"}
             \* (a call of a function the dialect does not declare - loggamma, truncate, erfc under C89 - is the printer's
             \*  fallback for functions without a C counterpart and decides nothing)
         IN IF \E k \in 1..3 : it[Kinds[k]].exc = "VerifAssertionError" THEN "bad:assertion"
            ELSE IF bads # {} THEN "bad:printed-source-does-not-compile:" \o Kinds[CHOOSE k \in bads : TRUE]
            ELSE IF \E k \in 1..3 : it[Kinds[k]].exc = "no-output" THEN "bad:no-output"
            ELSE IF farx # {} THEN "bad:exact-value:" \o Kinds[CHOOSE k \in farx : TRUE]
            ELSE IF far # {} THEN "bad:value:" \o Kinds[CHOOSE k \in far : TRUE]
            ELSE IF vals # {} /\ (lib \/ exact) THEN "ok" ELSE "unk"
CheckEv(e) ==
    IF e.r.exc # "" THEN "bad:harness:" \o e.r.exc
    ELSE LET n == Len(e.r.items)
             env == [q \in {"x", "y"} |-> Val(e.c[q], [z \in {} |-> VUndef])]
             rs == [i \in 1..n |-> One(e.r.items[i], e.c.ts[i], env, e.c.edge)]
         IN IF \E i \in 1..n : rs[i] \notin {"ok", "unk"} THEN rs[CHOOSE i \in 1..n : rs[i] \notin {"ok", "unk"}] \o "@" \o ToString(CHOOSE i \in 1..n : rs[i] \notin {"ok", "unk"})
            ELSE IF \E i \in 1..n : rs[i] = "ok" THEN "ok" ELSE "unk"
Events == ndJsonDeserialize(IOEnv.TRACE)
K == INSTANCE TraceKit WITH Check <- CheckEv, Events <- Events
Init == K!Init
Next == K!Next
Verdict == K!Verdict
=============================================================================
