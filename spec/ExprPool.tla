------------------------------- MODULE ExprPool -------------------------------
(* A pool of expressions of every kind the structural dumper knows: shared  *)
(* by the generators for serialization (C19) and printers (C44).            *)
EXTENDS Integers, Sequences, FiniteSets, Term
x == TSym("x")
y == TSym("y")
B(k, a, b) == TOp(k, <<a, b>>)
U(k, a) == TOp(k, <<a>>)
Nums == {TInt(0), TInt(1), TInt(-7), TInt(123456789), B("pow", TInt(10), TInt(30)), U("neg", B("pow", TInt(7), TInt(45))), TRat(1, 2), TRat(-22, 7), B("div", B("pow", TInt(3), TInt(40)), B("pow", TInt(2), TInt(70))),
         TI, TComplex(TInt(2), TInt(-3)), TComplex(TRat(1, 2), TRat(2, 3)), TDbl(1, 3, -1), TDbl(-1, 1, -20), TDbl(1, 1, 0), TDblZero(1), TDblZero(-1),
         T("Dbl", <<>>, "inf", 1, 0), T("Dbl", <<>>, "inf", -1, 0), T("Dbl", <<>>, "nan", 1, 0), TCDbl(TDbl(1, 1, 0), TDbl(-1, 5, -3)), TInf(1), TInf(-1), TInf(0), TNaN,
         B("div", TDbl(1, 1, 0), TInt(3)), B("mul", TDbl(1, 1, 0), TConst("pi"))}
Atoms == {x, y, TSym("a_long_symbol_name"), TSym(""), TConst("pi"), TConst("E"), TConst("EulerGamma"), TConst("Catalan"), TConst("GoldenRatio")}
F1 == {"sin", "cos", "tan", "cot", "sec", "csc", "asin", "acos", "atan", "acot", "asec", "acsc", "sinh", "cosh", "tanh", "coth", "sech", "csch", "asinh", "acosh", "atanh", "acoth",
       "asech", "acsch", "log", "abs", "sign", "floor", "ceiling", "truncate", "conjugate", "gamma", "loggamma", "zeta", "dirichlet_eta", "erf", "erfc", "lambertw", "exp", "sqrt", "primepi", "primorial", "digamma"}
F2 == {"atan2", "beta", "polygamma", "kronecker_delta", "lowergamma", "uppergamma", "zeta2", "max", "min"}
Arith == {B(k, a, b) : k \in {"add", "mul", "pow", "sub", "div"}, a, b \in {x, y, TInt(2), TRat(1, 2), TI, TDbl(1, 3, -1)}}
Funs == {U(f, a) : f \in F1, a \in {x, B("add", x, y), TRat(1, 3)}} \cup {B(f, a, b) : f \in F2, a, b \in {x, y, TInt(2)}}
        \cup {TFn("f", <<x>>), TFn("g", <<x, y, TInt(1)>>), TOp("levi_civita", <<x, y, TInt(1)>>), TOp("max", <<x, y, TInt(3)>>), U("unevaluated_expr", B("add", x, x))}
Rel == {B(r, x, y) : r \in {"Lt", "Le", "Eq", "Ne"}} \cup {B("Lt", x, TInt(0)), T("True", <<>>, "", 0, 0), T("False", <<>>, "", 0, 0)}
Logic == {TOp(k, <<B("Lt", x, y), B("Le", y, TInt(1))>>) : k \in {"and", "or", "xor"}} \cup {U("not", B("Eq", x, y)), TOp("and", <<B("Lt", x, y), TOp("or", <<B("Lt", y, TInt(0)), B("Eq", x, TInt(1))>>)>>)}
Iv(a, b, lo, ro) == T("interval", <<a, b>>, "", lo, ro)
Sets == {Iv(TInt(0), TInt(1), 0, 0), Iv(TInt(-1), TInf(1), 1, 1), TOp("finiteset", <<x, TInt(1), TRat(1, 2)>>), TOp("union", <<Iv(TInt(0), TInt(1), 0, 0), TOp("finiteset", <<TInt(5)>>)>>),
         TOp("Reals", <<>>), TOp("Integers", <<>>), TOp("Rationals", <<>>), TOp("Complexes", <<>>), TOp("Naturals", <<>>), TOp("Naturals0", <<>>), TOp("EmptySet", <<>>), TOp("UniversalSet", <<>>),
         TOp("imageset", <<x, B("pow", x, TInt(2)), TOp("Integers", <<>>)>>), TOp("conditionset", <<x, B("Lt", x, y)>>), B("contains", x, Iv(TInt(0), TInt(1), 0, 0)),
         TOp("complement", <<TOp("Reals", <<>>), TOp("finiteset", <<x>>)>>), TOp("intersection", <<TOp("imageset", <<x, B("pow", x, TInt(2)), TOp("Integers", <<>>)>>), Iv(TInt(0), TInt(9), 0, 0)>>)}
Calc == {T("diff", <<TFn("f", <<x>>), x>>, "", 1, 0), T("diff", <<TFn("f", <<B("pow", x, TInt(2))>>), x>>, "", 1, 0), T("diff", <<T("diff", <<TFn("g", <<x, y>>), x>>, "", 1, 0), y>>, "", 1, 0),
         T("diff", <<U("abs", x), x>>, "", 1, 0), TOp("piecewise", <<x, B("Lt", x, TInt(0)), B("pow", x, TInt(2)), T("True", <<>>, "", 0, 0)>>),
         T("subs", <<T("diff", <<TFn("f", <<x>>), x>>, "", 1, 0), x, B("add", y, TInt(1))>>, "", 1, 0)}
\* shared subexpressions: the same object in several places
Shared == {TOp("add", <<U("sin", s), U("cos", s), s>>) : s \in {B("add", x, y), B("pow", x, y), U("exp", B("mul", x, y))}}
          \cup {TOp("mul", <<U("f1", s), B("pow", s, TInt(2))>>) : s \in {B("add", x, TInt(1))}} \cup {B("pow", U("sin", B("add", x, y)), U("sin", B("add", x, y)))}
\* several distinct inexact numbers in one expression (their parts are temporaries while an archive is written)
CD(a, b, c, d) == TCDbl(TDbl(1, a, b), TDbl(1, c, d))
CDs == <<CD(1, 0, 5, -1), CD(3, 0, 9, -1), CD(5, 0, 13, -1), CD(7, 0, 17, -1), TCDbl(TDbl(1, 3, -1), TDbl(-1, 1, 1)), TCDbl(TDbl(-1, 1, -2), TDbl(1, 3, -2))>>
Inexact == {TFn("f", <<CDs[1], CDs[2]>>), TFn("g", <<CDs[5], x, CDs[6], TDbl(1, 5, -2)>>), TOp("finiteset", <<CDs[1], CDs[2], CDs[3]>>),
            TOp("add", <<B("mul", CDs[1], x), B("mul", CDs[2], y), TOp("mul", <<CDs[3], x, y>>), CDs[4]>>),
            TOp("add", <<B("mul", TDbl(1, 3, -1), x), B("mul", TDbl(1, 5, -1), y), TDbl(1, 7, -1)>>),
            TOp("mul", <<B("pow", x, CDs[5]), B("pow", y, CDs[6])>>), TFn("h", <<CDs[1], CDs[2], CDs[3], CDs[4], CDs[5], CDs[6]>>),
            B("add", B("mul", CDs[5], x), TOp("add", <<CDs[6], y>>)), TFn("f", <<CDs[3], CDs[3]>>)}
Pool == Inexact \cup Nums \cup Atoms \cup Arith \cup Funs \cup Rel \cup Logic \cup Sets \cup Calc \cup Shared
=============================================================================
