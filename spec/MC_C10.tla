------------------------------- MODULE MC_C10 -------------------------------
(* Cases for C10: differentiation.  For every expression of the families:   *)
(* d/dx with and without the cache (same object, value of the textbook      *)
(* derivative D of module Term), second and mixed derivatives, and the      *)
(* derivative with respect to a symbol that does not occur (exactly 0).     *)
EXTENDS Integers, Sequences, FiniteSets, TLC, Json, IOUtils, SequencesExt, Randomization, Term

Thorough == "TIER" \in DOMAIN IOEnv /\ IOEnv.TIER = "thorough"
x == TSym("x")
y == TSym("y")
w == TSym("w")
B(k, a, b) == TOp(k, <<a, b>>)
U(k, a) == TOp(k, <<a>>)
Diff(e, s, cache) == T("diff", <<e, s>>, "", cache, 0)
\* inner arguments
Inner == {x, B("mul", TInt(2), x), B("pow", x, TInt(2)), B("add", x, y), B("mul", x, y), B("div", x, TInt(2)),
          B("sub", TInt(1), x), B("add", B("mul", TInt(3), x), TInt(1)), B("div", TInt(1), x)}
Alg0 == {x, B("pow", x, TInt(3)), B("pow", x, TInt(-2)), B("pow", x, TRat(1, 2)), B("pow", x, TRat(-3, 2)), B("pow", x, y),
         B("pow", TInt(2), x), B("pow", y, x), B("pow", x, x), U("sqrt", x), U("cbrt", x), B("div", TInt(1), x), B("div", x, y), B("div", y, x),
         B("mul", x, y), TOp("mul", <<x, y, B("add", x, TInt(1))>>), B("add", B("mul", x, y), B("pow", x, TInt(3))),
         B("div", B("add", x, TInt(1)), B("sub", x, TInt(1))), B("pow", B("add", B("pow", x, TInt(2)), TInt(1)), TInt(-1)),
         B("pow", B("add", x, y), TInt(3)), U("sqrt", B("add", B("pow", x, TInt(2)), TInt(1))), B("mul", TI, B("pow", x, TInt(2))),
         B("pow", B("mul", TInt(2), x), y), B("pow", B("add", x, TInt(1)), B("mul", TInt(2), x)), U("neg", B("pow", x, TInt(4))),
         U("expand", B("pow", B("add", x, y), TInt(2)))}
Trig1 == {"sin", "cos", "tan", "cot", "sec", "csc"}
Hyp1 == {"sinh", "cosh", "tanh", "coth", "sech", "csch", "exp"}
Inv1 == {"asin", "acos", "atan", "acot", "asec", "acsc", "asinh", "acosh", "atanh", "acoth", "asech", "acsch", "log", "erf", "erfc"}
Trig == {U(f, u) : f \in Trig1, u \in Inner}
        \cup {B("mul", U(f, x), U(g, x)) : f, g \in Trig1} \cup {B("pow", U(f, x), TInt(2)) : f \in Trig1}
        \cup {B("div", U(f, x), U(g, B("mul", TInt(2), x))) : f, g \in {"sin", "cos"}} \cup {B("mul", x, U(f, x)) : f \in Trig1}
        \cup {U("exp", B("mul", TI, x)), B("pow", U("sin", x), y), U("sin", U("cos", x)), U("sqrt", U("sin", x))}
Hyp == {U(f, u) : f \in Hyp1, u \in Inner}
       \cup {B("mul", U(f, x), U(g, x)) : f, g \in Hyp1} \cup {B("mul", B("pow", x, TInt(2)), U(f, x)) : f \in Hyp1}
       \cup {B("div", U(f, x), x) : f \in Hyp1} \cup {U("exp", B("pow", x, TInt(2))), U("exp", U("neg", x)), U("log", U("exp", x))}
Inv == {U(f, u) : f \in Inv1, u \in Inner} \cup {B("mul", x, U(f, x)) : f \in Inv1} \cup {B("pow", U(f, x), TInt(2)) : f \in Inv1}
       \cup {U("log", U("sin", x)), U("log", B("add", B("pow", x, TInt(2)), TInt(1))), B("mul", U("log", x), U("log", y)), U("atan", B("div", y, x))}
\* things without a rule in D (abs, floor, gamma, ...): only cache-consistency and zero are decisive
Other == {U("abs", x), U("sign", x), U("floor", x), U("gamma", x), U("loggamma", x), U("zeta", x), B("atan2", x, y), B("beta", x, y),
          TFn("f", <<x>>), TFn("g", <<B("pow", x, TInt(2)), y>>), U("lambertw", x), B("polygamma", TInt(1), x), U("conjugate", x),
          TOp("max", <<x, y>>), B("kronecker_delta", x, y), TOp("piecewise", <<x, B("Lt", x, TInt(0)), B("pow", x, TInt(2)), T("True", <<>>, "", 0, 0)>>)}
\* linear combinations c*f + h (the sum rule with scaled terms whose derivative is itself a sum)
Lin(S) == {B("add", B("mul", c, e), h) : c \in {TInt(3), TRat(-2, 3)}, e \in S, h \in {y, B("mul", x, y)}}
          \cup {TOp("add", <<B("mul", TInt(5), B("mul", x, e)), B("pow", x, TInt(2)), TInt(1)>>) : e \in S}
Fam == [arithc |-> Alg0 \cup Inv \cup Lin({U("log", x), U("atan", x), U("sqrt", x), B("pow", B("add", x, TInt(1)), TInt(-1)), B("mul", x, U("log", x))}),
        angle |-> Trig \cup Lin({U(f, x) : f \in Trig1} \cup {B("mul", x, U("tan", x)), B("pow", U("sin", x), TInt(2))}),
        ints |-> Hyp \cup Other \cup Lin({U(f, x) : f \in Hyp1} \cup {B("mul", x, U("exp", x))})]
Keep(S, n) == IF Thorough \/ Cardinality(S) <= n THEN S ELSE RandomSubset(n, S)
First1 == UNION {{[op |-> "ev", chk |-> "val+same", envs |-> en, ts |-> <<Diff(e, x, 1), Diff(e, x, 0)>>] : e \in Fam[en]} : en \in DOMAIN Fam}
Second == UNION {{[op |-> "ev", chk |-> "val", envs |-> en, ts |-> <<Diff(Diff(e, x, 1), x, 1)>>] : e \in Keep(Fam[en], 120)} : en \in DOMAIN Fam}
\* mixed partials commute (same object) and have the value of the model's mixed derivative
Mixed == UNION {{[op |-> "ev", chk |-> "val", envs |-> en, ts |-> <<Diff(Diff(e, x, 1), y, 1), Diff(Diff(e, y, 1), x, 1)>>]
                 : e \in Keep({f \in Fam[en] : Occurs(f, "y")}, 60)} : en \in DOMAIN Fam}
\* a symbol that does not occur: exactly the integer 0
Zero == UNION {{[op |-> "ev", chk |-> "same", envs |-> en, ts |-> <<TInt(0), Diff(e, w, 1), Diff(e, w, 0), Diff(Diff(e, x, 1), w, 1)>>]
                : e \in Fam[en]} : en \in DOMAIN Fam}
Cases == First1 \cup Second \cup Mixed \cup Zero
ASSUME PrintT(<<"cases", Cardinality(First1), Cardinality(Second), Cardinality(Mixed), Cardinality(Zero)>>)
ASSUME ndJsonSerialize(IOEnv.OUT, SetToSeq(Cases))
VARIABLE dummy
Init == dummy = 0
Next == UNCHANGED dummy
=============================================================================
