------------------------------ MODULE Trace_C39 ------------------------------
(* C39: structural queries against their definitions on the dump of the     *)
(* expression:                                                              *)
(*   free symbols  symbols occurring outside bound positions; binders are   *)
(*                 Subs (its variables), ImageSet and ConditionSet (their   *)
(*                 symbol); the variables of a Derivative are free          *)
(*   has_symbol    membership in the free symbols                           *)
(*   function_symbols / atoms  exactly the subterms of the matching kind    *)
(*   coeff         sum_n coeff(p, x, n) * x^n has the value of p, and no    *)
(*                 coefficient mentions x                                   *)
EXTENDS Integers, Sequences, FiniteSets, TLC, Json, IOUtils, Term, Envs
VARIABLES l, bad, dec

RECURSIVE Free(_), FreeSeq(_, _), Subs_(_), SubsSeq_(_, _)
FreeSeq(a, i) == IF i > Len(a) THEN {} ELSE Free(a[i]) \cup FreeSeq(a, i + 1)
Free(t) ==
    CASE t.k = "Sym" -> {t.s}
      [] t.k = "Dbl" -> {}
      [] t.k = "Subs" -> (Free(t.a[1]) \ {t.a[i].a[1].s : i \in 2..Len(t.a)}) \cup UNION {Free(t.a[i].a[2]) : i \in 2..Len(t.a)}
      [] t.k = "ImageSet" -> (Free(t.a[2]) \ {t.a[1].s}) \cup Free(t.a[3])
      [] t.k = "ConditionSet" -> Free(t.a[2]) \ {t.a[1].s}
      [] OTHER -> FreeSeq(t.a, 1)
\* all subterms (through every container of the dump)
SubsSeq_(a, i) == IF i > Len(a) THEN {} ELSE Subs_(a[i]) \cup SubsSeq_(a, i + 1)
Subs_(t) == IF t.k = "Dbl" THEN {t} ELSE {t} \cup SubsSeq_(t.a, 1)
OfKind(t, k) == {u \in Subs_(t) : u.k = k}
AsSet(s) == {s[i] : i \in 1..Len(s)}
NoRepeat(s) == Cardinality(AsSet(s)) = Len(s)
RECURSIVE PolySum(_, _, _, _)
PolySum(cs, xv, env, n) == IF n > Len(cs) THEN V0 ELSE VAdd(VMul(Val(cs[n], env), VPowInt(xv, n - 1)), PolySum(cs, xv, env, n + 1))
EnvOf(k) == LET e == EnvSets["arith"][k] IN [s \in {"x", "y", "z", "t", "w"} |-> CASE s = "t" -> VRat(<<3, 2>>) [] s = "w" -> VRat(<<-1, 3>>) [] OTHER -> e[s]]
\* value of f(t) when the coefficient variable is the function symbol f(t): not evaluable, skip
CheckEv(e) ==
    IF e.r.exc # "" THEN (IF e.r.exc = "VerifAssertionError" THEN "bad:assertion" ELSE "unk")
    ELSE LET d == e.r.e
             free == Free(d)
             gotFree == {e.r.free[i].s : i \in 1..Len(e.r.free)}
             probes == e.c.probe
             fsWant == OfKind(d, "FunctionSymbol")
             symWant == OfKind(d, "Sym")
             xs == IF e.c.x.k = "Sym" THEN e.c.x.s ELSE ""
             coeffBad == e.c.deg >= 0 /\ e.r.cexc = "" /\ xs # "" /\
                         \E k \in 1..5 : LET env == EnvOf(k)
                                             want == Val(d, env)
                                             got == PolySum(e.r.coeff, env[xs], env, 1)
                                         IN want.t = "num" /\ Cmp3(want, got) = "ne"
         IN IF e.r.fexc # "" THEN "bad:free_symbols:exception:" \o e.r.fexc
            ELSE IF \E i \in 1..Len(e.r.free) : e.r.free[i].k # "Sym" THEN "bad:free_symbols:not-symbols"
            ELSE IF gotFree # free THEN (IF \E s \in gotFree : s \notin free THEN "bad:free_symbols:extra" ELSE "bad:free_symbols:missing")
            ELSE IF e.r.hexc # "" THEN "bad:has_symbol:exception:" \o e.r.hexc
            \* (a symbol that occurs in bound position only is reported by has_symbol: distinguished class)
            ELSE IF \E i \in 1..Len(probes) : (e.r.has[i] = 1) # (probes[i] \in free) /\ ~(e.r.has[i] = 1 /\ probes[i] \in {u.s : u \in symWant}) THEN "bad:has_symbol"
            ELSE IF \E i \in 1..Len(probes) : (e.r.has[i] = 1) # (probes[i] \in free) THEN "bad:has_symbol:true-for-bound-symbol"
            ELSE IF e.r.fsexc # "" \/ e.r.aexc # "" THEN "bad:atoms:exception"
            ELSE IF AsSet(e.r.fsyms) # fsWant \/ ~NoRepeat(e.r.fsyms) THEN "bad:function_symbols"
            ELSE IF AsSet(e.r.atoms_fs) # fsWant \/ ~NoRepeat(e.r.atoms_fs) THEN "bad:atoms<FunctionSymbol>"
            ELSE IF AsSet(e.r.atoms_sym) # symWant \/ ~NoRepeat(e.r.atoms_sym) THEN "bad:atoms<Symbol>"
            ELSE IF e.c.deg >= 0 /\ e.r.cexc = "VerifAssertionError" THEN "bad:coeff:assertion"
            ELSE IF e.c.deg >= 0 /\ e.r.cexc # "" THEN "bad:coeff:exception:" \o e.r.cexc
            ELSE IF e.c.deg >= 0 /\ xs # "" /\ \E n \in 1..Len(e.r.coeff) : xs \in Free(e.r.coeff[n]) THEN "bad:coeff:mentions-variable"
            ELSE IF coeffBad THEN "bad:coeff:value"
            ELSE "ok"
Events == ndJsonDeserialize(IOEnv.TRACE)
K == INSTANCE TraceKit WITH Check <- CheckEv, Events <- Events
Init == K!Init
Next == K!Next
Verdict == K!Verdict
=============================================================================
