---------------------------------- MODULE GF ----------------------------------
(* Polynomials over GF(p) as coefficient sequences (element i = coefficient of *)
(* x^(i-1), entries in 0..p-1, no trailing zero, <<>> = 0): arithmetic by      *)
(* definition, division with remainder, Euclidean gcd, and the notions used    *)
(* to state the factorisation contracts (irreducible, square-free).            *)
EXTENDS Integers, Sequences, FiniteSets

RECURSIVE GTrim(_)
GTrim(f) == IF Len(f) = 0 THEN f ELSE IF f[Len(f)] = 0 THEN GTrim(SubSeq(f, 1, Len(f) - 1)) ELSE f
GNorm(f, p) == GTrim([i \in 1..Len(f) |-> f[i] % p])
GC(f, i) == IF i <= Len(f) THEN f[i] ELSE 0
GMax(a, b) == IF a > b THEN a ELSE b
GAdd(a, b, p) == GTrim([i \in 1..GMax(Len(a), Len(b)) |-> (GC(a, i) + GC(b, i)) % p])
GNeg(a, p) == [i \in 1..Len(a) |-> (p - a[i]) % p]
GSub(a, b, p) == GAdd(a, GNeg(b, p), p)
RECURSIVE GConv(_, _, _, _, _)
GConv(a, b, k, i, p) == IF i > Len(a) THEN 0
                        ELSE ((IF k + 1 - i >= 1 /\ k + 1 - i <= Len(b) THEN a[i] * b[k + 1 - i] ELSE 0) + GConv(a, b, k, i + 1, p)) % p
GMul(a, b, p) == IF Len(a) = 0 \/ Len(b) = 0 THEN <<>>
                 ELSE GTrim([k \in 1..(Len(a) + Len(b) - 1) |-> GConv(a, b, k, 1, p)])
RECURSIVE GPow(_, _, _)
GPow(a, k, p) == IF k = 0 THEN <<1>> ELSE GMul(a, GPow(a, k - 1, p), p)
RECURSIVE ModPow(_, _, _)
ModPow(b, k, p) == IF k = 0 THEN 1 ELSE (b * ModPow(b, k - 1, p)) % p
InvMod(a, p) == ModPow(a, p - 2, p)
\* division with remainder by a non-zero b: [q, r]
RECURSIVE GDivLoop(_, _, _, _)
GDivLoop(rem, b, q, p) ==
    IF Len(rem) < Len(b) THEN [q |-> GTrim(q), r |-> rem]
    ELSE LET d == Len(rem) - Len(b)
             c == (rem[Len(rem)] * InvMod(b[Len(b)], p)) % p
             term == [i \in 1..(d + 1) |-> IF i = d + 1 THEN c ELSE 0]
         IN GDivLoop(GSub(rem, GMul(term, b, p), p), b,
                     [i \in 1..GMax(Len(q), d + 1) |-> IF i = d + 1 THEN c ELSE GC(q, i)], p)
GDivMod(a, b, p) == GDivLoop(a, b, <<>>, p)
GMonic(a, p) == IF Len(a) = 0 THEN a ELSE LET c == InvMod(a[Len(a)], p) IN [i \in 1..Len(a) |-> (a[i] * c) % p]
RECURSIVE GGcd(_, _, _)
GGcd(a, b, p) == IF Len(b) = 0 THEN GMonic(a, p) ELSE GGcd(b, GDivMod(a, b, p).r, p)
GDiff(a, p) == IF Len(a) <= 1 THEN <<>> ELSE GTrim([i \in 1..(Len(a) - 1) |-> (i * a[i + 1]) % p])
RECURSIVE GHorner(_, _, _, _)
GHorner(a, x, i, p) == IF i > Len(a) THEN 0 ELSE (a[i] + x * GHorner(a, x, i + 1, p)) % p
GEval(a, x, p) == GHorner(a, x, 1, p)
\* a(h) mod m
RECURSIVE GCompose(_, _, _, _, _)
GCompose(a, h, i, m, p) == IF i > Len(a) THEN <<>>
                           ELSE GDivMod(GAdd(IF a[i] = 0 THEN <<>> ELSE <<a[i]>>, GMul(h, GCompose(a, h, i + 1, m, p), p), p), m, p).r
\* all monic polynomials of degree d
Monics(d, p) == {f \o <<1>> : f \in [1..d -> 0..(p - 1)]}
Divides(g, f, p) == Len(GDivMod(f, g, p).r) = 0
Irreducible(f, p) == Len(f) >= 2 /\ \A d \in 1..((Len(f) - 1) \div 2) : \A g \in Monics(d, p) : ~Divides(g, f, p)
SquareFree(f, p) == Len(f) >= 1 /\ Len(GGcd(f, GDiff(f, p), p)) = 1
RECURSIVE ProdPow(_, _, _)
\* product of fs[i].c ^ fs[i].m
ProdPow(fs, i, p) == IF i > Len(fs) THEN <<1>> ELSE GMul(GPow(fs[i].c, fs[i].m, p), ProdPow(fs, i + 1, p), p)
Scale(f, c, p) == GTrim([i \in 1..Len(f) |-> (f[i] * c) % p])
=============================================================================
