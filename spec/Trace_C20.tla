------------------------------ MODULE Trace_C20 ------------------------------
(* C20: loads of any byte string returns an expression or throws; whatever  *)
(* it returns can be printed, hashed and compared.  An outcome is           *)
(* acceptable when it is a usable expression (usable = 1) or an exception   *)
(* of the library or of the archive layer; a failed canonical-form          *)
(* assertion means that a non-canonical object was built from the bytes.    *)
(* Crashes, hangs and sanitizer reports end the harness (driver).           *)
EXTENDS Integers, Sequences, FiniteSets, TLC, Json, IOUtils
VARIABLES l, bad, dec
Acceptable == {"", "SerializationError", "SymEngineException", "NotImplementedError", "DomainError", "DivisionByZeroError", "ParseError",
               "cereal::Exception", "std::runtime_error", "std::invalid_argument", "std::out_of_range", "std::length_error", "std::bad_alloc"}
CheckEv(e) ==
    IF e.r.exc # "" THEN "bad:harness:" \o e.r.exc
    ELSE LET n == Len(e.r.out)
         IN IF \E i \in 1..n : e.r.out[i].exc = "VerifAssertionError" THEN "bad:non-canonical-object-built-from-bytes(assertion)"
            ELSE IF \E i \in 1..n : e.r.out[i].exc \notin Acceptable THEN "bad:foreign-exception:" \o e.r.out[CHOOSE i \in 1..n : e.r.out[i].exc \notin Acceptable].exc
            ELSE IF \E i \in 1..n : e.r.out[i].exc = "" /\ e.r.out[i].usable # 1 THEN "bad:unusable-result"
            ELSE "ok"
Events == ndJsonDeserialize(IOEnv.TRACE)
K == INSTANCE TraceKit WITH Check <- CheckEv, Events <- Events
Init == K!Init
Next == K!Next
Verdict == K!Verdict
=============================================================================
