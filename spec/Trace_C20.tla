------------------------------ MODULE Trace_C20 ------------------------------
(* C20: loads of any byte string returns an expression or throws; whatever  *)
(* it returns can be printed, hashed and compared.  An outcome is           *)
(* acceptable when it is a usable expression (usable = 1) or an exception   *)
(* of the library or of the archive layer; a failed canonical-form          *)
(* assertion means that a non-canonical object was built from the bytes.    *)
(* Crashes, hangs and sanitizer reports end the harness (driver).           *)
EXTENDS Integers, Sequences, FiniteSets, TLC, Json, IOUtils
VARIABLES l, bad, dec
Acceptable == {"", "SerializationError", "SymEngineException", "NotImplementedError", "DomainError", "DivisionByZeroError", "ParseError",
               "cereal::Exception", "std::runtime_error", "std::invalid_argument", "std::out_of_range", "std::length_error", "std::bad_alloc"}
\* every typed slot of a loaded object holds an object of the slot's class (dump kinds by dynamic type)
NumK == {"Int", "Rat", "Big", "BigRat", "Complex", "Dbl", "CDbl", "Inf", "NaN"}
BoolK == {"True", "False", "Not", "And", "Or", "Xor", "Contains", "Equality", "Unequality", "LessThan", "StrictLessThan"}
SetK == {"Interval", "FiniteSet", "Union", "Intersection", "Complement", "ImageSet", "ConditionSet", "Reals", "Integers", "Rationals", "Complexes", "Naturals", "Naturals0", "EmptySet", "UniversalSet"}
SlotsOk(t) ==
    CASE t.k = "Add" -> t.a[1].k \in NumK /\ \A i \in 2..Len(t.a) : t.a[i].k = "Pair" /\ t.a[i].a[2].k \in NumK
      [] t.k = "Mul" -> t.a[1].k \in NumK
      [] t.k = "Complex" -> \A i \in 1..Len(t.a) : t.a[i].k \in {"Int", "Rat", "Big", "BigRat"}
      [] t.k = "Interval" -> \A i \in 1..Len(t.a) : t.a[i].k \in NumK
      [] t.k \in {"Not", "And", "Or", "Xor"} -> \A i \in 1..Len(t.a) : t.a[i].k \in BoolK
      [] t.k = "Contains" -> Len(t.a) = 2 /\ t.a[2].k \in SetK
      [] t.k \in {"Union", "Intersection", "Complement"} -> \A i \in 1..Len(t.a) : t.a[i].k \in SetK
      [] OTHER -> TRUE
RECURSIVE WellTyped(_)
WellTyped(t) == t.k \in {"Dbl", "Null"} \/ (SlotsOk(t) /\ \A i \in 1..Len(t.a) : WellTyped(t.a[i]))
CheckEv(e) ==
    IF e.r.exc # "" THEN "bad:harness:" \o e.r.exc
    ELSE LET n == Len(e.r.out)
         IN IF \E i \in 1..n : e.r.out[i].exc = "VerifAssertionError" THEN "bad:non-canonical-object-built-from-bytes(assertion)"
            ELSE IF \E i \in 1..n : e.r.out[i].exc \notin Acceptable THEN "bad:foreign-exception:" \o e.r.out[CHOOSE i \in 1..n : e.r.out[i].exc \notin Acceptable].exc
            ELSE IF \E i \in 1..n : e.r.out[i].exc = "" /\ e.r.out[i].usable # 1 THEN "bad:unusable-result"
            ELSE IF \E i \in 1..n : e.r.out[i].exc = "" /\ ~WellTyped(e.r.out[i].d) THEN "bad:object-of-another-class-in-a-typed-slot"
            ELSE "ok"
Events == ndJsonDeserialize(IOEnv.TRACE)
K == INSTANCE TraceKit WITH Check <- CheckEv, Events <- Events
Init == K!Init
Next == K!Next
Verdict == K!Verdict
=============================================================================
