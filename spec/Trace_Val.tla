------------------------------ MODULE Trace_Val ------------------------------
(* Trace validation of value-preservation properties (C04, C07, C08, C09,   *)
(* C11, C35, C36, ...): one event = one case with recipes ts (what was      *)
(* asked of the API) and results r.vs (dumps of what the API returned).     *)
(*   chk "val"   every result has the value of its recipe at every          *)
(*               assignment of the named environment set                    *)
(*   chk "same"  all results are one and the same object (structure)        *)
(*   chk "val+same"  both                                                   *)
(* Value comparison is three-valued; only a definite difference rejects.    *)
EXTENDS Integers, Sequences, FiniteSets, TLC, Json, IOUtils, Term, Envs
VARIABLES l, bad, dec

Finite(v) == v.t = "num" \/ v.t = "bool"
\* compare the value the recipe denotes with the value of the result
CmpAt(recipe, result, env) ==
    LET a == Val(recipe, env)
    IN IF ~Finite(a) THEN "unk"           \* undefined or singular point of the recipe
       ELSE LET b == Val(result, env) IN Cmp3(a, b)

RECURSIVE ScanEnvs(_, _, _, _, _)
\* returns "ne@k" at the first differing environment, else "eq" if some agreed, else "unk"
ScanEnvs(recipe, result, envs, k, seenEq) ==
    IF k > Len(envs) THEN (IF seenEq THEN "eq" ELSE "unk")
    ELSE LET c == CmpAt(recipe, result, envs[k])
         IN IF c = "ne" THEN "ne@" \o ToString(k)
            ELSE ScanEnvs(recipe, result, envs, k + 1, seenEq \/ c = "eq")

\* is the recipe's value finite at some environment?  (then an exception is not acceptable)
SomeFinite(recipe, envs) == \E k \in 1..Len(envs) : Finite(Val(recipe, envs[k]))

ValOne(recipe, res, envs) ==
    IF res.exc = "VerifAssertionError" THEN "bad:assertion"
    ELSE IF res.exc # "" THEN (IF SomeFinite(recipe, envs) THEN "bad:exception:" \o res.exc ELSE "unk")
    ELSE LET s == ScanEnvs(recipe, res.v, envs, 1, FALSE)
         IN IF s = "eq" THEN "ok" ELSE IF s = "unk" THEN "unk" ELSE "bad:value:" \o s

Worst(rs) == IF \E i \in 1..Len(rs) : rs[i] \notin {"ok", "unk"}
             THEN rs[CHOOSE i \in 1..Len(rs) : rs[i] \notin {"ok", "unk"}]
             ELSE IF \E i \in 1..Len(rs) : rs[i] = "ok" THEN "ok" ELSE "unk"

AllSame(vs) == IF \A i \in 2..Len(vs) : vs[i] = vs[1] THEN "ok"
               ELSE "bad:results-differ:" \o ToString(CHOOSE i \in 2..Len(vs) : vs[i] # vs[1])

CheckEv(e) ==
    LET envs == EnvSets[e.c.envs]
        vals == [i \in 1..Len(e.c.ts) |-> ValOne(e.c.ts[i], e.r.vs[i], envs)]
    IN IF e.r.exc # "" THEN "bad:harness:" \o e.r.exc
       ELSE CASE e.c.chk = "val" -> Worst(vals)
              [] e.c.chk = "same" -> AllSame(e.r.vs)
              [] e.c.chk = "val+same" -> Worst(<<AllSame(e.r.vs)>> \o vals)
              [] OTHER -> "bad:unknown-check"

Events == ndJsonDeserialize(IOEnv.TRACE)
K == INSTANCE TraceKit WITH Check <- CheckEv, Events <- Events
Init == K!Init
Next == K!Next
Verdict == K!Verdict
=============================================================================
