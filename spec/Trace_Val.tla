------------------------------ MODULE Trace_Val ------------------------------
(* Trace validation of value-preservation properties (C04, C07, C08, C09,   *)
(* C11, C35, C36, ...): one event = one case with recipes ts (what was      *)
(* asked of the API) and results r.vs (dumps of what the API returned).     *)
(*   chk "val"   every result has the value of its recipe at every          *)
(*               assignment of the named environment set                    *)
(*   chk "same"  all results are one and the same object (structure)        *)
(*   chk "val+same"  both;  "val1+same": value of the first, sameness of all *)
(* Value comparison is three-valued; only a definite difference rejects.    *)
EXTENDS Integers, Sequences, FiniteSets, TLC, Json, IOUtils, Term, Envs, Expand, Canon
VARIABLES l, bad, dec

Finite(v) == v.t = "num" \/ v.t = "bool"
\* compare the value the recipe denotes with the value of the result
CmpAt(recipe, result, env) ==
    LET a == Val(recipe, env)
    IN IF ~Finite(a) THEN "unk"           \* undefined or singular point of the recipe
       ELSE LET b == Val(result, env) IN Cmp3(a, b)

RECURSIVE ScanEnvs(_, _, _, _, _)
\* returns "ne@k" at the first differing environment, else "eq" if some agreed, else "unk"
ScanEnvs(recipe, result, envs, k, seenEq) ==
    IF k > Len(envs) THEN (IF seenEq THEN "eq" ELSE "unk")
    ELSE LET c == CmpAt(recipe, result, envs[k])
         IN IF c = "ne" THEN "ne@" \o ToString(k)
            ELSE ScanEnvs(recipe, result, envs, k + 1, seenEq \/ c = "eq")

\* is the recipe's value finite at some environment?  (then an exception is not acceptable)
SomeFinite(recipe, envs) == \E k \in 1..Len(envs) : Finite(Val(recipe, envs[k]))

ValOne(recipe, res, envs) ==
    IF res.exc = "VerifAssertionError" THEN "bad:assertion"
    ELSE IF res.exc # "" THEN (IF SomeFinite(recipe, envs) THEN "bad:exception:" \o res.exc ELSE "unk")
    \* cross-cutting C03 monitor: whatever the API returned must be in canonical form
    ELSE IF ~IsCanonicalDeep(res.v) THEN "bad:not-canonical"
    ELSE LET s == ScanEnvs(recipe, res.v, envs, 1, FALSE)
         IN IF s = "eq" THEN "ok" ELSE IF s = "unk" THEN "unk" ELSE "bad:value:" \o s

\* "at every point where both are defined": a non-finite value of the result is not decisive either,
\* and an operation documented as not implemented for a class may say so
RECURSIVE ScanEnvsDef(_, _, _, _, _)
ScanEnvsDef(recipe, result, envs, k, seenEq) ==
    IF k > Len(envs) THEN (IF seenEq THEN "eq" ELSE "unk")
    ELSE LET c == IF Finite(Val(result, envs[k])) THEN CmpAt(recipe, result, envs[k]) ELSE "unk"
         IN IF c = "ne" THEN "ne@" \o ToString(k)
            ELSE ScanEnvsDef(recipe, result, envs, k + 1, seenEq \/ c = "eq")
ValOneDef(recipe, res, envs) ==
    IF res.exc = "VerifAssertionError" THEN "bad:assertion"
    ELSE IF res.exc \in {"NotImplementedError", "SymEngineException"} THEN "unk"
    ELSE IF res.exc # "" THEN (IF SomeFinite(recipe, envs) THEN "bad:exception:" \o res.exc ELSE "unk")
    ELSE IF ~IsCanonicalDeep(res.v) THEN "bad:not-canonical"
    ELSE LET s == ScanEnvsDef(recipe, res.v, envs, 1, FALSE)
         IN IF s = "eq" THEN "ok" ELSE IF s = "unk" THEN "unk" ELSE "bad:value:" \o s

Worst(rs) == IF \E i \in 1..Len(rs) : rs[i] \notin {"ok", "unk"}
             THEN rs[CHOOSE i \in 1..Len(rs) : rs[i] \notin {"ok", "unk"}]
             ELSE IF \E i \in 1..Len(rs) : rs[i] = "ok" THEN "ok" ELSE "unk"

AllSame(vs) == IF \A i \in 2..Len(vs) : vs[i] = vs[1] THEN "ok"
               ELSE "bad:results-differ:" \o ToString(CHOOSE i \in 2..Len(vs) : vs[i] # vs[1])

\* a factor with a negative numeric exponent, or a fraction, at the top level of a dumped product / power / number
NegNum(t) == (t.k = "Int" /\ t.n < 0) \/ (t.k = "Rat" /\ t.n < 0)
NegTop(t) ==
    CASE t.k = "Rat" -> TRUE
      [] t.k = "Pow" -> NegNum(t.a[2])
      [] t.k = "Mul" -> t.a[1].k = "Rat" \/ \E i \in 2..Len(t.a) : NegNum(t.a[i].a[2])
      [] OTHER -> FALSE
\* certainly not a real number (exactly known with a non-zero imaginary part,
\* or known in polar form with an angle that is not a multiple of pi; mo[5] counts units of pi/12)
NotReal(v) == v.t = "num" /\ ((Exact(v) /\ (v.im # R0 \/ v.ip # R0)) \/ (Len(v.mo) = 5 /\ v.mo[5] % 12 # 0))

CheckEv(e) ==
    LET envs == EnvSets[e.c.envs]
        vals == [i \in 1..Len(e.c.ts) |-> ValOne(e.c.ts[i], e.r.vs[i], envs)]
    IN IF e.r.exc # "" THEN "bad:harness:" \o e.r.exc
       ELSE CASE e.c.chk = "val" -> Worst(vals)
              [] e.c.chk = "valdef" -> Worst([i \in 1..Len(e.c.ts) |-> ValOneDef(e.c.ts[i], e.r.vs[i], envs)])
              [] e.c.chk = "same" -> AllSame(e.r.vs)
              [] e.c.chk = "val+same" -> Worst(<<AllSame(e.r.vs)>> \o vals)
              [] e.c.chk = "val1+same" -> Worst(<<AllSame(e.r.vs), ValOne(e.c.ts[1], e.r.vs[1], envs)>>)
              \* C09: ts = <<expand(e), expand(expand(e))>>
              [] e.c.chk = "expand" ->
                   Worst(<<vals[1],
                           IF e.r.vs[1].exc # "" THEN "unk"
                           ELSE IF e.r.vs[2] # e.r.vs[1] THEN "bad:not-idempotent"
                           ELSE IF ~IsExpanded(e.r.vs[1].v) THEN "bad:not-expanded" ELSE "ok">>)
              \* C09: ts = <<expand(e1), expand(e2)>> with e1 = e2 as polynomials (by construction;
              \* re-checked by value at every environment): the two results must be one object
              [] e.c.chk = "expand-pair" ->
                   IF e.r.vs[1].exc # "" \/ e.r.vs[2].exc # "" THEN Worst(vals)
                   ELSE IF \A k \in 1..Len(envs) : Cmp3(Val(e.c.ts[1], envs[k]), Val(e.c.ts[2], envs[k])) = "eq"
                        THEN Worst(<<vals[1], vals[2],
                                     IF e.r.vs[1].v = e.r.vs[2].v THEN "ok" ELSE "bad:equal-polynomials-expand-differently">>)
                        ELSE "unk"
              \* C03: only the structural clause (and the assertion hook): any library exception
              \* other than a failed canonical-form assertion is acceptable here
              [] e.c.chk = "canon" ->
                   Worst([i \in 1..Len(e.r.vs) |->
                            IF e.r.vs[i].exc = "VerifAssertionError" THEN "bad:assertion"
                            ELSE IF e.r.vs[i].exc # "" THEN "unk"
                            ELSE IF IsCanonicalDeep(e.r.vs[i].v) THEN "ok" ELSE "bad:not-canonical"])
              \* C36: ts = <<numer(e), denom(e)>>: n/d has the value of e, and neither has a
              \* negative numeric exponent or a fraction at its top level
              [] e.c.chk = "numden" ->
                   IF e.r.vs[1].exc # "" \/ e.r.vs[2].exc # ""
                   THEN Worst(<<ValOne(e.c.ts[1].a[1], e.r.vs[1], envs), ValOne(e.c.ts[1].a[1], e.r.vs[2], envs)>>)
                   ELSE LET n == e.r.vs[1].v
                            d == e.r.vs[2].v
                            q == T("div", <<n, d>>, "", 0, 0)
                        IN Worst(<<ValOne(e.c.ts[1].a[1], [exc |-> "", v |-> q], envs),
                                   IF NegTop(n) THEN "bad:negative-exponent-in-numerator"
                                   ELSE IF NegTop(d) THEN "bad:negative-exponent-in-denominator" ELSE "ok">>)
              \* C36: ts = <<real_part(e), imag_part(e)>>: re + I*im has the value of e and both are real
              [] e.c.chk = "reim" ->
                   IF e.r.vs[1].exc # "" \/ e.r.vs[2].exc # ""
                   THEN Worst(<<ValOneDef(e.c.ts[1].a[1], e.r.vs[1], envs), ValOneDef(e.c.ts[1].a[1], e.r.vs[2], envs)>>)
                   ELSE LET re == e.r.vs[1].v
                            im == e.r.vs[2].v
                            sum == T("add", <<re, T("mul", <<TI, im>>, "", 0, 0)>>, "", 0, 0)
                        IN Worst(<<ValOne(e.c.ts[1].a[1], [exc |-> "", v |-> sum], envs),
                                   IF \E k \in 1..Len(envs) : NotReal(Val(re, envs[k])) THEN "bad:real-part-not-real"
                                   ELSE IF \E k \in 1..Len(envs) : NotReal(Val(im, envs[k])) THEN "bad:imaginary-part-not-real"
                                   ELSE "ok">>)
              [] OTHER -> "bad:unknown-check"

Events == ndJsonDeserialize(IOEnv.TRACE)
K == INSTANCE TraceKit WITH Check <- CheckEv, Events <- Events
Init == K!Init
Next == K!Next
Verdict == K!Verdict
=============================================================================
