SPECIFICATION Spec
CONSTANTS
  MaxObj = 3
  MaxHandles = 2
  Cascade = FALSE
INVARIANTS QuiescentIsEmpty
CHECK_DEADLOCK FALSE
