INIT Init
NEXT Next
