------------------------------ MODULE MC_Sieve ------------------------------
(* Bounded model of the sieve: all call histories up to Depth over small    *)
(* limits and tiny segment sizes.  TLC checks L2 against L1 in every state  *)
(* and writes every maximal behaviour as a program for replay on the real   *)
(* Sieve.                                                                   *)
EXTENDS Sieve, TLC, Json, IOUtils

CONSTANTS Depth, Limits, SegBits, IterLimits, EmitOn
VARIABLE hist
vars == <<sieveVars, hist>>

AllPrimes == SortedSeq(PrimesUpTo(500))
Step(a, k, n) == [a |-> a, k |-> k, n |-> n, out |-> out']

Init == SieveInit /\ hist = <<>>
Next ==
    /\ Len(hist) < Depth
    /\ \/ \E n \in Limits : Generate(n) /\ hist' = Append(hist, Step("Generate", 0, n))
       \/ Clear /\ hist' = Append(hist, Step("Clear", 0, 0))
       \/ \E b \in BOOLEAN : SetClear(b) /\ hist' = Append(hist, Step("SetClear", 0, IF b THEN 1 ELSE 0))
       \/ \E s \in SegBits : SetSegBits(s) /\ hist' = Append(hist, Step("SetSegBits", 0, s))
       \/ SetSieveSize(1) /\ hist' = Append(hist, Step("SetSieveSize", 0, 1))
       \/ \E k \in IterIds, n \in IterLimits : IterNew(k, n) /\ hist' = Append(hist, Step("IterNew", k, n))
       \/ \E k \in IterIds : IterNext(k) /\ hist' = Append(hist, Step("IterNext", k, 0))
       \/ \E k \in IterIds : IterDestroy(k) /\ hist' = Append(hist, Step("IterDestroy", k, 0))
Spec == Init /\ [][Next]_vars

\* ---- L1: what each call must return, stated without reference to the cache
L1 == Len(hist) > 0 =>
        LET h == hist[Len(hist)]
        IN CASE h.a = "Generate" -> h.out = SortedSeq(PrimesUpTo(h.n))
             [] h.a = "IterNext" ->
                  LET it == iters[h.k]
                      \* number of primes this iterator has yielded before this call
                      yielded == Cardinality({i \in 1..(Len(hist) - 1) :
                                     /\ hist[i].a = "IterNext" /\ hist[i].k = h.k
                                     /\ \A j \in (i + 1)..(Len(hist) - 1) :
                                            ~(hist[j].a = "IterNew" /\ hist[j].k = h.k)
                                     /\ (it.limit = 0 \/ hist[i].out[1] <= it.limit)})
                      p == AllPrimes[yielded + 1]
                  IN h.out = <<IF it.limit = 0 \/ p <= it.limit THEN p ELSE it.limit + 1>>
             [] OTHER -> h.out = <<>>

Emit == (EmitOn /\ Len(hist) = Depth) =>
          Serialize(ToJson([op |-> "sieve", seg0 |-> 8, steps |-> hist]) \o "\n", IOEnv.OUT,
                    [format |-> "TXT", charset |-> "UTF-8",
                     openOptions |-> <<"WRITE", "CREATE", "APPEND">>]).exitValue = 0
\* the history variable is observation only
View == sieveVars
=============================================================================
