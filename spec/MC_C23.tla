------------------------------- MODULE MC_C23 -------------------------------
(* Cases for C23: pairs of polynomials over GF(p), p in {2,3,5,7}.          *)
EXTENDS Integers, Sequences, FiniteSets, TLC, Json, IOUtils, SequencesExt, Randomization
Thorough == "TIER" \in DOMAIN IOEnv /\ IOEnv.TIER = "thorough"
Lists(p, n) == UNION {[1..k -> 0..(p - 1)] : k \in 0..n}
Case(p, a, b, k) == [op |-> "gf", p |-> p, a |-> a, b |-> b, k |-> k]
NS == IF Thorough THEN 6000 ELSE 700
Small(p, n) == LET L == Lists(p, n) IN IF Cardinality(L \X L) <= NS THEN L \X L ELSE RandomSubset(NS, L \X L)
\* raw lists with non-normalised entries (negative, >= p) exercise from_vec's reduction
Cases == {Case(2, pr[1], pr[2], 3) : pr \in Small(2, 4)}
         \cup {Case(3, pr[1], pr[2], 3) : pr \in Small(3, 3)}
         \cup {Case(5, pr[1], pr[2], 2) : pr \in Small(5, 3)}
         \cup {Case(7, pr[1], pr[2], 2) : pr \in Small(7, 2)}
         \cup {Case(7, a, b, 3) : a \in RandomSubset(IF Thorough THEN 60 ELSE 20, Lists(7, 4)), b \in RandomSubset(IF Thorough THEN 40 ELSE 15, Lists(7, 3))}
         \cup {Case(5, <<-1, 7, 12>>, <<6, -4>>, 2), Case(3, <<3, 3>>, <<1, 1>>, 2), Case(2, <<1, 1, 1, 1, 1, 1, 1>>, <<1, 0, 1>>, 2)}
ASSUME PrintT(<<"cases", Cardinality(Cases)>>)
ASSUME ndJsonSerialize(IOEnv.OUT, SetToSeq(Cases))
VARIABLE dummy
Init == dummy = 0
Next == UNCHANGED dummy
=============================================================================
