------------------------------- MODULE MC_C23 -------------------------------
(* Cases for C23: pairs of polynomials over GF(p), p in {2,3,5,7}.          *)
EXTENDS Integers, Sequences, FiniteSets, TLC, Json, IOUtils, SequencesExt, Randomization, GF
Thorough == "TIER" \in DOMAIN IOEnv /\ IOEnv.TIER = "thorough"
Lists(p, n) == UNION {[1..k -> 0..(p - 1)] : k \in 0..n}
Case(p, a, b, k) == [op |-> "gf", p |-> p, a |-> a, b |-> b, k |-> k]
NS == IF Thorough THEN 6000 ELSE 700
Small(p, n) == LET L == Lists(p, n) IN IF Cardinality(L \X L) <= NS THEN L \X L ELSE RandomSubset(NS, L \X L)
\* raw lists with non-normalised entries (negative, >= p) exercise from_vec's reduction
Cases == {Case(2, pr[1], pr[2], 3) : pr \in Small(2, 4)}
         \cup {Case(3, pr[1], pr[2], 3) : pr \in Small(3, 3)}
         \cup {Case(5, pr[1], pr[2], 2) : pr \in Small(5, 3)}
         \cup {Case(7, pr[1], pr[2], 2) : pr \in Small(7, 2)}
         \cup {Case(7, a, b, 3) : a \in RandomSubset(IF Thorough THEN 60 ELSE 20, Lists(7, 4)), b \in RandomSubset(IF Thorough THEN 40 ELSE 15, Lists(7, 3))}
         \cup {Case(5, <<-1, 7, 12>>, <<6, -4>>, 2), Case(3, <<3, 3>>, <<1, 1>>, 2), Case(2, <<1, 1, 1, 1, 1, 1, 1>>, <<1, 0, 1>>, 2)}
\* factorisation family: products of two or three monic irreducibles (equal-degree and mixed-degree, repeated factors)
Irr(d, p) == {f \in Monics(d, p) : Irreducible(f, p)}
Sub(S, n) == IF Cardinality(S) <= n THEN S ELSE RandomSubset(n, S)
NF == IF Thorough THEN 400 ELSE 40
Prod2(p, d1, d2) == Sub({GMul(f, g, p) : f \in Irr(d1, p), g \in Irr(d2, p)}, NF)
FacCases == UNION {{Case(p, a, <<1, 1>>, 2) : a \in Prod2(p, 2, 2) \cup Prod2(p, 1, 3) \cup Prod2(p, 2, 3) \cup Prod2(p, 3, 3) \cup Prod2(p, 1, 1)} : p \in {3, 5, 7}}
            \cup {Case(2, a, <<1, 1>>, 2) : a \in Prod2(2, 5, 5) \cup Prod2(2, 4, 5) \cup Prod2(2, 3, 4) \cup Prod2(2, 4, 4) \cup Prod2(2, 2, 5) \cup Prod2(2, 6, 6)}
            \cup UNION {{Case(p, GMul(GMul(f, f, p), g, p), <<1, 1>>, 2) : f \in Sub(Irr(2, p), 4), g \in Sub(Irr(2, p), 4)} : p \in {3, 5}}
            \cup {Case(3, GMul(GMul(f, g, 3), h, 3), <<1, 1>>, 2) : f \in Irr(2, 3), g \in Irr(2, 3), h \in Sub(Irr(3, 3), 4)}
AllCases == Cases \cup FacCases
ASSUME PrintT(<<"cases", Cardinality(Cases), Cardinality(FacCases)>>)
ASSUME ndJsonSerialize(IOEnv.OUT, SetToSeq(AllCases))
VARIABLE dummy
Init == dummy = 0
Next == UNCHANGED dummy
=============================================================================
