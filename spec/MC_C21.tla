------------------------------- MODULE MC_C21 -------------------------------
(* Cases for C21: pairs of univariate polynomials given by coefficient      *)
(* lists (integer and rational coefficients), an exponent and evaluation    *)
(* points.                                                                  *)
EXTENDS Integers, Sequences, FiniteSets, TLC, Json, IOUtils, SequencesExt, Randomization, Term

Thorough == "TIER" \in DOMAIN IOEnv /\ IOEnv.TIER = "thorough"
ICoefs == {-7, -3, -1, 0, 1, 2, 7}
Lists(C, n) == UNION {[1..k -> C] : k \in 0..n}
ISmall == Lists({-2, -1, 0, 1, 3}, 2)
IBig == Lists(ICoefs, IF Thorough THEN 4 ELSE 3) \cup {<<100, -99, 0, 1>>, <<0, 0, 0, 0, 5>>, <<1, 1, 1, 1, 1, 1>>, <<-7, -7, -7>>, <<7, 7, 7>>}
IBigS == IF Cardinality(IBig) <= 700 THEN IBig ELSE RandomSubset(700, IBig)      \* (the product below must stay under TLC's set-size limit)
IPairs == (ISmall \X ISmall) \cup RandomSubset(IF Thorough THEN 12000 ELSE 1500, IBigS \X IBigS)
           \cup {<<p, p>> : p \in RandomSubset(200, IBig)}
IntT(s) == [i \in 1..Len(s) |-> TInt(s[i])]
ICases == {[op |-> "upoly", kind |-> "UInt", a |-> IntT(p[1]), b |-> IntT(p[2]), k |-> 3,
            pts |-> <<TInt(0), TInt(1), TInt(-2), TInt(3)>>] : p \in IPairs}
RCoefs == {<<0, 1>>, <<1, 1>>, <<-1, 1>>, <<1, 2>>, <<-2, 3>>, <<3, 1>>, <<5, 4>>}
RLists == Lists(RCoefs, 3)
RPairs == RandomSubset(IF Thorough THEN 8000 ELSE 1200, RLists \X RLists) \cup {<<p, p>> : p \in RandomSubset(100, RLists)}
RatT(s) == [i \in 1..Len(s) |-> TRat(s[i][1], s[i][2])]
RCases == {[op |-> "upoly", kind |-> "URat", a |-> RatT(p[1]), b |-> RatT(p[2]), k |-> 2,
            pts |-> <<TInt(0), TInt(1), TRat(-1, 2), TRat(2, 3)>>] : p \in RPairs}
Cases == ICases \cup RCases
ASSUME PrintT(<<"cases", Cardinality(ICases), Cardinality(RCases)>>)
ASSUME ndJsonSerialize(IOEnv.OUT, SetToSeq(Cases))
VARIABLE dummy
Init == dummy = 0
Next == UNCHANGED dummy
=============================================================================
