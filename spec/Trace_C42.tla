------------------------------ MODULE Trace_C42 ------------------------------
(* C42.  capi: a recipe evaluated through the C API gives the object the    *)
(*   C++ API gives, or an error code exactly when the C++ API throws (the   *)
(*   code of that exception class); nothing escapes.                        *)
(* ccont: the recorded outcome of every container operation equals the      *)
(*   outcome of module Containers run on the same history, and the final    *)
(*   contents agree.                                                        *)
(* exprops: the Expression operators give the objects the core functions    *)
(*   give, and throw exactly when they do.                                  *)
EXTENDS Integers, Sequences, FiniteSets, TLC, Json, IOUtils, Containers
VARIABLES l, bad, dec

Capi(c, r) ==
    IF r.escaped # "" THEN "bad:exception-escaped-the-C-API:" \o r.escaped
    ELSE IF r.c.code = -1 THEN "unk"
    ELSE IF r.p.exc = "VerifAssertionError" THEN "unk"       \* (a canonical-form assertion: C03's business)
    ELSE IF r.p.exc # "" /\ r.c.code = 0 THEN "bad:C-API-succeeded-where-C++-throws:" \o r.p.exc
    ELSE IF r.p.exc = "" /\ r.c.code # 0 THEN "bad:C-API-error-where-C++-succeeds"
    ELSE IF r.p.exc # "" THEN (IF r.c.code = r.p.code THEN "ok" ELSE "bad:error-code")
    ELSE IF r.c.v # r.p.v THEN "bad:different-result"
    ELSE IF r.c.eq # 1 THEN "bad:basic_eq"
    ELSE "ok"

\* equality class of a recorded value: the index of the first equal value of the case
ClassOf(d, vals) == IF \E i \in 1..Len(vals) : vals[i] = d THEN CHOOSE i \in 1..Len(vals) : vals[i] = d /\ \A j \in 1..(i - 1) : vals[j] # d ELSE 0
Norm(op, vals) == LET cls(i) == ClassOf(vals[i], vals)
                  IN CASE op[1] = "VecPush" -> <<op[1], cls(op[2]), 0>>
                       [] op[1] = "VecSet" -> <<op[1], op[2], cls(op[3])>>
                       [] op[1] \in {"SetInsert", "SetFind", "SetErase", "MapGet"} -> <<op[1], cls(op[2]), 0>>
                       [] op[1] = "MapInsert" -> <<op[1], cls(op[2]), cls(op[3])>>
                       [] OTHER -> op
RECURSIVE Run(_, _, _, _, _)
\* first disagreement, or "" with the final state checked by the caller
Run(ops, steps, vals, k, st) ==
    IF k > Len(ops) THEN [why |-> "", st |-> st]
    ELSE LET o == Step(st, Norm(ops[k], vals))
             s == steps[k]
             vecop == ops[k][1] \in {"VecPush", "VecGet", "VecSet", "VecErase"}
             rcOK == IF vecop THEN (s.rc = 0) = (o.rc = 0) ELSE s.rc = o.rc
             vOK == IF o.v = 0 THEN TRUE ELSE ClassOf(s.v, vals) = o.v
         IN IF s.esc # "" THEN [why |-> "bad:exception-escaped:" \o ops[k][1], st |-> st]
            ELSE IF ~rcOK THEN [why |-> "bad:return-code:" \o ops[k][1], st |-> st]
            ELSE IF ~vOK THEN [why |-> "bad:value:" \o ops[k][1], st |-> st]
            ELSE IF s.size # o.size THEN [why |-> "bad:size:" \o ops[k][1], st |-> st]
            ELSE Run(ops, steps, vals, k + 1, o.st)
Ccont(c, r) ==
    LET res == Run(c.ops, r.steps, r.vals, 1, Empty)
    IN IF res.why # "" THEN res.why
       ELSE IF [i \in 1..Len(r.fvec) |-> ClassOf(r.fvec[i], r.vals)] # res.st.vec THEN "bad:final-vector"
       ELSE IF {ClassOf(r.fset[i], r.vals) : i \in 1..Len(r.fset)} # res.st.set \/ Len(r.fset) # Cardinality(res.st.set) THEN "bad:final-set"
       ELSE "ok"
Names == {"add", "sub", "mul", "div", "neg", "iadd", "isub", "imul", "idiv", "pow", "expand"}
ExprOps(c, r) ==
    LET o == r.o
    IN IF \E n \in Names : (o[n].xe = "") # (o[n].xc = "") /\ o[n].xe # "VerifAssertionError" /\ o[n].xc # "VerifAssertionError"
       THEN "bad:Expression-operator-throws-differently:" \o (CHOOSE n \in Names : (o[n].xe = "") # (o[n].xc = ""))
       ELSE IF \E n \in Names : o[n].same = 0 THEN "bad:Expression-operator-differs:" \o (CHOOSE n \in Names : o[n].same = 0)
       ELSE IF o.eq.v = 0 \/ o.ne.v = 0 THEN "bad:Expression-comparison"
       ELSE "ok"
CheckEv(e) ==
    IF e.r.exc # "" THEN "bad:harness:" \o e.r.exc
    ELSE CASE e.c.op = "capi" -> Capi(e.c, e.r)
           [] e.c.op = "ccont" -> Ccont(e.c, e.r)
           [] OTHER -> (IF e.r.bexc # "" THEN "unk" ELSE ExprOps(e.c, e.r))
Events == ndJsonDeserialize(IOEnv.TRACE)
K == INSTANCE TraceKit WITH Check <- CheckEv, Events <- Events
Init == K!Init
Next == K!Next
Verdict == K!Verdict
=============================================================================
