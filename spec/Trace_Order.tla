----------------------------- MODULE Trace_Order -----------------------------
(* C01 / C02: every recorded universe must satisfy the axioms of module     *)
(* Order.  Every witness of every violated axiom is reported, as            *)
(* "bad:<axiom>@i,j,k" with indices into the case's object list.            *)
EXTENDS Order, TLC, Json, IOUtils, SequencesExt
VARIABLES l, bad, dec
Events == ndJsonDeserialize(IOEnv.TRACE)

RECURSIVE Join(_, _)
Join(t, i) == IF i > Len(t) THEN "" ELSE (IF i > 1 THEN "," ELSE "") \o ToString(t[i]) \o Join(t, i + 1)
Tag(name, witnesses) == {"bad:" \o name \o "@" \o Join(w, 1) : w \in witnesses}
\* a bound on the number of reported witnesses per axiom keeps the verdict small
Some(S) == IF Cardinality(S) <= 40 THEN S ELSE LET q == SetToSeq(S) IN {q[i] : i \in 1..40}

Which == IF "AXIOMS" \in DOMAIN IOEnv THEN IOEnv.AXIOMS ELSE "all"
Reasons(e) ==
    LET o == e.r
        c01 == Tag("EqReflexive", EqReflexive(o)) \cup Tag("EqSymmetric", EqSymmetric(o))
               \cup Tag("EqTransitive", Some(EqTransitive(o))) \cup Tag("EqImpliesHash", EqImpliesHash(o))
               \cup Tag("HashCacheStable", HashCacheStable(o)) \cup Tag("ContainersAreQuotients", ContainersAreQuotients(o))
               \cup Tag("AltPathsEqual", AltPathsEqual(o, e.c.groups))
        c02 == Tag("CmpRange", CmpRange(o)) \cup Tag("CmpZeroIffEq", Some(CmpZeroIffEq(o)))
               \cup Tag("CmpAntisym", Some(CmpAntisym(o))) \cup Tag("CmpTransitive", Some(CmpTransitive(o)))
               \cup Tag("LessIrreflexive", LessIrreflexive(o)) \cup Tag("LessTotalUpToEq", Some(LessTotalUpToEq(o)))
               \cup Tag("LessTransitive", Some(LessTransitive(o))) \cup Tag("OrdersAgree", OrdersAgree(o))
    IN IF Which = "C01" THEN c01 ELSE IF Which = "C02" THEN c02 ELSE c01 \cup c02

Init == l = 1 /\ bad = <<>> /\ dec = 0
Next == /\ l <= Len(Events)
        /\ LET e == Events[l]
               rs == IF e.r.exc # "" THEN {"bad:harness:" \o e.r.exc} ELSE Reasons(e)
           IN bad' = bad \o [i \in 1..Cardinality(rs) |-> [id |-> e.c.id, why |-> SetToSeq(rs)[i]]]
        /\ dec' = dec + 1
        /\ l' = l + 1
Verdict == l = Len(Events) + 1 =>
             ndJsonSerialize(IOEnv.VERDICT, <<[n |-> Len(Events), dec |-> dec, bad |-> bad]>>)
=============================================================================
