------------------------------- MODULE MC_C16 -------------------------------
(* Cases for C16: expressions of the parseable fragment, each in several    *)
(* constructions that give the same object (operand orders).                *)
EXTENDS Integers, Sequences, FiniteSets, TLC, Json, IOUtils, SequencesExt, Randomization, Term
Thorough == "TIER" \in DOMAIN IOEnv /\ IOEnv.TIER = "thorough"
\* (the thorough tier samples three times as many of each operand set)
Sub(S, n) == LET m == IF Thorough THEN 3 * n ELSE n IN IF Cardinality(S) <= m THEN S ELSE RandomSubset(m, S)
x == TSym("x")
y == TSym("y")
B(k, a, b) == TOp(k, <<a, b>>)
U(k, a) == TOp(k, <<a>>)
Atoms == {x, y, TSym("x1"), TSym("_a"), TSym("alpha_2"), TInt(2), TInt(-3), TInt(0), TRat(1, 2), TRat(-3, 4), TI, TComplex(TInt(2), TInt(-3)), TComplex(TRat(1, 2), TRat(2, 3)),
          TDbl(1, 3, -1), TDbl(-1, 1, -2), TDbl(1, 125, 4), TConst("pi"), TConst("E"), TConst("EulerGamma"), TInf(1), TInf(-1), TInf(0), TNaN}
Bin == {"add", "sub", "mul", "div", "pow"}
Comm == {"add", "mul"}
D1 == {B(k, a, b) : k \in Bin, a, b \in Sub(Atoms, 10)} \cup {U("neg", a) : a \in Atoms}
      \cup {U(f, a) : f \in {"sin", "cos", "tan", "exp", "log", "sqrt", "abs", "gamma", "atan", "asinh", "floor", "ceiling", "sign", "erf", "zeta", "loggamma", "lambertw"}, a \in Sub(Atoms, 4)}
      \cup {B(f, a, b) : f \in {"atan2", "max", "min", "beta", "polygamma", "kronecker_delta", "lowergamma", "uppergamma"}, a, b \in Sub(Atoms, 3)}
D2 == {B(k, a, b) : k \in Bin, a \in Sub(D1, 24), b \in Sub(D1 \cup Atoms, 24)} \cup {U("neg", a) : a \in Sub(D1, 30)} \cup {U(f, a) : f \in {"sin", "sqrt", "exp", "abs"}, a \in Sub(D1, 20)}
      \cup {B("pow", B("pow", a, b), c) : a \in {x, TInt(2), B("add", x, y)}, b \in {TInt(2), TRat(1, 2), y, TInt(-1)}, c \in {TRat(1, 2), TInt(3), x, TRat(-1, 3)}}
      \cup {B("mul", c, a) : c \in {TInt(-1), TInt(-2), TRat(-1, 2), TI, TComplex(TInt(0), TInt(-1)), TComplex(TInt(1), TInt(1))}, a \in Sub(D1, 12)}
\* every kind of number as the base and as the exponent of a power that stays a power, in every embedding
NumB == {TI, TComplex(TInt(0), TInt(-1)), TComplex(TInt(0), TInt(2)), TComplex(TInt(0), TInt(-2)), TComplex(TInt(0), TRat(-1, 2)), TComplex(TInt(1), TInt(1)), TComplex(TInt(-1), TInt(-1)),
         TComplex(TInt(2), TInt(-3)), TInt(-1), TInt(-2), TInt(2), TRat(-1, 2), TRat(1, 2), TRat(3, 2), TDbl(1, 1, -1), TDbl(-1, 1, -2), TCDbl(TDbl(1, 1, 0), TDbl(-1, 1, 0))}
NumP == {B("pow", n, e) : n \in NumB, e \in {x, TRat(1, 3), TRat(-1, 3), B("add", y, TInt(1))}} \cup {B("pow", x, n) : n \in NumB} \cup {B("pow", B("add", x, y), n) : n \in NumB}
NumE == UNION {{p, B("add", y, p), B("sub", y, p), U("neg", p), U("sin", p), B("pow", TInt(2), p), B("pow", p, y), B("mul", TInt(2), p), B("mul", x, p), B("div", TInt(1), p), B("div", y, p)} : p \in NumP}
Rel == {B(r, a, b) : r \in {"Lt", "Le", "Eq", "Ne"}, a \in {x, B("add", x, TInt(1)), TInt(2)}, b \in {y, TInt(0), B("mul", TInt(2), y)}}
Log == {TOp(k, <<a, b>>) : k \in {"and", "or", "xor"}, a, b \in Sub(Rel, 5)} \cup {U("not", a) : a \in Sub(Rel, 5)} \cup {T("True", <<>>, "", 0, 0), T("False", <<>>, "", 0, 0)}
Swap(t) == IF t.k \in Comm /\ Len(t.a) = 2 THEN <<t, TOp(t.k, <<t.a[2], t.a[1]>>)>> ELSE <<t>>
Cases == {[op |-> "pp", ts |-> Swap(t)] : t \in Atoms \cup Sub(NumE, 900) \cup D1 \cup Sub(D2, 700) \cup Rel \cup Log}
         \cup {[op |-> "pp", ts |-> <<TOp("add", <<a, b, c>>), TOp("add", <<c, a, b>>), TOp("add", <<b, c, a>>)>>] : a, b, c \in Sub(D1, 6)}
         \cup {[op |-> "pp", ts |-> <<TOp("mul", <<a, b, c>>), TOp("mul", <<c, b, a>>)>>] : a, b, c \in Sub(D1, 6)}
ASSUME PrintT(<<"cases", Cardinality(Cases)>>)
ASSUME ndJsonSerialize(IOEnv.OUT, SetToSeq(Cases))
VARIABLE dummy
Init == dummy = 0
Next == UNCHANGED dummy
=============================================================================
