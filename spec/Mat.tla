---------------------------------- MODULE Mat ----------------------------------
(* Dense matrices over the value domain (module ValCore): a matrix is a          *)
(* function [1..rows] -> [1..cols] -> value.  Determinant by Laplace expansion,  *)
(* product, transpose, exact Gauss-Jordan (RREF) over rationals, and three-      *)
(* valued matrix comparison used to state the contracts of the factorisations.   *)
EXTENDS Integers, Sequences, FiniteSets, Term

MxRows(m) == Len(m)
MxCols(m) == IF Len(m) = 0 THEN 0 ELSE Len(m[1])
MxFromFlat(flat, r, c, env) == [i \in 1..r |-> [j \in 1..c |-> Val(flat[(i - 1) * c + j], env)]]
MxId(n) == [i \in 1..n |-> [j \in 1..n |-> IF i = j THEN V1 ELSE V0]]
MxTr(m) == [j \in 1..MxCols(m) |-> [i \in 1..MxRows(m) |-> m[i][j]]]
RECURSIVE DotV(_, _, _, _, _)
DotV(a, b, i, j, k) == IF k > MxCols(a) THEN V0 ELSE VAdd(VMul(a[i][k], b[k][j]), DotV(a, b, i, j, k + 1))
MxMul(a, b) == [i \in 1..MxRows(a) |-> [j \in 1..MxCols(b) |-> DotV(a, b, i, j, 1)]]
MxAdd(a, b) == [i \in 1..MxRows(a) |-> [j \in 1..MxCols(a) |-> VAdd(a[i][j], b[i][j])]]
MxScale(c, a) == [i \in 1..MxRows(a) |-> [j \in 1..MxCols(a) |-> VMul(c, a[i][j])]]
\* minor: drop row 1 and column j
Minor1(m, j) == [i \in 1..(MxRows(m) - 1) |-> [k \in 1..(MxCols(m) - 1) |-> m[i + 1][IF k < j THEN k ELSE k + 1]]]
RECURSIVE MxDet(_), DetSum(_, _)
DetSum(m, j) == IF j > MxCols(m) THEN V0
                ELSE VAdd(VMul(IF j % 2 = 1 THEN m[1][j] ELSE VNeg(m[1][j]), MxDet(Minor1(m, j))), DetSum(m, j + 1))
MxDet(m) == IF MxRows(m) = 0 THEN V1 ELSE IF MxRows(m) = 1 THEN m[1][1] ELSE DetSum(m, 1)

\* three-valued comparison of matrices of values: "eq", "ne" or "unk"
MxCmp(a, b) ==
    IF MxRows(a) # MxRows(b) \/ MxCols(a) # MxCols(b) THEN "ne"
    ELSE LET cs == {Cmp3(a[i][j], b[i][j]) : i \in 1..MxRows(a), j \in 1..MxCols(a)}
         IN IF "ne" \in cs THEN "ne" ELSE IF "unk" \in cs THEN "unk" ELSE "eq"
AllFinite(m) == \A i \in 1..MxRows(m) : \A j \in 1..MxCols(m) : m[i][j].t = "num"
IsZeroV(v) == v.t = "num" /\ ExactZero(v)
IsOneV(v) == v.t = "num" /\ Exact(v) /\ v.re = R1 /\ v.im = R0 /\ v.pi = R0 /\ v.ip = R0
Lower(m) == \A i \in 1..MxRows(m) : \A j \in 1..MxCols(m) : j > i => IsZeroV(m[i][j])
Upper(m) == \A i \in 1..MxRows(m) : \A j \in 1..MxCols(m) : j < i => IsZeroV(m[i][j])
UnitDiag(m) == \A i \in 1..MxRows(m) : IsOneV(m[i][i])
Diagonal(m) == Lower(m) /\ Upper(m)
Symmetric(m) == MxCmp(m, MxTr(m)) = "eq"

\* ---- exact Gauss-Jordan on rational matrices (entries guarded rationals): unique RREF
RatOf(m) == [i \in 1..MxRows(m) |-> [j \in 1..MxCols(m) |-> IF ExactRat(m[i][j]) THEN m[i][j].re ELSE RU]]
RDefM(q) == \A i \in 1..Len(q) : \A j \in 1..Len(q[1]) : RDef(q[i][j])
SwapRows(q, a, b) == [i \in 1..Len(q) |-> IF i = a THEN q[b] ELSE IF i = b THEN q[a] ELSE q[i]]
RECURSIVE RrefFrom(_, _, _)
\* r: next pivot row, c: current column
RrefFrom(q, r, c) ==
    IF r > Len(q) \/ c > Len(q[1]) THEN q
    ELSE LET cand == {i \in r..Len(q) : q[i][c] # R0}
         IN IF cand = {} THEN RrefFrom(q, r, c + 1)
            ELSE LET p == CHOOSE i \in cand : \A k \in cand : i <= k
                     q1 == SwapRows(q, r, p)
                     piv == q1[r][c]
                     q2 == [q1 EXCEPT ![r] = [j \in 1..Len(q1[1]) |-> RDiv(q1[r][j], piv)]]
                     q3 == [i \in 1..Len(q2) |-> IF i = r THEN q2[r]
                                                 ELSE [j \in 1..Len(q2[1]) |-> RSub(q2[i][j], RMul(q2[i][c], q2[r][j]))]]
                 IN IF ~RDefM(q3) THEN q3 ELSE RrefFrom(q3, r + 1, c + 1)
Rref(q) == RrefFrom(q, 1, 1)
RankOf(q) == Cardinality({i \in 1..Len(q) : \E j \in 1..Len(q[1]) : q[i][j] # R0})
=============================================================================
