INIT Init
NEXT Next
