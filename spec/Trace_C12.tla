------------------------------ MODULE Trace_C12 ------------------------------
(* C12: (1) where the specification knows the exact rational value of the   *)
(* expression, every evaluator that accepts it returns that value to within *)
(* DblClose (2^-40) of the 53-bit quotient computed by long division in     *)
(* module Dbl; (2) the evaluators (visitor, single dispatch, default,       *)
(* evalf at 53 bits, the real part of the complex evaluator, the lambda     *)
(* visitor) agree with each other to within DblClose on every expression.   *)
EXTENDS Integers, Sequences, FiniteSets, TLC, Json, IOUtils, Term, Dbl
VARIABLES l, bad, dec
NoE == [q \in {} |-> VUndef]
BR == INSTANCE BigRat
Names == <<"default", "visitor", "single", "evalf53", "lambda">>
Unsupported == {"NotImplementedError", "SymEngineException", "DomainError"}
CheckEv(e) ==
    IF e.r.exc # "" THEN (IF e.r.exc = "VerifAssertionError" THEN "bad:assertion" ELSE "unk")
    ELSE LET r == e.r
             got(n) == r[n]
             okv(n) == r[n].exc = "" /\ r[n].v.k = "Dbl"
             val == Val(e.c.t, NoE)
             small == val.t = "num" /\ ExactRat(val) /\ IAbs(val.re[1]) < 32768 /\ val.re[2] < 32768
             big == IF small THEN BR!BQU ELSE BR!BQVal(e.c.t)            \* integers beyond TLC's: module BigRat
             exact == small \/ BR!BQOk(big)
             want == IF small THEN RatDbl(val.re) ELSE BR!BigRatDbl(big)
             have == {n \in 1..Len(Names) : okv(Names[n])}
             cplx == r.complex.exc = "" /\ r.complex.v.a[2].s = "zero"
             farFromExact == {n \in have : DblClose(r[Names[n]].v, want) = "far"}
             disagree == {p \in have \X have : p[1] < p[2] /\ DblClose(r[Names[p[1]]].v, r[Names[p[2]]].v) = "far"}
         IN IF \E n \in 1..Len(Names) : r[Names[n]].exc = "VerifAssertionError" THEN "bad:assertion"
            ELSE IF \E n \in 1..Len(Names) : r[Names[n]].exc \notin (Unsupported \cup {""}) THEN "bad:foreign-exception"
            ELSE IF have = {} THEN "unk"
            ELSE IF exact /\ farFromExact # {} THEN "bad:value:" \o Names[CHOOSE n \in farFromExact : TRUE]
            ELSE IF disagree # {} THEN LET p == CHOOSE p \in disagree : TRUE IN "bad:evaluators-disagree:" \o Names[p[1]] \o "/" \o Names[p[2]]
            \* (a real evaluator answers nan when an intermediate value is not real; the complex evaluator may still end on the real axis)
            ELSE IF cplx /\ \E n \in have : r[Names[n]].v.s # "nan" /\ DblClose(r.complex.v.a[1], r[Names[n]].v) = "far" THEN "bad:evaluators-disagree:complex"
            ELSE IF exact THEN "ok" ELSE IF Cardinality(have) >= 2 THEN "ok" ELSE "unk"
Events == ndJsonDeserialize(IOEnv.TRACE)
K == INSTANCE TraceKit WITH Check <- CheckEv, Events <- Events
Init == K!Init
Next == K!Next
Verdict == K!Verdict
=============================================================================
