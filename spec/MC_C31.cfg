INIT Init
NEXT Next
