-------------------------------- MODULE Syntax --------------------------------
(* Conventional mathematical syntax as a printer from abstract syntax trees   *)
(* (recipes) to strings: precedence levels sum < product < unary sign <       *)
(* power < atom; + - * / associate to the left, ** (or ^) to the right; a      *)
(* unary sign may stand at the beginning of an operand or of an exponent;      *)
(* the string printed for a tree denotes that tree.  Style parameters vary     *)
(* what the conventional rules leave free: spaces, redundant parentheses,      *)
(* the power sign, leading zeros, implicit multiplication of a number and an   *)
(* identifier.                                                                 *)
EXTENDS Integers, Sequences, TLC, Term

Style(sp, hat, par, lz, imp) == [sp |-> sp, hat |-> hat, par |-> par, lz |-> lz, imp |-> imp]
\* text of the floating-point literals used (sign * mantissa * 2^exponent -> literal)
FloatText(t) == LET key == <<t.a[2].n, t.a[3].n>>
                IN CASE key = <<3, -1>> -> "1.5" [] key = <<1, -2>> -> "0.25" [] key = <<25, 0>> -> "2.5e1"
                     [] key = <<125, 4>> -> "2e3" [] key = <<1, -1>> -> "0.5" [] key = <<3, 0>> -> "3.0" [] OTHER -> "?"
Level(t) == CASE t.k \in {"add", "sub"} -> 1 [] t.k \in {"mul", "div"} -> 2 [] t.k = "neg" -> 3 [] t.k = "pow" -> 4 [] OTHER -> 5
RECURSIVE Show(_, _, _, _), Args(_, _, _)
Paren(s) == "(" \o s \o ")"
\* ctx: the lowest level that may stand here without parentheses; first: may a unary sign start this operand?
Show(t, ctx, first, st) ==
    LET k == t.k
        bin(op, l, r) == Show(t.a[1], l, first, st) \o st.sp \o op \o st.sp \o Show(t.a[2], r, FALSE, st)
        body == CASE k = "Int" -> (IF st.lz THEN "0" ELSE "") \o ToString(t.n)
                  [] k = "Dbl" -> FloatText(t)
                  [] k = "Sym" -> t.s
                  [] k = "Const" -> t.s
                  [] k = "add" -> bin("+", 1, 2)
                  [] k = "sub" -> bin("-", 1, 2)
                  [] k = "mul" -> (IF st.imp /\ t.a[1].k = "Int" /\ t.a[2].k = "Sym" THEN ToString(t.a[1].n) \o t.a[2].s ELSE bin("*", 2, 3))
                  [] k = "div" -> bin("/", 2, 3)
                  [] k = "neg" -> "-" \o Show(t.a[1], 4, FALSE, st)
                  [] k = "pow" -> Show(t.a[1], 5, FALSE, st) \o st.sp \o (IF st.hat THEN "^" ELSE "**") \o st.sp \o Show(t.a[2], 3, TRUE, st)
                  [] OTHER -> k \o "(" \o Args(t.a, 1, st) \o ")"
        need == Level(t) < ctx \/ (k = "neg" /\ ~first) \/ (st.par /\ Level(t) < 5 /\ ctx > 0)
    IN IF need THEN Paren(body) ELSE body
Args(a, i, st) == IF i > Len(a) THEN "" ELSE Show(a[i], 0, TRUE, st) \o (IF i < Len(a) THEN "," \o st.sp ELSE "") \o Args(a, i + 1, st)
Text(t, st) == Show(t, 0, TRUE, st)
=============================================================================
