SPECIFICATION Spec
CONSTANTS
  Rows = 1
  Cols = 8
  Vals = {0, 1, 2}
  Variant = "code"
  EmitOn = TRUE
INVARIANTS StaysCanonical GetReadsDense SetRefinesDense Emit
CHECK_DEADLOCK FALSE
