------------------------------- MODULE MC_C42 -------------------------------
(* Cases for C42: (1) recipes evaluated through the C API and through the   *)
(* C++ API; (2) operation histories on the C containers; (3) Expression     *)
(* operators against the core functions.                                    *)
EXTENDS Integers, Sequences, FiniteSets, TLC, Json, IOUtils, SequencesExt, Randomization, Term
Thorough == "TIER" \in DOMAIN IOEnv /\ IOEnv.TIER = "thorough"
\* (the thorough tier samples three times as many of each operand set)
Sub(S, n) == LET m == IF Thorough THEN 3 * n ELSE n IN IF Cardinality(S) <= m THEN S ELSE RandomSubset(m, S)
x == TSym("x")
y == TSym("y")
B(k, a, b) == TOp(k, <<a, b>>)
U(k, a) == TOp(k, <<a>>)
Atoms == {x, y, TInt(0), TInt(1), TInt(-2), TRat(1, 2), TRat(1, 0), TI, TComplex(TRat(1, 2), TInt(-1)), TConst("pi"), TConst("E"), TInf(1), TInf(-1), TInf(0), TNaN}
F1 == {"expand", "neg", "abs", "erf", "erfc", "sin", "cos", "tan", "asin", "acos", "atan", "csc", "sec", "cot", "acsc", "asec", "acot", "sinh", "cosh", "tanh", "asinh", "acosh", "atanh",
       "csch", "sech", "coth", "acsch", "asech", "acoth", "lambertw", "zeta", "dirichlet_eta", "gamma", "loggamma", "sqrt", "cbrt", "exp", "log", "floor", "ceiling", "sign"}
F2 == {"add", "sub", "mul", "div", "pow", "atan2", "lowergamma", "uppergamma", "beta", "polygamma"}
D1 == {U(f, a) : f \in F1, a \in Atoms} \cup {B(f, a, b) : f \in F2, a, b \in Atoms}
\* basic_diff differentiates with respect to a symbol handle
Diffs == {B("diff", e, v) : e \in {B("pow", x, TInt(3)), U("sin", B("mul", x, y)), B("atan2", x, y), U("abs", x), TInt(2), y}, v \in {x, y}}
D2 == {B(f, a, b) : f \in {"add", "mul", "pow", "div"}, a \in Sub(D1, 30), b \in Sub(D1 \cup Atoms, 20)} \cup {U(f, a) : f \in Sub(F1, 10), a \in Sub(D1, 30)}
Api == {[op |-> "capi", t |-> t] : t \in Atoms \cup D1 \cup D2 \cup Diffs}
\* container histories over four values of three equality classes (values 1 and 4 are equal objects built differently)
Vals == <<B("add", x, TInt(1)), x, TInt(2), B("add", TInt(1), x)>>
OpsV == {<<"VecPush", i, 0>> : i \in 1..4} \cup {<<"VecGet", n, 0>> : n \in 0..3} \cup {<<"VecSet", n, i>> : n \in 0..2, i \in 1..4} \cup {<<"VecErase", n, 0>> : n \in 0..3}
OpsS == {<<"SetInsert", i, 0>> : i \in 1..4} \cup {<<"SetFind", i, 0>> : i \in 1..4} \cup {<<"SetErase", i, 0>> : i \in 1..4}
OpsM == {<<"MapInsert", i, j>> : i, j \in 1..4} \cup {<<"MapGet", i, 0>> : i \in 1..4}
AllOps == OpsV \cup OpsS \cup OpsM
Hist == {<<a, b>> : a, b \in OpsV} \cup {<<a, b, c>> : a, b, c \in Sub(OpsV, 12)} \cup {<<a, b, c>> : a, b, c \in OpsS} \cup {<<a, b, c>> : a, b, c \in Sub(OpsM, 10)}
Cont == {[op |-> "ccont", ops |-> h, vals |-> Vals] : h \in Hist}
Ex == {[op |-> "exprops", a |-> a, b |-> b] : a, b \in Sub(Atoms \cup Sub(D1, 12), 22)}
ASSUME PrintT(<<"cases", Cardinality(Api), Cardinality(Cont), Cardinality(Ex)>>)
ASSUME ndJsonSerialize(IOEnv.OUT, SetToSeq(Api \cup Cont \cup Ex))
VARIABLE dummy
Init == dummy = 0
Next == UNCHANGED dummy
=============================================================================
