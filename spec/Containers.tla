------------------------------ MODULE Containers ------------------------------
(* The C container types as abstract data types: a vector, a set and a map    *)
(* of values (values are identified by their equality class).  Each action    *)
(* gives the next state and the observable result [rc, v, size]:              *)
(*   rc    0 / error for the vector operations (out-of-range index: error),   *)
(*         1 / 0 for "inserted", "found", "erased", "key present"             *)
(*   v     the value returned (0 = none)                                      *)
(*   size  the size of the container concerned after the operation            *)
EXTENDS Integers, Sequences, FiniteSets

Empty == [vec |-> <<>>, set |-> {}, map |-> [k \in {} |-> 0]]
Drop(s, n) == [i \in 1..(Len(s) - 1) |-> IF i < n THEN s[i] ELSE s[i + 1]]
\* op = <<name, i, j>>: indices are 0-based positions (vector) or value classes
Step(st, op) ==
    LET name == op[1] i == op[2] j == op[3]
        inr == i >= 0 /\ i < Len(st.vec)
    IN CASE name = "VecPush" -> [st |-> [st EXCEPT !.vec = Append(@, i)], rc |-> 0, v |-> 0, size |-> Len(st.vec) + 1]
         [] name = "VecGet" -> [st |-> st, rc |-> IF inr THEN 0 ELSE 1, v |-> IF inr THEN st.vec[i + 1] ELSE 0, size |-> Len(st.vec)]
         [] name = "VecSet" -> [st |-> IF inr THEN [st EXCEPT !.vec[i + 1] = j] ELSE st, rc |-> IF inr THEN 0 ELSE 1, v |-> 0, size |-> Len(st.vec)]
         [] name = "VecErase" -> [st |-> IF inr THEN [st EXCEPT !.vec = Drop(@, i + 1)] ELSE st, rc |-> IF inr THEN 0 ELSE 1, v |-> 0,
                                  size |-> IF inr THEN Len(st.vec) - 1 ELSE Len(st.vec)]
         [] name = "SetInsert" -> [st |-> [st EXCEPT !.set = @ \cup {i}], rc |-> IF i \in st.set THEN 0 ELSE 1, v |-> 0, size |-> Cardinality(st.set \cup {i})]
         [] name = "SetFind" -> [st |-> st, rc |-> IF i \in st.set THEN 1 ELSE 0, v |-> 0, size |-> Cardinality(st.set)]
         [] name = "SetErase" -> [st |-> [st EXCEPT !.set = @ \ {i}], rc |-> IF i \in st.set THEN 1 ELSE 0, v |-> 0, size |-> Cardinality(st.set \ {i})]
         [] name = "MapInsert" -> [st |-> [st EXCEPT !.map = [k \in (DOMAIN @) \cup {i} |-> IF k = i THEN j ELSE @[k]]], rc |-> 0, v |-> 0,
                                   size |-> Cardinality((DOMAIN st.map) \cup {i})]
         [] name = "MapGet" -> [st |-> st, rc |-> IF i \in DOMAIN st.map THEN 1 ELSE 0, v |-> IF i \in DOMAIN st.map THEN st.map[i] ELSE 0,
                                size |-> Cardinality(DOMAIN st.map)]
=============================================================================
