SPECIFICATION Spec
CONSTANTS
  Threads = {1, 2}
  Rounds = 2
  Atomic = FALSE
  H = 7
INVARIANTS NeverFreedWhileShared
CHECK_DEADLOCK FALSE
