------------------------------- MODULE MC_C39 -------------------------------
(* Cases for C39: structural queries on expressions with functions,         *)
(* derivatives, substitutions and sets; coefficients of polynomials.        *)
EXTENDS Integers, Sequences, FiniteSets, TLC, Json, IOUtils, SequencesExt, Randomization, Term
Thorough == "TIER" \in DOMAIN IOEnv /\ IOEnv.TIER = "thorough"
x == TSym("x")
y == TSym("y")
z == TSym("z")
t == TSym("t")
B(k, a, b) == TOp(k, <<a, b>>)
U(k, a) == TOp(k, <<a>>)
Diff(e, s) == T("diff", <<e, s>>, "", 1, 0)
Sub(S, n) == IF Thorough \/ Cardinality(S) <= n THEN S ELSE RandomSubset(n, S)
ProbeSyms == <<"x", "y", "z", "t", "w">>
Atoms == {x, y, TInt(2), TRat(1, 2), TConst("pi"), TI}
E1 == Atoms \cup {B(k, a, b) : k \in {"add", "mul", "pow", "sub", "div"}, a, b \in {x, y, TInt(2), B("add", x, TInt(1))}}
      \cup {U(f, a) : f \in {"sin", "exp", "abs", "gamma"}, a \in {x, B("mul", x, y), TInt(2)}}
      \cup {B("sub", x, x), B("mul", TInt(0), y), B("pow", y, TInt(0)), B("add", B("mul", x, y), U("neg", B("mul", y, x)))}      \* symbols that cancel
Fns == {TFn("f", <<x>>), TFn("g", <<x, y>>), TFn("f", <<B("pow", x, TInt(2))>>), TFn("f", <<TFn("g", <<x, y>>)>>), TFn("h", <<TInt(1)>>),
        B("add", TFn("f", <<x>>), TFn("f", <<y>>)), B("mul", TFn("f", <<x>>), TFn("g", <<y, z>>)), U("sin", TFn("f", <<t>>))}
Binders == {Diff(f, s) : f \in Fns, s \in {x, y}} \cup {Diff(Diff(TFn("g", <<x, y>>), x), y), Diff(TFn("f", <<B("mul", x, y)>>), x),
            Diff(TFn("g", <<B("pow", x, TInt(2)), B("add", x, y)>>), x), Diff(U("abs", B("mul", x, y)), x), Diff(B("mul", z, TFn("f", <<B("add", x, t)>>)), x),
            T("subs", <<Diff(TFn("f", <<B("pow", x, TInt(2))>>), x), x, B("add", y, z)>>, "", 1, 0),
            T("subs", <<Diff(TFn("f", <<B("pow", x, TInt(2))>>), x), y, z>>, "", 1, 0)}
\* a Subs object whose bound variable also occurs free elsewhere in the expression, before and after it
S1 == T("subs", <<Diff(TFn("f", <<x>>), x), x, B("pow", y, TInt(2))>>, "", 1, 0)
S2 == T("subs", <<Diff(TFn("f", <<x>>), x), x, B("add", t, y)>>, "", 1, 0)
BoundFree == {TFn("h", <<S1, x>>), TFn("h", <<x, S1>>), B("pow", S1, x), B("pow", x, S1), TFn("h", <<S1, t, x>>), B("add", S1, x), B("mul", S1, x), TFn("h", <<S2, TFn("f", <<x>>)>>),
              TFn("h", <<S1, S2, x>>), B("add", B("mul", S1, y), B("pow", x, TInt(2))), S1, S2, U("sin", B("mul", S1, x))}
Sets == {TOp("imageset", <<x, B("pow", x, TInt(2)), TOp("Integers", <<>>)>>), TOp("imageset", <<x, B("mul", x, y), TOp("Integers", <<>>)>>),
         TOp("conditionset", <<x, B("Lt", x, y)>>), TOp("conditionset", <<x, TOp("and", <<B("Lt", x, y), B("Lt", z, x)>>)>>),
         TOp("finiteset", <<x, y, TInt(1)>>), T("interval", <<TInt(0), TInt(1)>>, "", 0, 0), TOp("union", <<TOp("finiteset", <<x>>), T("interval", <<TInt(0), TInt(1)>>, "", 0, 0)>>),
         B("contains", x, T("interval", <<TInt(0), TInt(1)>>, "", 0, 0)), B("Lt", x, y), TOp("and", <<B("Lt", x, y), B("Le", z, TInt(1))>>),
         TOp("piecewise", <<x, B("Lt", y, TInt(0)), z, T("True", <<>>, "", 0, 0)>>)}
Struct == {[op |-> "struct", e |-> e, probe |-> ProbeSyms, x |-> x, deg |-> -1] : e \in E1 \cup Fns \cup Binders \cup BoundFree \cup Sets}
\* polynomials in x (expanded) with coefficients in y, z and numbers
PolyBase == {B("add", x, TInt(1)), B("add", x, y), B("sub", B("mul", TInt(2), x), y), B("add", B("pow", x, TInt(2)), B("mul", y, x)), B("add", B("mul", x, y), z),
             B("sub", TRat(1, 2), x), B("add", B("mul", y, B("pow", x, TInt(2))), TInt(3)), x, B("mul", TInt(3), y), B("add", y, z)}
Polys == {U("expand", B("mul", a, b)) : a, b \in PolyBase} \cup {U("expand", B("pow", a, TInt(n))) : a \in PolyBase, n \in {2, 3}}
         \cup {U("expand", TOp("mul", <<a, b, c>>)) : a, b, c \in Sub(PolyBase, 4)} \cup PolyBase
         \cup {B("add", B("mul", U("sin", y), B("pow", x, TInt(2))), B("mul", U("exp", z), x)), B("add", B("pow", x, TInt(3)), U("sin", x))}
Coeffs == {[op |-> "struct", e |-> e, probe |-> ProbeSyms, x |-> v, deg |-> 6] : e \in Polys, v \in {x, y}}
          \cup {[op |-> "struct", e |-> U("expand", B("mul", B("add", TFn("f", <<t>>), TInt(1)), B("add", B("pow", TFn("f", <<t>>), TInt(2)), x))), probe |-> ProbeSyms, x |-> TFn("f", <<t>>), deg |-> 4]}
ASSUME PrintT(<<"cases", Cardinality(Struct), Cardinality(Coeffs)>>)
ASSUME ndJsonSerialize(IOEnv.OUT, SetToSeq(Struct \cup Coeffs))
VARIABLE dummy
Init == dummy = 0
Next == UNCHANGED dummy
=============================================================================
