------------------------------- MODULE MC_C19 -------------------------------
(* Cases for C19: expressions of every serialisable kind, alone and with    *)
(* shared subexpressions.                                                   *)
EXTENDS Integers, Sequences, FiniteSets, TLC, Json, IOUtils, SequencesExt, Randomization, ExprPool
Thorough == "TIER" \in DOMAIN IOEnv /\ IOEnv.TIER = "thorough"
\* (the thorough tier samples three times as many of each operand set)
Sub(S, n) == LET m == IF Thorough THEN 3 * n ELSE n IN IF Cardinality(S) <= m THEN S ELSE RandomSubset(m, S)
Cases == {[op |-> "serial", ts |-> <<a>>] : a \in Pool} \cup {[op |-> "serial", ts |-> <<a, b, c>>] : a, b, c \in Sub(Pool, 9)}
         \cup {[op |-> "serial", ts |-> <<CDs[i], CDs[j], CDs[k], B("add", CDs[j], x)>>] : i, j, k \in 1..Len(CDs)}
         \cup {[op |-> "serial", ts |-> <<a, b>>] : a, b \in Inexact}
         \cup {[op |-> "serial", ts |-> <<TOp(k, <<a, b>>)>>] : k \in {"add", "mul", "pow"}, a \in Sub(Pool \ (Rel \cup Logic \cup Sets), 25), b \in Sub(Nums \cup Funs, 12)}
ASSUME PrintT(<<"cases", Cardinality(Cases)>>)
ASSUME ndJsonSerialize(IOEnv.OUT, SetToSeq(Cases))
VARIABLE dummy
Init == dummy = 0
Next == UNCHANGED dummy
=============================================================================
