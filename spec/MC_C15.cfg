INIT Init
NEXT Next
