------------------------------ MODULE Trace_C06 ------------------------------
(* C06: mixed-kind number arithmetic is commutative and obeys the oo/nan    *)
(* rules; a finite float combined with a finite number never gives an       *)
(* exact number.                                                            *)
EXTENDS Integers, Sequences, FiniteSets, TLC, Json, IOUtils, Num
VARIABLES l, bad, dec

IsFinite(t) == IsExactKind(t) \/ IsFiniteFloat(t)
IsZeroLit(t) == \/ t.k = "Int" /\ t.n = 0
                \/ t.k = "Dbl" /\ t.s = "zero"

\* one result (exception name, dump) of a op b against the statement
One(f, a, b, exc, t) ==
    LET A == NVal(a)
        B == NVal(b)
        E == NumOp(f, A, B)
        floaty == IsFinite(a) /\ IsFinite(b) /\ (IsFiniteFloat(a) \/ IsFiniteFloat(b))
                  /\ ~(f = "div" /\ IsZeroLit(b))
        \* the statement fixes x/0 only for an exact dividend and an exact zero
        openDiv == f = "div" /\ IsNum(B) /\ ExactZero(B) /\ (B.fl = 1 \/ (IsNum(A) /\ A.fl = 1))
    IN IF openDiv THEN "unk"
       ELSE IF exc # ""
       THEN (IF exc = "VerifAssertionError" THEN "bad:assertion"
             ELSE IF a.k = "NaN" \/ b.k = "NaN" THEN "bad:nan-must-absorb:" \o exc
             ELSE IF E.t = "undef" \/ exc = "NotImplementedError" THEN "unk"
             ELSE "bad:exception:" \o exc)
       ELSE IF t.k \notin NumKinds THEN "bad:not-a-number"
       ELSE IF a.k = "NaN" \/ b.k = "NaN" THEN (IF t.k = "NaN" THEN "ok" ELSE "bad:nan-must-absorb")
       ELSE IF floaty /\ ~IsFloatKind(t) THEN "bad:float-became-exact"
       ELSE AgreeExact(t, E)

Worst(rs) == IF \E i \in 1..Len(rs) : rs[i] \notin {"ok", "unk"}
             THEN rs[CHOOSE i \in 1..Len(rs) : rs[i] \notin {"ok", "unk"}]
             ELSE IF \E i \in 1..Len(rs) : rs[i] = "ok" THEN "ok" ELSE "unk"

CheckEv(e) ==
    LET f == e.c.f a == e.c.a b == e.c.b r == e.r
        comm == IF f \in {"add", "mul"}
                THEN (IF r.ve = r.xe /\ r.v = r.x /\ r.we = r.ye /\ r.w = r.y
                      THEN "ok" ELSE "bad:not-commutative")
                ELSE "unk"
    IN IF r.exc # "" THEN "bad:harness:" \o r.exc
       ELSE Worst(<<comm, One(f, a, b, r.ve, r.v), One(f, a, b, r.we, r.w),
                    One(f, b, a, r.xe, r.x), One(f, b, a, r.ye, r.y)>>)

Events == ndJsonDeserialize(IOEnv.TRACE)
K == INSTANCE TraceKit WITH Check <- CheckEv, Events <- Events
Init == K!Init
Next == K!Next
Verdict == K!Verdict
=============================================================================
