------------------------------- MODULE MC_C41 -------------------------------
(* Cases for C41: programs of read-only and constructing operations on a    *)
(* set of shared expressions; every thread of the harness runs the whole    *)
(* program repeatedly on the same objects.                                  *)
EXTENDS Integers, Sequences, FiniteSets, TLC, Json, IOUtils, SequencesExt, Randomization, Term
Thorough == "TIER" \in DOMAIN IOEnv /\ IOEnv.TIER = "thorough"
x == TSym("x")
y == TSym("y")
B(k, a, b) == TOp(k, <<a, b>>)
U(k, a) == TOp(k, <<a>>)
Shared == << B("add", x, y), B("mul", TInt(2), B("pow", x, TInt(3))), U("sin", B("add", x, TInt(1))), B("pow", B("add", x, y), TInt(4)),
             TOp("add", <<B("mul", x, y), U("cos", x), TRat(1, 2)>>), U("exp", B("mul", x, y)), x, TRat(22, 7),
             B("mul", B("add", x, TInt(1)), B("add", y, TInt(2))), U("sqrt", B("add", B("pow", x, TInt(2)), TInt(1))) >>
OpNames == {"hash", "str", "eq", "add", "mul", "pow", "sub", "diff", "subs", "expand", "free", "evald", "args"}
Ops == {<<o, i, j>> : o \in OpNames, i \in 0..(Len(Shared) - 1), j \in 0..(Len(Shared) - 1)}
NProg == IF Thorough THEN 120 ELSE 24
Prog(k) == SetToSeq(RandomSubset(8, Ops))
Cases == {[op |-> "threads", shared |-> Shared, prog |-> Prog(k), threads |-> IF k % 2 = 0 THEN 4 ELSE 8, reps |-> IF Thorough THEN 20000 ELSE 1500, k |-> k] : k \in 1..NProg}
ASSUME PrintT(<<"cases", Cardinality(Cases)>>)
ASSUME ndJsonSerialize(IOEnv.OUT, SetToSeq(Cases))
VARIABLE dummy
Init == dummy = 0
Next == UNCHANGED dummy
=============================================================================
