------------------------------- MODULE MC_C37 -------------------------------
(* Cases for C37: lists of expressions with shared subtrees, shared         *)
(* sub-sums and sub-products, powers and functions.                         *)
EXTENDS Integers, Sequences, FiniteSets, TLC, Json, IOUtils, SequencesExt, Randomization, Term
Thorough == "TIER" \in DOMAIN IOEnv /\ IOEnv.TIER = "thorough"
x == TSym("x")
y == TSym("y")
z == TSym("z")
w == TSym("w")
B(k, a, b) == TOp(k, <<a, b>>)
U(k, a) == TOp(k, <<a>>)
N(k, a) == TOp(k, a)
\* (the thorough tier samples twice as many of each operand set)
Fix(S, n) == IF Cardinality(S) <= n THEN S ELSE RandomSubset(n, S)      \* (not scaled: the function sets below are taken over it)
Sub(S, n) == LET m == IF Thorough THEN 2 * n ELSE n IN IF Cardinality(S) <= m THEN S ELSE RandomSubset(m, S)
Shared == {B("add", x, y), B("mul", x, y), N("add", <<x, y, z>>), N("mul", <<x, y, z>>), B("pow", x, y), B("pow", B("add", x, y), TInt(2)),
           U("sin", x), U("exp", B("mul", x, y)), B("add", B("mul", TInt(2), x), y), B("mul", TInt(3), B("pow", x, TInt(2))), U("sqrt", B("add", x, TInt(1))),
           B("div", x, y), U("neg", B("add", x, y)), B("add", B("pow", x, TInt(2)), B("pow", y, TInt(2)))}
Wrap(s) == {s, U("sin", s), U("exp", s), B("add", s, z), B("mul", s, z), B("pow", s, TInt(2)), B("pow", s, TRat(1, 2)), B("add", s, TInt(1)), B("mul", TInt(2), s),
            B("mul", s, w), B("add", s, B("mul", z, w)), U("log", B("add", s, w)), B("div", TInt(1), s), B("add", B("pow", s, TInt(2)), s), B("mul", s, U("cos", s))}
\* two or three expressions built around the same shared part, or around two shared parts
Pairs == UNION {{<<a, b>> : a, b \in Sub(Wrap(s), 7)} : s \in Shared}
Triples == UNION {{<<a, b, c>> : a, b \in Sub(Wrap(s), 4), c \in Sub(Wrap(t), 3)} : s \in Sub(Shared, 6), t \in Sub(Shared, 4)}
Singles == UNION {{<<a>> : a \in {B("add", U("sin", s), B("pow", s, TInt(2))), B("mul", B("add", s, TInt(1)), U("exp", s)), B("add", B("mul", s, z), B("mul", s, w))}} : s \in Shared}
\* a user symbol that looks like a replacement symbol
Clash == {<<B("add", B("mul", TSym("x0"), y), U("sin", B("mul", TSym("x0"), y)))>>, <<B("add", TSym("x0"), TSym("x1")), B("pow", B("add", TSym("x0"), TSym("x1")), TInt(2))>>,
          <<B("mul", x, TSym("x0")), U("exp", B("mul", x, TSym("x0"))), TSym("x1")>>}
\* four or five sums / products over overlapping subsets of eight symbols (several shared pairs at once), bare and under a function
Sy == {TSym(n) : n \in {"x", "y", "p", "q", "r", "c", "d", "e"}}
Subsets == {S \in SUBSET Sy : Cardinality(S) \in 2..5}
NA(k, S) == TOp(k, SetToSeq(S))
Multi == {[i \in 1..4 |-> NA(k, ss[i])] : k \in {"add", "mul"}, ss \in Sub([1..4 -> Fix(Subsets, 40)], 150)}
         \cup {[i \in 1..5 |-> NA(k, ss[i])] : k \in {"add", "mul"}, ss \in Sub([1..5 -> Fix(Subsets, 30)], 80)}
         \cup {[i \in 1..4 |-> U(f, NA("add", ss[i]))] : f \in {"exp", "sin"}, ss \in Sub([1..4 -> Fix(Subsets, 30)], 40)}
         \cup {<<NA("add", {x, y}), NA("add", {x, TSym("p"), TSym("c")}), NA("add", {x, TSym("p"), TSym("d"), TSym("e")}), NA("add", {x, y, TSym("p"), TSym("q"), TSym("r")})>>}
Cases == {[op |-> "cse", ts |-> t] : t \in Pairs \cup Triples \cup Singles \cup Clash \cup Multi}
ASSUME PrintT(<<"cases", Cardinality(Cases)>>)
ASSUME ndJsonSerialize(IOEnv.OUT, SetToSeq(Cases))
VARIABLE dummy
Init == dummy = 0
Next == UNCHANGED dummy
=============================================================================
