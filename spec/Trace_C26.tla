------------------------------ MODULE Trace_C26 ------------------------------
(* C26: the matrix expression built by the library has the value of the     *)
(* dense computation of its recipe; the structural predicates and size      *)
(* queries are never contradicted by the concrete matrix; trace agrees.     *)
(* MVal evaluates recipes (lower-case kinds) and dumps (class kinds) to a   *)
(* concrete matrix [r, c, m] of values, or NoMat.                           *)
EXTENDS Integers, Sequences, FiniteSets, TLC, Json, IOUtils, Term, Envs
VARIABLES l, bad, dec

Env == [s \in {"x"} |-> VRat(<<3, 2>>)]
NoMat == [r |-> -1, c |-> -1, m |-> <<>>]
IsMat(a) == a.r >= 0
Mk(r, c, f(_, _)) == [r |-> r, c |-> c, m |-> [i \in 1..r |-> [j \in 1..c |-> f(i, j)]]]
MatKinds == {"dense", "diag", "ident", "zero", "msym", "madd", "mmul", "hadamard", "transpose", "conj",
             "ImmutableDenseMatrix", "DiagonalMatrix", "IdentityMatrix", "ZeroMatrix", "MatrixSymbol", "MatrixAdd", "MatrixMul", "HadamardProduct", "Transpose", "ConjugateMatrix"}
NatOf(t) == LET v == Val(t, Env) IN IF v.t = "num" /\ ExactInt(v) /\ v.re[1] >= 0 /\ v.re[1] <= 6 THEN v.re[1] ELSE -1
RECURSIVE MVal(_), FoldM(_, _, _, _)
MAddM(a, b) == IF ~IsMat(a) \/ ~IsMat(b) \/ a.r # b.r \/ a.c # b.c THEN NoMat ELSE Mk(a.r, a.c, LAMBDA i, j : VAdd(a.m[i][j], b.m[i][j]))
MHadM(a, b) == IF ~IsMat(a) \/ ~IsMat(b) \/ a.r # b.r \/ a.c # b.c THEN NoMat ELSE Mk(a.r, a.c, LAMBDA i, j : VMul(a.m[i][j], b.m[i][j]))
MMulM(a, b) == IF ~IsMat(a) \/ ~IsMat(b) \/ a.c # b.r THEN NoMat
               ELSE Mk(a.r, b.c, LAMBDA i, j : LET S[k \in 0..a.c] == IF k = 0 THEN V0 ELSE VAdd(S[k - 1], VMul(a.m[i][k], b.m[k][j])) IN S[a.c])
MScale(s, a) == IF ~IsMat(a) THEN NoMat ELSE Mk(a.r, a.c, LAMBDA i, j : VMul(s, a.m[i][j]))
\* fold the matrix operands of a sequence with op (1: add, 2: hadamard, 3: product)
FoldM(a, i, acc, op) == IF i > Len(a) THEN acc
                        ELSE LET b == MVal(a[i]) IN FoldM(a, i + 1, IF op = 1 THEN MAddM(acc, b) ELSE IF op = 2 THEN MHadM(acc, b) ELSE MMulM(acc, b), op)
MVal(t) ==
    LET k == t.k
    IN CASE k \in {"dense", "ImmutableDenseMatrix"} -> Mk(t.n, t.d, LAMBDA i, j : Val(t.a[(i - 1) * t.d + j], Env))
         [] k \in {"diag", "DiagonalMatrix"} -> Mk(Len(t.a), Len(t.a), LAMBDA i, j : IF i = j THEN Val(t.a[i], Env) ELSE V0)
         [] k \in {"ident", "IdentityMatrix"} -> (LET n == NatOf(t.a[1]) IN IF n < 0 THEN NoMat ELSE Mk(n, n, LAMBDA i, j : IF i = j THEN V1 ELSE V0))
         [] k \in {"zero", "ZeroMatrix"} -> (LET r == NatOf(t.a[1]) c == NatOf(t.a[2]) IN IF r < 0 \/ c < 0 THEN NoMat ELSE Mk(r, c, LAMBDA i, j : V0))
         [] k \in {"madd", "MatrixAdd"} -> (IF Len(t.a) = 0 THEN NoMat ELSE FoldM(t.a, 2, MVal(t.a[1]), 1))
         [] k \in {"hadamard", "HadamardProduct"} -> (IF Len(t.a) = 0 THEN NoMat ELSE FoldM(t.a, 2, MVal(t.a[1]), 2))
         \* scalar factors (any position) times the ordered product of the matrix factors
         [] k \in {"mmul", "MatrixMul"} ->
              (LET ms == SelectSeq(t.a, LAMBDA u : u.k \in MatKinds)
                   ss == SelectSeq(t.a, LAMBDA u : u.k \notin MatKinds)
                   sc == LET P[i \in 0..Len(ss)] == IF i = 0 THEN V1 ELSE VMul(P[i - 1], Val(ss[i], Env)) IN P[Len(ss)]
               IN IF Len(ms) = 0 THEN NoMat ELSE MScale(sc, FoldM(ms, 2, MVal(ms[1]), 3)))
         [] k \in {"transpose", "Transpose"} -> (LET a == MVal(t.a[1]) IN IF ~IsMat(a) THEN NoMat ELSE Mk(a.c, a.r, LAMBDA i, j : a.m[j][i]))
         [] k \in {"conj", "ConjugateMatrix"} -> (LET a == MVal(t.a[1]) IN IF ~IsMat(a) THEN NoMat ELSE Mk(a.r, a.c, LAMBDA i, j : Fun1("conjugate", a.m[i][j])))
         [] OTHER -> NoMat
\* "eq" / "ne" / "unk" on concrete matrices
MCmp3(a, b) == IF a.r # b.r \/ a.c # b.c THEN "ne"
               ELSE LET cs == {Cmp3(a.m[i][j], b.m[i][j]) : i \in 1..a.r, j \in 1..a.c}
                    IN IF "ne" \in cs THEN "ne" ELSE IF "unk" \in cs THEN "unk" ELSE "eq"
\* three-valued truths of the predicates on a concrete matrix
All3(S) == IF "F" \in S THEN "F" ELSE IF "U" \in S THEN "U" ELSE "T"
Zero3(v) == IF v.t # "num" THEN "U" ELSE IF Exact(v) THEN (IF ExactZero(v) THEN "T" ELSE "F") ELSE IF v.fl = 0 /\ MDef(v.m) /\ v.m # <<0, 0>> THEN "F" ELSE "U"
Eq3(u, v) == LET c == Cmp3(u, v) IN IF c = "ne" THEN "F" ELSE IF c = "eq" /\ u.t = "num" /\ v.t = "num" /\ Exact(u) /\ Exact(v) THEN "T" ELSE "U"
Real3(v) == IF v.t # "num" THEN "U" ELSE IF Exact(v) THEN (IF v.im = R0 /\ v.ip = R0 THEN "T" ELSE "F") ELSE "U"
Truth(p, a) ==
    CASE p = "square" -> (IF a.r = a.c THEN "T" ELSE "F")
      [] p = "zero" -> All3({Zero3(a.m[i][j]) : i \in 1..a.r, j \in 1..a.c})
      [] p = "diagonal" -> (IF a.r # a.c THEN "U" ELSE All3({IF i = j THEN "T" ELSE Zero3(a.m[i][j]) : i \in 1..a.r, j \in 1..a.c}))
      [] p = "lower" -> (IF a.r # a.c THEN "U" ELSE All3({IF j > i THEN Zero3(a.m[i][j]) ELSE "T" : i \in 1..a.r, j \in 1..a.c}))
      [] p = "upper" -> (IF a.r # a.c THEN "U" ELSE All3({IF j < i THEN Zero3(a.m[i][j]) ELSE "T" : i \in 1..a.r, j \in 1..a.c}))
      [] p = "symmetric" -> (IF a.r # a.c THEN "F" ELSE All3({Eq3(a.m[i][j], a.m[j][i]) : i \in 1..a.r, j \in 1..a.c}))
      [] p = "real" -> All3({Real3(a.m[i][j]) : i \in 1..a.r, j \in 1..a.c})
      [] p = "toeplitz" -> All3({IF i > 1 /\ j > 1 THEN Eq3(a.m[i][j], a.m[i - 1][j - 1]) ELSE "T" : i \in 1..a.r, j \in 1..a.c})
      [] OTHER -> "U"
Preds == {"zero", "diagonal", "symmetric", "lower", "upper", "real", "square", "toeplitz"}
CheckEv(e) ==
    IF e.r.exc # "" THEN "bad:harness:" \o e.r.exc
    ELSE LET want == MVal(e.c.m)
             r == e.r
         IN IF r.bexc = "VerifAssertionError" THEN "bad:assertion"
            ELSE IF r.bexc # "" THEN (IF IsMat(want) THEN "bad:exception:" \o r.bexc ELSE "ok")       \* a shape error may be refused
            ELSE IF ~IsMat(want) THEN (IF \E p \in Preds : r.q[p] = "X:VerifAssertionError" THEN "bad:assertion" ELSE "unk")
            ELSE LET got == MVal(r.e)
                     wrong == {p \in Preds : r.q[p] \in {"T", "F"} /\ Truth(p, want) \notin {"U", r.q[p]}}
                     tr == IF r.trace.k = "Trace" THEN (LET a == MVal(r.trace.a[1]) IN IF ~IsMat(a) \/ a.r # a.c THEN VUndef
                                                                                   ELSE LET S[i \in 0..a.r] == IF i = 0 THEN V0 ELSE VAdd(S[i - 1], a.m[i][i]) IN S[a.r])
                           ELSE Val(r.trace, Env)
                     trWant == LET S[i \in 0..want.r] == IF i = 0 THEN V0 ELSE VAdd(S[i - 1], want.m[i][i]) IN S[want.r]
                 IN IF ~IsMat(got) THEN "bad:result-is-not-a-concrete-matrix-expression"
                    ELSE IF MCmp3(got, want) = "ne" THEN "bad:value"
                    ELSE IF \E p \in Preds : r.q[p] = "X:VerifAssertionError" THEN "bad:assertion"
                    ELSE IF wrong # {} THEN "bad:is_" \o (CHOOSE p \in wrong : TRUE) \o "=" \o r.q[CHOOSE p \in wrong : TRUE]
                    ELSE IF r.sexc # "" THEN "bad:size:exception:" \o r.sexc
                    ELSE IF Cmp3(Val(r.size[1], Env), VInt(want.r)) = "ne" \/ Cmp3(Val(r.size[2], Env), VInt(want.c)) = "ne" THEN "bad:size"
                    ELSE IF want.r = want.c /\ r.texc # "" THEN "bad:trace:exception:" \o r.texc
                    ELSE IF want.r = want.c /\ Cmp3(tr, trWant) = "ne" THEN "bad:trace"
                    ELSE IF MCmp3(got, want) = "eq" THEN "ok" ELSE "unk"
Events == ndJsonDeserialize(IOEnv.TRACE)
K == INSTANCE TraceKit WITH Check <- CheckEv, Events <- Events
Init == K!Init
Next == K!Next
Verdict == K!Verdict
=============================================================================
