------------------------------ MODULE Trace_C31 ------------------------------
(* C31: the coefficients returned by series(f, x, n) are the Taylor         *)
(* coefficients of f at 0 computed by module Series from the defining       *)
(* differential equations, in the exact/modular value domain.               *)
EXTENDS Integers, Sequences, FiniteSets, TLC, Json, IOUtils, Series
VARIABLES l, bad, dec
NoE == [q \in {} |-> VUndef]
CheckEv(e) ==
    IF e.r.exc # "" THEN "bad:harness:" \o e.r.exc
    ELSE IF e.r.sexc = "VerifAssertionError" THEN "bad:assertion"
    ELSE LET n == e.c.n
             want == Ser(e.c.e, e.c.x, n)
         IN IF ~Defined(want) THEN "unk"
            ELSE IF e.r.sexc # "" THEN "bad:exception:" \o e.r.sexc
            ELSE IF Len(e.r.c) # n THEN "bad:length"
            ELSE LET cmp == [i \in 1..n |-> Cmp3(Val(e.r.c[i], NoE), want[i])]
                 IN IF \E i \in 1..n : cmp[i] = "ne" THEN "bad:coefficient:x^" \o ToString((CHOOSE i \in 1..n : cmp[i] = "ne") - 1)
                    ELSE IF \A i \in 1..n : cmp[i] = "eq" THEN "ok" ELSE "unk"
Events == ndJsonDeserialize(IOEnv.TRACE)
K == INSTANCE TraceKit WITH Check <- CheckEv, Events <- Events
Init == K!Init
Next == K!Next
Verdict == K!Verdict
=============================================================================
