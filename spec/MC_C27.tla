------------------------------- MODULE MC_C27 -------------------------------
(* Cases for C27: all ordered pairs of primitive sets over a grid under     *)
(* union, intersection and complement (free functions and methods), the     *)
(* topological operators on the results, and the probe points of every cell.*)
EXTENDS Integers, Sequences, FiniteSets, TLC, Json, IOUtils, SequencesExt, Randomization, Term

Thorough == "TIER" \in DOMAIN IOEnv /\ IOEnv.TIER = "thorough"
Iv(a, b, lo, ro) == T("interval", <<a, b>>, "", lo, ro)
N0(k) == T(k, <<>>, "", 0, 0)
Ends == IF Thorough THEN <<TInf(-1), TInt(-2), TInt(-1), TInt(0), TRat(1, 2), TInt(1), TInt(2), TInf(1)>>
        ELSE <<TInf(-1), TInt(-1), TInt(0), TInt(1), TInt(2), TInf(1)>>
Intervals == {Iv(Ends[i], Ends[j], lo, ro) : i \in 1..Len(Ends), j \in 1..Len(Ends), lo \in {0, 1}, ro \in {0, 1}}
Proper == {s \in Intervals :
             LET i == CHOOSE i \in 1..Len(Ends) : Ends[i] = s.a[1]
                 j == CHOOSE j \in 1..Len(Ends) : Ends[j] = s.a[2]
             IN i < j /\ (s.a[1].k = "Inf" => s.n = 1) /\ (s.a[2].k = "Inf" => s.d = 1)}
Finites == {TOp("finiteset", <<TInt(0)>>), TOp("finiteset", <<TInt(1), TInt(2)>>), TOp("finiteset", <<TInt(-1), TRat(1, 2), TInt(3)>>),
            TOp("finiteset", <<TInt(0), TInt(1), TInt(2)>>), TOp("finiteset", <<TInt(2), TInt(-1)>>), TOp("finiteset", <<TRat(3, 2)>>)}
Named == {N0("EmptySet"), N0("UniversalSet"), N0("Reals"), N0("Rationals"), N0("Integers"), N0("Naturals"), N0("Naturals0"), N0("Complexes")}
Prims == Proper \cup Finites \cup Named
\* probes: every grid value and one rational and one irrational inside every gap, plus a non-real
GridVals == <<-3, -2, -1, 0, 1, 2, 3>>
ProbeTerms == [i \in 1..7 |-> TInt(GridVals[i])] \o <<TRat(1, 2), TRat(3, 2), TRat(-1, 2), TRat(5, 2)>>
              \o <<TRat(-7, 2), TRat(-9, 4), TRat(-5, 4), TRat(-1, 4), TRat(1, 4), TRat(3, 4), TRat(5, 4), TRat(7, 4), TRat(9, 4), TRat(11, 4), TRat(7, 2)>>
              \o <<TOp("add", <<TInt(-4), TOp("sqrt", <<TInt(2)>>)>>), TOp("neg", <<TOp("sqrt", <<TInt(2)>>)>>),
                   TOp("add", <<TInt(-1), TOp("mul", <<TRat(1, 2), TOp("sqrt", <<TInt(2)>>)>>)>>), TOp("mul", <<TRat(1, 4), TOp("sqrt", <<TInt(2)>>)>>),
                   TOp("mul", <<TRat(1, 2), TOp("sqrt", <<TInt(2)>>)>>), TOp("sqrt", <<TInt(2)>>), TOp("sqrt", <<TInt(3)>>),
                   TOp("sqrt", <<TInt(5)>>), TOp("sqrt", <<TInt(7)>>), TConst("pi")>>
              \o <<TI, TComplex(TInt(1), TInt(1))>>
Case(t) == [op |-> "setev", t |-> t]
B(k, a, b) == TOp(k, <<a, b>>)
NP == IF Thorough THEN 100000 ELSE 1200
PairSet == {<<a, b>> : a \in Prims, b \in Prims}
Pairs == IF Cardinality(PairSet) <= NP THEN PairSet ELSE RandomSubset(NP, PairSet)
OpCases == {Case(B(k, p[1], p[2])) : k \in {"union", "intersection", "complement", "m_union", "m_intersection", "m_complement"}, p \in Pairs}
Triples == {<<a, b, c>> : a \in RandomSubset(12, Prims), b \in RandomSubset(12, Prims), c \in RandomSubset(8, Prims)}
TriCases == {Case(B("union", t[1], B("intersection", t[2], t[3]))) : t \in Triples}
            \cup {Case(B("complement", B("union", t[1], t[2]), t[3])) : t \in Triples}
            \cup {Case(B("intersection", t[1], B("complement", t[2], t[3]))) : t \in Triples}
            \cup {Case(TOp("union", <<t[1], t[2], t[3]>>)) : t \in Triples}
TopoBase == (Proper \cup Finites) \cup {B("union", p[1], p[2]) : p \in RandomSubset(150, (Proper \cup Finites) \X (Proper \cup Finites))}
TopoCases == {Case(TOp(k, <<s>>)) : k \in {"closure", "interior", "boundary"}, s \in TopoBase}
Cases == OpCases \cup TriCases \cup TopoCases \cup {Case(s) : s \in Prims}
ASSUME PrintT(<<"cases", Cardinality(Prims), Cardinality(OpCases), Cardinality(TriCases), Cardinality(TopoCases)>>)
ASSUME ndJsonSerialize(IOEnv.OUT, <<[op |-> "setprobes", t |-> TInt(0), probes |-> ProbeTerms]>> \o SetToSeq(Cases))
VARIABLE dummy
Init == dummy = 0
Next == UNCHANGED dummy
=============================================================================
