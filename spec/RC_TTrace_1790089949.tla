---- MODULE RC_TTrace_1790089949 ----
EXTENDS RC, Sequences, TLCExt, Toolbox, Naturals, TLC

_expression ==
    LET RC_TEExpression == INSTANCE RC_TEExpression
    IN RC_TEExpression!expression
----

_trace ==
    LET RC_TETrace == INSTANCE RC_TETrace
    IN RC_TETrace!trace
----

_inv ==
    ~(
        TLCGet("level") = Len(_TETrace)
        /\
        handles = ((2 :> 2))
        /\
        rc = (<<1, 1>>)
        /\
        nextId = (3)
        /\
        kids = (<<<<>>, <<1>>>>)
    )
----

_init ==
    /\ rc = _TETrace[1].rc
    /\ kids = _TETrace[1].kids
    /\ nextId = _TETrace[1].nextId
    /\ handles = _TETrace[1].handles
----

_next ==
    /\ \E i,j \in DOMAIN _TETrace:
        /\ \/ /\ j = i + 1
              /\ i = TLCGet("level")
        /\ rc  = _TETrace[i].rc
        /\ rc' = _TETrace[j].rc
        /\ kids  = _TETrace[i].kids
        /\ kids' = _TETrace[j].kids
        /\ nextId  = _TETrace[i].nextId
        /\ nextId' = _TETrace[j].nextId
        /\ handles  = _TETrace[i].handles
        /\ handles' = _TETrace[j].handles

\* Uncomment the ASSUME below to write the states of the error trace
\* to the given file in Json format. Note that you can pass any tuple
\* to `JsonSerialize`. For example, a sub-sequence of _TETrace.
    \* ASSUME
    \*     LET J == INSTANCE Json
    \*         IN J!JsonSerialize("RC_TTrace_1790089949.json", _TETrace)

=============================================================================

 Note that you can extract this module `RC_TEExpression`
  to a dedicated file to reuse `expression` (the module in the 
  dedicated `RC_TEExpression.tla` file takes precedence 
  over the module `RC_TEExpression` below).

---- MODULE RC_TEExpression ----
EXTENDS RC, Sequences, TLCExt, Toolbox, Naturals, TLC

expression == 
    [
        \* To hide variables of the `RC` spec from the error trace,
        \* remove the variables below.  The trace will be written in the order
        \* of the fields of this record.
        rc |-> rc
        ,kids |-> kids
        ,nextId |-> nextId
        ,handles |-> handles
        
        \* Put additional constant-, state-, and action-level expressions here:
        \* ,_stateNumber |-> _TEPosition
        \* ,_rcUnchanged |-> rc = rc'
        
        \* Format the `rc` variable as Json value.
        \* ,_rcJson |->
        \*     LET J == INSTANCE Json
        \*     IN J!ToJson(rc)
        
        \* Lastly, you may build expressions over arbitrary sets of states by
        \* leveraging the _TETrace operator.  For example, this is how to
        \* count the number of times a spec variable changed up to the current
        \* state in the trace.
        \* ,_rcModCount |->
        \*     LET F[s \in DOMAIN _TETrace] ==
        \*         IF s = 1 THEN 0
        \*         ELSE IF _TETrace[s].rc # _TETrace[s-1].rc
        \*             THEN 1 + F[s-1] ELSE F[s-1]
        \*     IN F[_TEPosition - 1]
    ]

=============================================================================



Parsing and semantic processing can take forever if the trace below is long.
 In this case, it is advised to uncomment the module below to deserialize the
 trace from a generated binary file.

\*
\*---- MODULE RC_TETrace ----
\*EXTENDS RC, IOUtils, TLC
\*
\*trace == IODeserialize("RC_TTrace_1790089949.bin", TRUE)
\*
\*=============================================================================
\*

---- MODULE RC_TETrace ----
EXTENDS RC, TLC

trace == 
    <<
    ([handles |-> <<>>,rc |-> <<>>,nextId |-> 1,kids |-> <<>>]),
    ([handles |-> <<1>>,rc |-> <<1>>,nextId |-> 2,kids |-> <<<<>>>>]),
    ([handles |-> <<1, 2>>,rc |-> <<2, 1>>,nextId |-> 3,kids |-> <<<<>>, <<1>>>>]),
    ([handles |-> (2 :> 2),rc |-> <<1, 1>>,nextId |-> 3,kids |-> <<<<>>, <<1>>>>])
    >>
----


=============================================================================

---- CONFIG RC_TTrace_1790089949 ----
CONSTANTS
    MaxObj = 3
    MaxHandles = 2
    ReleaseFirst = TRUE
    Cascade = TRUE

INVARIANT
    _inv

CHECK_DEADLOCK
    \* CHECK_DEADLOCK off because of PROPERTY or INVARIANT above.
    FALSE

INIT
    _init

NEXT
    _next

CONSTANT
    _TETrace <- _trace

ALIAS
    _expression
=============================================================================
\* Generated on Tue Sep 22 15:12:30 UTC 2026