------------------------------- MODULE MC_C26 -------------------------------
(* Cases for C26: matrix-expression trees over concrete leaves (dense,       *)
(* diagonal, identity, zero) and matrix symbols.                            *)
EXTENDS Integers, Sequences, FiniteSets, TLC, Json, IOUtils, SequencesExt, Randomization, Term
Thorough == "TIER" \in DOMAIN IOEnv /\ IOEnv.TIER = "thorough"
\* (the thorough tier samples three times as many of each operand set)
Sub(S, n) == LET m == IF Thorough THEN 3 * n ELSE n IN IF Cardinality(S) <= m THEN S ELSE RandomSubset(m, S)
x == TSym("x")
M(k, a, s, n, d) == T(k, a, s, n, d)
Dense(r, c, a) == M("dense", a, "", r, c)
Diag(a) == M("diag", a, "", 0, 0)
Ident(n) == M("ident", <<TInt(n)>>, "", 0, 0)
Zero(r, c) == M("zero", <<TInt(r), TInt(c)>>, "", 0, 0)
MSym(s) == M("msym", <<>>, s, 0, 0)
Op(k, a) == M(k, a, "", 0, 0)
E == {TInt(0), TInt(1), TInt(-2), TRat(1, 2), TI, x}
\* 2x2 leaves (square), 2x3 and 3x2 leaves
L22 == {Dense(2, 2, a) : a \in Sub([1..4 -> E], 14)} \cup {Diag(a) : a \in Sub([1..2 -> E], 8)} \cup {Ident(2), Zero(2, 2)}
       \cup {Dense(2, 2, <<TInt(1), TInt(2), TInt(2), TInt(1)>>), Dense(2, 2, <<TInt(1), TInt(0), TInt(3), TInt(1)>>), Dense(2, 2, <<TInt(0), TInt(0), TInt(0), TInt(0)>>),
             Dense(2, 2, <<TInt(1), TInt(0), TInt(0), TInt(1)>>), Dense(2, 2, <<TInt(2), TInt(0), TInt(0), TInt(3)>>), Diag(<<TInt(0), TInt(0)>>), Diag(<<TInt(1), TInt(1)>>)}
L23 == {Dense(2, 3, a) : a \in Sub([1..6 -> E], 6)} \cup {Zero(2, 3)}
L32 == {Dense(3, 2, a) : a \in Sub([1..6 -> E], 6)} \cup {Zero(3, 2)}
L33 == {Dense(3, 3, a) : a \in Sub([1..9 -> {TInt(0), TInt(1), TInt(2)}], 8)} \cup {Ident(3), Zero(3, 3), Diag(<<TInt(1), TInt(2), x>>),
        Dense(3, 3, <<TInt(1), TInt(2), TInt(3), TInt(4), TInt(1), TInt(2), TInt(5), TInt(4), TInt(1)>>)}       \* a Toeplitz matrix
\* wide and tall shapes (diagonals that start outside the shorter side)
L24 == {Dense(2, 4, a) : a \in Sub([1..8 -> {TInt(0), TInt(1), TInt(2)}], 6)} \cup {Dense(2, 4, <<TInt(1), TInt(2), TInt(3), TInt(4), TInt(5), TInt(1), TInt(2), TInt(3)>>), Zero(2, 4)}
L42 == {Dense(4, 2, a) : a \in Sub([1..8 -> {TInt(0), TInt(1), TInt(2)}], 6)} \cup {Dense(4, 2, <<TInt(1), TInt(2), TInt(3), TInt(1), TInt(4), TInt(3), TInt(5), TInt(4)>>), Dense(3, 2, <<TInt(1), TInt(0), TInt(2), TInt(1), TInt(4), TInt(3)>>),
        Dense(2, 3, <<TInt(1), TInt(2), TInt(3), TInt(4), TInt(1), TInt(9)>>), Dense(1, 3, <<TInt(1), TInt(2), x>>), Dense(3, 1, <<TInt(1), TInt(2), x>>), Dense(1, 1, <<x>>)}
Leaves == L22 \cup L23 \cup L32 \cup L33 \cup L24 \cup L42
Un(m) == {Op("transpose", <<m>>), Op("conj", <<m>>)}
Depth1 == UNION {Un(m) : m \in Sub(Leaves, 30)}
          \cup {Op(k, <<a, b>>) : k \in {"madd", "hadamard"}, a, b \in Sub(L22, 14)} \cup {Op(k, <<a, b>>) : k \in {"madd", "hadamard"}, a, b \in Sub(L23, 5)}
          \cup {Op("mmul", <<a, b>>) : a, b \in Sub(L22, 14)} \cup {Op("mmul", <<a, b>>) : a \in Sub(L23, 5), b \in Sub(L32, 5)} \cup {Op("mmul", <<a, b>>) : a \in Sub(L32, 4), b \in Sub(L23, 4)}
          \cup {Op("mmul", <<s, a>>) : s \in {TInt(2), TInt(0), x, TRat(-1, 2)}, a \in Sub(L22, 8)} \cup {Op("mmul", <<a, b>>) : a \in Sub(L33, 5), b \in Sub(L33, 5)}
          \cup {Op(k, <<a, b, c>>) : k \in {"madd", "mmul", "hadamard"}, a, b, c \in Sub(L22, 5)}
          \cup {Op(k, <<a, b>>) : k \in {"madd", "hadamard"}, a, b \in Sub(L24, 4)} \cup {Op("mmul", <<a, b>>) : a \in Sub(L24, 4), b \in Sub(L42, 4)}
Depth2 == {Op(k, <<a, b>>) : k \in {"madd", "mmul", "hadamard"}, a \in Sub(Depth1, 14), b \in Sub(L22, 6)}
          \cup UNION {Un(m) : m \in Sub(Depth1, 40)}
          \cup {Op("madd", <<Op("mmul", <<a, b>>), Op("transpose", <<Op("mmul", <<a, b>>)>>)>>) : a, b \in Sub(L22, 5)}
\* mismatched shapes and matrix symbols (answers cannot be contradicted; construction must not crash)
Odd == {Op("madd", <<a, b>>) : a \in Sub(L22, 3), b \in Sub(L23, 3)} \cup {Op("mmul", <<a, b>>) : a \in Sub(L23, 3), b \in Sub(L23, 3)}
       \cup {MSym("A"), Op("transpose", <<MSym("A")>>), Op("madd", <<MSym("A"), MSym("B")>>), Op("mmul", <<MSym("A"), Ident(2)>>), Op("mmul", <<MSym("A"), Zero(2, 2)>>),
             Op("madd", <<MSym("A"), Zero(2, 2)>>), Op("hadamard", <<MSym("A"), MSym("A")>>), M("ident", <<TSym("n")>>, "", 0, 0), M("zero", <<TSym("n"), TSym("m")>>, "", 0, 0),
             Op("mmul", <<M("ident", <<TSym("n")>>, "", 0, 0), MSym("A")>>), Op("transpose", <<M("zero", <<TSym("n"), TSym("m")>>, "", 0, 0)>>)}
Cases == {[op |-> "mexpr", m |-> m] : m \in Leaves \cup Depth1 \cup Depth2 \cup Odd}
ASSUME PrintT(<<"cases", Cardinality(Cases)>>)
ASSUME ndJsonSerialize(IOEnv.OUT, SetToSeq(Cases))
VARIABLE dummy
Init == dummy = 0
Next == UNCHANGED dummy
=============================================================================
