------------------------------- MODULE MC_C43 -------------------------------
(* Cases for C43: calls of the integer back-end wrappers (mp_* functions and *)
(* the integer / rational class operators) on small, limb-boundary, word-   *)
(* boundary and multi-word integers.  The same cases are replayed on every  *)
(* back end the build offers.                                               *)
EXTENDS Integers, Sequences, FiniteSets, TLC, Json, IOUtils, SequencesExt, Randomization, BigInt
Thorough == "TIER" \in DOMAIN IOEnv /\ IOEnv.TIER = "thorough"
\* (the thorough tier samples three times as many of each operand set)
Sub(S, n) == LET m == IF Thorough THEN 3 * n ELSE n IN IF Cardinality(S) <= m THEN S ELSE RandomSubset(m, S)
ZP(a, n) == ZPow(ZFromInt(a), n)
ZI(n) == ZFromInt(n)
Small == {ZI(n) : n \in {-12, -7, -2, -1, 0, 1, 2, 3, 5, 8, 12, 97, -360, 9999, 10000, -10001, 65536, 46341, 2147483647, -2147483647}}
M61 == ZSub(ZP(2, 61), Z1)
M127 == ZSub(ZP(2, 127), Z1)
P18 == ZAdd(ZP(10, 18), ZI(3))                  \* a prime
Big == {ZP(2, 31), ZP(2, 32), ZNeg(ZP(2, 32)), ZSub(ZP(2, 63), Z1), ZP(2, 63), ZNeg(ZP(2, 63)), ZSub(ZNeg(ZP(2, 63)), Z1), ZP(2, 64), ZAdd(ZP(2, 64), Z1), ZSub(ZP(2, 64), Z1),
        P18, ZNeg(P18), ZP(3, 80), ZNeg(ZP(3, 80)), M61, M127, ZMul(ZP(2, 64), ZP(3, 40)), ZP(10, 40), ZNeg(ZAdd(ZP(10, 40), Z1)),
        Z(1, <<7890, 3456, 9012, 5678, 1234, 7890, 3456, 9012>>), Z(-1, <<1, 0, 0, 0, 0, 0, 0, 5000>>), ZMul(M61, P18), ZP(7, 77), ZP(6, 100)}
V == Small \cup Big
Vq == Sub(V, 22)
Mk(f, a, n) == [op |-> "mp", f |-> f, a |-> a, n |-> n]
Arith == {Mk("arith", <<a, b, c>>, <<>>) : a, b \in Vq, c \in {Z0, ZI(-5), ZP(2, 64)}}
Divs == {Mk("divs", <<a, b>>, <<>>) : a \in V, b \in Vq \ {Z0}}
Gcds == {Mk("gcd", <<a, b>>, <<>>) : a \in V, b \in Vq}
        \cup {Mk("gcd", <<ZMul(a, g), ZMul(b, g)>>, <<>>) : a, b \in {ZI(6), ZI(-35), P18, ZP(2, 70)}, g \in {ZI(-4), M61, ZP(3, 50)}}
Inv == {Mk("invert", <<a, m>>, <<>>) : a \in V, m \in Vq \ {Z0}}
PowUi == {Mk("powui", <<a>>, <<n>>) : a \in Sub(V, 16), n \in {0, 1, 2, 3, 5, 9}} \cup {Mk("powui", <<a>>, <<n>>) : a \in Small, n \in {17, 64}}
PowM == {Mk("powm", <<a, e, m>>, <<>>) : a \in Sub(V, 10), e \in {Z0, Z1, ZI(2), ZI(5), ZI(65537), ZAdd(ZP(2, 64), Z1), ZP(10, 18)},
                                         m \in {Z1, ZI(2), ZI(7), ZI(-7), ZI(1000000007), ZP(2, 64), P18, M127, ZNeg(P18)}}
Roots == {Mk("root", <<a>>, <<n>>) : a \in {v \in V : v.s >= 0}, n \in {1, 2, 3, 5, 64}}
         \cup {Mk("root", <<ZAdd(ZPow(k, n), d)>>, <<n>>) : k \in {ZI(2), ZI(3), ZI(10), ZI(9999), ZI(65536), P18, ZP(2, 64)}, n \in {2, 3, 5, 7}, d \in {ZI(-1), Z0, Z1}}
         \cup {Mk("root", <<ZI(a)>>, <<n>>) : a \in 0..40, n \in {1, 2, 3, 4}}
\* primality: small numbers (definition); large ones with the prime factorisation (composites) or that of n - 1 and a base (primes: Lucas certificate)
PrimeSmall == {Mk("prime", <<ZI(a)>>, <<>>) : a \in 0..130} \cup {Mk("prime", <<ZI(a)>>, <<>>) : a \in {169, 243, 256, 341, 343, 561, 1000, 1023, 1024, 1105, 1729, 2047, 2187, 3125, 4096, 6561, 7919, 7920, 8191, 9973, 10007, 65521, 65536, 65537}}
Cert(fs, bases) == [fs |-> fs, bases |-> bases]
PrimeBig == {[op |-> "mp", f |-> "prime", a |-> <<p[1]>>, n |-> <<>>, cert |-> p[2]] : p \in {
      <<M61, Cert(<<2, 3, 3, 5, 5, 7, 11, 13, 31, 41, 61, 151, 331, 1321>>, <<37>>)>>,
      <<ZAdd(ZMul(ZI(2), ZMul(ZP(3, 20), ZP(7, 10))), Z1), Cert(<<2>> \o [i \in 1..20 |-> 3] \o [i \in 1..10 |-> 7], <<2, 3, 5, 7, 11, 13>>)>>,
      <<ZI(1000000007), Cert(<<2, 500000003>>, <<5>>)>>,
      <<ZAdd(ZMul(ZP(2, 66), ZP(3, 3)), Z1), Cert([i \in 1..66 |-> 2] \o <<3, 3, 3>>, <<2, 3, 5, 7, 11, 13, 17>>)>>,
      <<ZAdd(ZMul(ZP(2, 40), ZMul(ZP(3, 30), ZP(5, 8))), Z1), Cert([i \in 1..40 |-> 2] \o [i \in 1..30 |-> 3] \o [i \in 1..8 |-> 5], <<2, 3, 5, 7, 11, 13, 17>>)>>}}
\* composites by their factors: semiprimes of large primes, Carmichael numbers, strong pseudoprimes to several bases
Comp == {[op |-> "mp", f |-> "prime", a |-> <<Z(1, NProd(fs, 1))>>, n |-> <<>>, fac |-> fs] : fs \in {
      <<7, 13, 19>>, <<7, 13, 31>>, <<41, 61, 101>>, <<7, 23, 41>>, <<151, 751, 28351>>, <<1303, 16927, 157543>>, <<9973, 9973>>, <<65521, 65537>>, <<2, 1000003>>, <<99991, 99989, 99971>>,
      <<3, 3, 3, 3, 3, 3, 3, 3, 3, 3, 3, 3, 3, 3, 3, 3, 3, 3, 3, 3, 3, 3, 3, 3, 3, 3, 3, 3, 3, 3, 3, 3, 3, 3, 3, 3, 3, 3, 3, 3, 3>>, <<1000003, 1000033, 1000037>>, <<2, 2, 2, 2, 2, 2, 5, 5, 5, 5, 5, 5>>,
      <<6700417, 641>>, <<59649589, 127, 2>>}}
Seqs == {Mk("seq", <<>>, <<n>>) : n \in (0..40) \cup {47, 48, 64, 92, 93, 94, 100, 150, 200, 301}}
Bins == {Mk("bin", <<a>>, <<k>>) : a \in {Z0, Z1, ZI(5), ZI(10), ZI(50), ZI(-3), ZI(-7), P18, ZP(2, 64), ZI(67)}, k \in {0, 1, 2, 3, 10, 25, 33}}
OddPrimes == {3, 5, 7, 11, 13, 97, 9973}
Symb == {Mk("symb", <<ZI(a), ZI(p)>>, <<1, 1>>) : a \in -15..15, p \in OddPrimes}
        \cup {Mk("symb", <<a, ZI(p)>>, <<1, 1>>) : a \in Big, p \in OddPrimes}
        \cup {Mk("symb", <<ZI(a), p>>, <<1, 1>>) : a \in {-3, -1, 0, 1, 2, 3, 5, 6, 7, 10}, p \in {M61, P18, ZI(1000000007)}}
        \cup {Mk("symb", <<ZI(a), ZI(m)>>, <<0, 1>>) : a \in -12..12, m \in {1, 9, 15, 21, 45, 105, 1001}}
        \cup {Mk("symb", <<ZI(a), ZI(m)>>, <<0, 0>>) : a \in -9..9, m \in {-15, -8, -4, -3, -2, -1, 0, 2, 4, 6, 8, 12, 16, 20, 100}}
Bits == {Mk("bits", <<a, b>>, <<>>) : a \in V, b \in {ZI(7), ZI(255), ZSub(ZP(2, 64), Z1), ZP(2, 64), ZI(-1), ZI(-256), Z0, ZP(3, 80)}}
Rats == {Mk("rat", <<a, b, c, d>>, <<n>>) : a \in Sub(V, 8), b \in Sub(V \ {Z0}, 6), c \in Sub(V, 6), d \in Sub(V \ {Z0}, 5), n \in {0, 3}}
All == Sub(Arith, 300) \cup Sub(Divs, 400) \cup Sub(Gcds, 300) \cup Sub(Inv, 300) \cup Sub(PowUi, 80) \cup Sub(PowM, 150) \cup Sub(Roots, 200) \cup PrimeSmall \cup PrimeBig \cup Comp \cup Seqs \cup Bins
       \cup Sub(Symb, 400) \cup Sub(Bits, 200) \cup Sub(Rats, 200)
\* uniform records (TLC compares set elements): every case gets the optional fields
Norm(c) == [op |-> c.op, f |-> c.f, a |-> c.a, n |-> c.n, cert |-> IF "cert" \in DOMAIN c THEN c.cert ELSE Cert(<<>>, <<>>), fac |-> IF "fac" \in DOMAIN c THEN c.fac ELSE <<>>]
ASSUME \A v \in V : ZWell(v)
ASSUME PrintT(<<"cases", Cardinality(All)>>)
ASSUME ndJsonSerialize(IOEnv.OUT, [i \in 1..Cardinality(All) |-> Norm(SetToSeq(All)[i])])
VARIABLE dummy
Init == dummy = 0
Next == UNCHANGED dummy
=============================================================================
