INIT Init
NEXT Next
