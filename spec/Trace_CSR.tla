------------------------------ MODULE Trace_CSR ------------------------------
(* C25: trace validation of CSR behaviours.                                 *)
(*  csr_set : the arrays after each set() must be exactly those the         *)
(*            transcribed Set computes, canonical, and get() must read the  *)
(*            dense value of every cell;                                    *)
(*  csr_ops : every operation's result must be canonical and denote the     *)
(*            dense result.                                                 *)
EXTENDS CSR, TLC, Json, IOUtils
VARIABLES l, bad, dec

AsMat(o) == Mat(o.rows, o.cols, o.p, o.j, o.x)
RECURSIVE SetSteps(_, _, _)
\* walk the logged steps; "" when all conform, else the reason
SetSteps(m, steps, k) ==
    IF k > Len(steps) THEN ""
    ELSE LET s == steps[k]
             want == Set(m, s.i, s.c, s.v)
             got == AsMat(s)
             flat == [n \in 1..(m.rows * m.cols) |-> Abs(want)[(n - 1) \div m.cols, (n - 1) % m.cols]]
         IN IF s.exc # "" THEN "bad:exception:" \o s.exc
            ELSE IF ~Canonical(got) THEN "bad:not-canonical"
            ELSE IF s.canon # 1 THEN "bad:is_canonical-false"
            ELSE IF got # want THEN "bad:arrays-differ-from-spec"
            ELSE IF s.gets # flat THEN "bad:get"
            ELSE SetSteps(want, steps, k + 1)

Dense(flat, rows, cols) == [i \in 0..(rows - 1), c \in 0..(cols - 1) |-> flat[i * cols + c + 1]]
\* result o must be a canonical rows x cols matrix denoting d
Denotes(o, d, rows, cols, what) ==
    IF o.exc # "" THEN "bad:" \o what \o ":exception:" \o o.exc
    ELSE IF o.rows # rows \/ o.cols # cols THEN "bad:" \o what \o ":shape"
    ELSE IF ~Canonical(AsMat(o)) THEN "bad:" \o what \o ":not-canonical"
    ELSE IF Abs(AsMat(o)) # d THEN "bad:" \o what \o ":value"
    ELSE ""
First(rs) == IF \E i \in 1..Len(rs) : rs[i] # "" THEN rs[CHOOSE i \in 1..Len(rs) : rs[i] # "" /\ \A k \in 1..(i - 1) : rs[k] = ""]
             ELSE "ok"

CheckEv(e) ==
    IF e.r.exc # "" THEN "bad:harness:" \o e.r.exc
    ELSE IF e.c.op = "csr_set"
    THEN LET m0 == Mat(e.c.rows, e.c.cols, e.c.p, e.c.j, e.c.x)
             w == SetSteps(m0, e.r.steps, 1)
         IN IF w = "" THEN "ok" ELSE w
    ELSE LET R == e.c.rows C == e.c.cols
             A == Dense(e.c.a, R, C)
             B == Dense(e.c.b, R, C)
             n == IF R < C THEN R ELSE C
         IN First(<<
              Denotes(e.r.coo, A, R, C, "from_coo"),
              Denotes(e.r.tr, DTranspose(A, R, C), C, R, "transpose"),
              Denotes(e.r.ct, DTranspose(A, R, C), C, R, "conjugate_transpose"),
              Denotes(e.r.cj, A, R, C, "conjugate"),
              Denotes(e.r.add, DAdd(A, B, R, C), R, C, "add"),
              Denotes(e.r.sub, DAdd(A, DScale(B, -1, R, C), R, C), R, C, "sub"),
              Denotes(e.r.emul, DElemMul(A, B, R, C), R, C, "elementwise_mul"),
              Denotes(e.r.srow, [i \in 0..(R - 1), c \in 0..(C - 1) |-> A[i, c] * e.c.sr[i + 1]], R, C, "scale_rows"),
              Denotes(e.r.scol, [i \in 0..(R - 1), c \in 0..(C - 1) |-> A[i, c] * e.c.sc[c + 1]], R, C, "scale_columns"),
              IF e.r.diage # "" THEN "bad:diagonal:exception:" \o e.r.diage
              ELSE IF e.r.diag # [i \in 1..n |-> A[i - 1, i - 1]] THEN "bad:diagonal" ELSE "",
              IF (e.r.eqab = 1) # (A = B) THEN "bad:eq" ELSE "" >>)

Events == ndJsonDeserialize(IOEnv.TRACE)
K == INSTANCE TraceKit WITH Check <- CheckEv, Events <- Events
Init == K!Init
Next == K!Next
Verdict == K!Verdict
=============================================================================
