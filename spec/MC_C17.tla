------------------------------- MODULE MC_C17 -------------------------------
(* Cases for C17: strings printed from abstract syntax trees by module      *)
(* Syntax in several styles, with the tree itself.                          *)
EXTENDS Integers, Sequences, FiniteSets, TLC, Json, IOUtils, SequencesExt, Randomization, Syntax
Thorough == "TIER" \in DOMAIN IOEnv /\ IOEnv.TIER = "thorough"
\* (the thorough tier samples three times as many of each operand set)
Sub(S, n) == LET m == IF Thorough THEN 3 * n ELSE n IN IF Cardinality(S) <= m THEN S ELSE RandomSubset(m, S)
x == TSym("x")
y == TSym("y")
B(k, a, b) == TOp(k, <<a, b>>)
U(k, a) == TOp(k, <<a>>)
Atoms == {x, y, TSym("x1"), TSym("_a"), TInt(2), TInt(3), TInt(10), TInt(0), TDbl(1, 3, -1), TDbl(1, 1, -2), TDbl(1, 25, 0), TDbl(1, 125, 4), TConst("pi")}
Bin == {"add", "sub", "mul", "div", "pow"}
D1 == {B(k, a, b) : k \in Bin, a, b \in Sub(Atoms, 8)} \cup {U("neg", a) : a \in Atoms}
      \cup {U(f, a) : f \in {"sin", "cos", "exp", "log", "sqrt", "abs", "gamma", "atan", "floor", "sign", "erf"}, a \in Sub(Atoms, 4)}
      \cup {B(f, a, b) : f \in {"atan2", "max", "min", "beta"}, a, b \in Sub(Atoms, 3)}
D2 == {B(k, a, b) : k \in Bin, a \in Sub(D1, 24), b \in Sub(D1 \cup Atoms, 24)} \cup {B(k, a, b) : k \in Bin, a \in Sub(Atoms, 6), b \in Sub(D1, 24)}
      \cup {U("neg", a) : a \in Sub(D1, 40)} \cup {U(f, a) : f \in {"sin", "sqrt", "exp"}, a \in Sub(D1, 20)}
D3 == {B(k, a, b) : k \in Bin, a \in Sub(D2, 22), b \in Sub(D1 \cup D2, 22)}
\* the classical traps, spelled out
Traps == {B("sub", B("sub", x, y), TInt(2)), B("sub", x, B("sub", y, TInt(2))), B("div", B("div", x, y), TInt(2)), B("div", x, B("div", y, TInt(2))),
          B("div", x, B("mul", y, TInt(2))), B("mul", B("div", x, y), TInt(2)), B("pow", B("pow", x, y), TInt(2)), B("pow", x, B("pow", y, TInt(2))),
          U("neg", B("pow", x, TInt(2))), B("pow", U("neg", x), TInt(2)), B("pow", TInt(2), U("neg", x)), B("pow", TInt(2), U("neg", B("pow", x, TInt(2)))),
          B("mul", U("neg", x), y), U("neg", B("mul", x, y)), B("sub", U("neg", x), y), B("add", x, U("neg", y)), B("mul", TInt(2), U("neg", x)),
          B("pow", B("mul", TInt(2), x), TInt(2)), B("mul", TInt(2), B("pow", x, TInt(2))), B("div", TInt(1), B("mul", TInt(2), x)), B("div", B("mul", TInt(10), x), TInt(10)),
          B("add", B("mul", TInt(10), x), TInt(10)), B("sub", TInt(10), TInt(10)), B("pow", TInt(10), TInt(2)), U("neg", U("neg", x)), B("sub", x, U("neg", y)),
          B("pow", B("add", x, y), B("div", TInt(1), TInt(2))), B("div", B("add", x, TInt(1)), B("sub", x, TInt(1))), B("mul", B("add", x, y), B("sub", x, y))}
Styles == {Style(sp, hat, par, lz, imp) : sp \in {"", " "}, hat, par, lz, imp \in BOOLEAN}
Mk(t, st) == [op |-> "parse", s |-> Text(t, st), t |-> t]
Cases == {Mk(t, st) : t \in Traps, st \in Styles}
         \cup {Mk(t, st) : t \in Atoms \cup D1, st \in Sub(Styles, 3)}
         \cup {Mk(t, st) : t \in Sub(D2, 500), st \in Sub(Styles, 2)} \cup {Mk(t, st) : t \in Sub(D3, 400), st \in Sub(Styles, 2)}
ASSUME PrintT(<<"cases", Cardinality(Cases)>>)
ASSUME ndJsonSerialize(IOEnv.OUT, SetToSeq(Cases))
VARIABLE dummy
Init == dummy = 0
Next == UNCHANGED dummy
=============================================================================
