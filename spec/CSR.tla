--------------------------------- MODULE CSR ---------------------------------
(* Compressed-sparse-row matrices (symengine/sparse_matrix.cpp).            *)
(* Concrete state: the three arrays p (row pointers), j (column indices),   *)
(* x (values).  Abstraction Abs: the dense matrix they denote.  Canonical:  *)
(* p monotone from 0 to nnz, column indices strictly increasing inside each *)
(* row and within range, no stored zero.  Get and Set are transcriptions of *)
(* the binary searches in CSRMatrix::get / CSRMatrix::set; the whole-matrix *)
(* operations are specified by their dense meaning.                         *)
(* Arrays are TLA+ sequences; the code's 0-based index k is element k+1.    *)
EXTENDS Integers, Sequences, FiniteSets

\* ------------------------------------------------------------ representation
Mat(rows, cols, p, j, x) == [rows |-> rows, cols |-> cols, p |-> p, j |-> j, x |-> x]
At0(s, k) == s[k + 1]                         \* 0-based access

Canonical(m) ==
    /\ Len(m.p) = m.rows + 1
    /\ At0(m.p, 0) = 0
    /\ \A i \in 0..(m.rows - 1) : At0(m.p, i) <= At0(m.p, i + 1)
    /\ At0(m.p, m.rows) = Len(m.j)
    /\ Len(m.j) = Len(m.x)
    /\ \A i \in 0..(m.rows - 1) :
         \A k \in At0(m.p, i)..(At0(m.p, i + 1) - 1) :
            /\ At0(m.j, k) \in 0..(m.cols - 1)
            /\ (k > At0(m.p, i) => At0(m.j, k - 1) < At0(m.j, k))
NoStoredZero(m) == \A k \in 1..Len(m.x) : m.x[k] # 0

\* dense meaning: function (i, c) -> value (duplicates summed, as the format defines)
RECURSIVE SumX(_, _)
SumX(m, ks) == IF ks = {} THEN 0
               ELSE LET k == CHOOSE k \in ks : TRUE IN At0(m.x, k) + SumX(m, ks \ {k})
Abs(m) == [i \in 0..(m.rows - 1), c \in 0..(m.cols - 1) |->
             SumX(m, {k \in At0(m.p, i)..(At0(m.p, i + 1) - 1) : At0(m.j, k) = c})]

\* the canonical representation of a dense matrix d (rows x cols)
RECURSIVE RowJ(_, _, _, _), RowX(_, _, _, _), AllJ(_, _, _, _), AllX(_, _, _, _), AllP(_, _, _, _, _)
RowJ(d, i, c, cols) == IF c >= cols THEN <<>>
                       ELSE (IF d[i, c] # 0 THEN <<c>> ELSE <<>>) \o RowJ(d, i, c + 1, cols)
RowX(d, i, c, cols) == IF c >= cols THEN <<>>
                       ELSE (IF d[i, c] # 0 THEN <<d[i, c]>> ELSE <<>>) \o RowX(d, i, c + 1, cols)
AllJ(d, i, rows, cols) == IF i >= rows THEN <<>> ELSE RowJ(d, i, 0, cols) \o AllJ(d, i + 1, rows, cols)
AllX(d, i, rows, cols) == IF i >= rows THEN <<>> ELSE RowX(d, i, 0, cols) \o AllX(d, i + 1, rows, cols)
AllP(d, i, rows, cols, acc) == IF i >= rows THEN <<acc>>
                               ELSE <<acc>> \o AllP(d, i + 1, rows, cols, acc + Len(RowJ(d, i, 0, cols)))
FromDense(d, rows, cols) == Mat(rows, cols, AllP(d, 0, rows, cols, 0), AllJ(d, 0, rows, cols), AllX(d, 0, rows, cols))

\* sequence helpers
InsertAt0(s, k, v) == SubSeq(s, 1, k) \o <<v>> \o SubSeq(s, k + 1, Len(s))
EraseAt0(s, k) == SubSeq(s, 1, k) \o SubSeq(s, k + 2, Len(s))

\* ------------------------------------------------------------ CSRMatrix::get
RECURSIVE GetLoop(_, _, _, _)
GetLoop(m, c, lo, hi) ==
    IF lo >= hi THEN 0
    ELSE LET k == (lo + hi) \div 2
         IN IF At0(m.j, k) = c THEN At0(m.x, k)
            ELSE IF At0(m.j, k) < c THEN GetLoop(m, c, k + 1, hi)
            ELSE GetLoop(m, c, lo, k)
Get(m, i, c) == GetLoop(m, c, At0(m.p, i), At0(m.p, i + 1))

\* ------------------------------------------------------------ CSRMatrix::set
\* the search loop; returns the position k it ends with.  "Mid1" is the variant
\* that drops the "- 1" in "end = mid - 1" (negative model)
RECURSIVE SetLoop(_, _, _, _, _)
SetLoop(m, c, k, end, variant) ==
    IF k >= end THEN k
    ELSE LET mid == (k + end) \div 2
         IN IF mid = k
            THEN (IF At0(m.j, k) < c THEN k + 1 ELSE k)
            ELSE IF At0(m.j, mid) >= c /\ At0(m.j, mid - 1) < c THEN mid
            ELSE IF At0(m.j, mid - 1) >= c
                 THEN SetLoop(m, c, k, IF variant = "skipone" THEN mid - 2 ELSE mid - 1, variant)
            ELSE SetLoop(m, c, mid + 1, end, variant)

BumpP(p, i, d) == [l \in 1..Len(p) |-> IF l - 1 >= i + 1 THEN p[l] + d ELSE p[l]]

SetV(m, i, c, v, variant) ==
    LET rowEnd == At0(m.p, i + 1)
        k == SetLoop(m, c, At0(m.p, i), rowEnd, variant)
        hit == k < rowEnd /\ At0(m.j, k) = c
    IN IF v # 0
       THEN IF hit THEN [m EXCEPT !.x = [m.x EXCEPT ![k + 1] = v]]
            ELSE [m EXCEPT !.x = InsertAt0(m.x, k, v), !.j = InsertAt0(m.j, k, c), !.p = BumpP(m.p, i, 1)]
       ELSE IF hit THEN [m EXCEPT !.x = EraseAt0(m.x, k), !.j = EraseAt0(m.j, k), !.p = BumpP(m.p, i, -1)]
            ELSE m
Set(m, i, c, v) == SetV(m, i, c, v, "code")

\* ------------------------------------------------------------ dense operations
DTranspose(a, rows, cols) == [i \in 0..(cols - 1), c \in 0..(rows - 1) |-> a[c, i]]
DAdd(a, b, rows, cols) == [i \in 0..(rows - 1), c \in 0..(cols - 1) |-> a[i, c] + b[i, c]]
DElemMul(a, b, rows, cols) == [i \in 0..(rows - 1), c \in 0..(cols - 1) |-> a[i, c] * b[i, c]]
DScale(a, s, rows, cols) == [i \in 0..(rows - 1), c \in 0..(cols - 1) |-> s * a[i, c]]
RECURSIVE DotFrom(_, _, _, _, _, _)
DotFrom(a, b, i, c, t, n) == IF t >= n THEN 0 ELSE a[i, t] * b[t, c] + DotFrom(a, b, i, c, t + 1, n)
DMul(a, b, rows, inner, cols) == [i \in 0..(rows - 1), c \in 0..(cols - 1) |-> DotFrom(a, b, i, c, 0, inner)]
=============================================================================
