------------------------------ MODULE Trace_C14 ------------------------------
(* C14: a function compiled by an LLVM evaluator from the symbols x, y and  *)
(* an expression returns the value of the expression at the inputs: the     *)
(* exact rational value where the specification has one (module Dbl), and   *)
(* in every case the value of the library's own evaluation (bound to the    *)
(* specification by C12), at every optimisation level, with and without     *)
(* symbolic CSE, as one of many outputs of one function, on an object that  *)
(* is initialised again, and after the compiled function was saved and      *)
(* loaded into a fresh object (there: bit-identical).  Double and extended  *)
(* precision to 2^-40, single precision to 2^-10 (absolute below 1).        *)
EXTENDS Integers, Sequences, FiniteSets, TLC, Json, IOUtils, Term, Dbl
VARIABLES l, bad, dec
Pick(seq) == LET bads == {i \in 1..Len(seq) : seq[i] # ""} IN IF bads = {} THEN "" ELSE seq[CHOOSE i \in bads : \A j \in bads : i <= j]
Refusals == {"NotImplementedError", "SymEngineException"}
RECURSIVE PowTwo(_)
PowTwo(k) == IF k <= 0 THEN 1 ELSE 2 * PowTwo(k - 1)
\* single precision: |a - b| <= 2^-10 * max(1, |b|), decided on the dumped fields (value = (hi*2^26 + lo) * 2^e, hi has 27 bits)
FloatClose(a, b) ==
    LET tiny(v) == v.s = "zero" \/ (v.s = "fin" /\ v.a[6].n + 53 <= -10)
    IN IF a.s \notin {"fin", "zero"} \/ b.s \notin {"fin", "zero"} THEN (IF a.s = b.s /\ (a.s = "nan" \/ a.n = b.n) THEN "close" ELSE "far")
       ELSE IF tiny(a) /\ tiny(b) THEN "close"
       ELSE IF tiny(a) \/ tiny(b) THEN "unk"
       ELSE IF a.n # b.n THEN "far"
       ELSE IF a.a[6].n = b.a[6].n
            THEN LET e == b.a[6].n
                     tol == IF e + 53 > 0 THEN 131072 ELSE PowTwo(IF -36 - e > 26 THEN 26 ELSE -36 - e)
                 IN IF IAbsD(a.a[4].n - b.a[4].n) <= tol THEN "close" ELSE "far"
       ELSE IF IAbsD(a.a[6].n - b.a[6].n) = 1 THEN "unk" ELSE "far"
Num(v) == v.k = "Dbl"
One(it, t, env, edge) ==
    IF it.bexc # "" THEN "unk"
    ELSE LET val == Val(IF it.e.k = "Null" THEN t ELSE it.e, env)     \* the value of the constructed object (C07/C08 decide whether construction kept the recipe's value)
             exact == val.t = "num" /\ ExactRat(val) /\ IAbs(val.re[1]) < 32768 /\ val.re[2] < 32768
             want == RatDbl(val.re)
             \* (at the special points - vanishing arguments, ties - only the specification decides: the library's evaluation
             \*  of the substituted expression follows its own conventions where the function is undefined, atan2(0, 0))
             lib == edge = 0 /\ it.lib.exc = "" /\ Num(it.lib.v) /\ it.lib.v.s # "nan"
             all == [i \in 1..Len(it.d) |-> it.d[i]] \o [i \in 1..Len(it.ld) |-> it.ld[i]]
             okd == {i \in 1..Len(all) : all[i].exc = "" /\ Num(all[i].v)}
             okf == {i \in 1..Len(it.f) : it.f[i].exc = "" /\ Num(it.f[i].v)}
             foreign == {i \in 1..Len(all) : all[i].exc \notin (Refusals \cup {""})}
             accepts == {all[i].exc = "" : i \in 1..Len(all)}
         IN Pick(<<
              IF \E i \in 1..Len(all) : all[i].exc = "VerifAssertionError" THEN "bad:assertion" ELSE "",
              IF foreign # {} THEN "bad:foreign-exception:" \o all[CHOOSE i \in foreign : TRUE].exc ELSE "",
              IF Cardinality({it.d[i].exc = "" : i \in 1..Len(it.d)}) > 1 THEN "bad:accepted-at-some-settings-only" ELSE "",
              IF exact /\ \E i \in okd : DblClose(all[i].v, want) = "far" THEN "bad:exact-value:double" ELSE "",
              IF lib /\ \E i \in okd : all[i].v.s # "nan" /\ DblClose(all[i].v, it.lib.v) = "far" THEN "bad:value:double" ELSE "",
              IF exact /\ \E i \in okf : FloatClose(it.f[i].v, want) = "far" THEN "bad:exact-value:float" ELSE "",
              IF lib /\ \E i \in okf : it.f[i].v.s # "nan" /\ FloatClose(it.f[i].v, it.lib.v) = "far" THEN "bad:value:float" ELSE "",
              IF okd # {} /\ it.rl.exc # "" THEN "bad:save-load:" \o it.rl.exc ELSE "",
              IF okd # {} /\ it.rl.exc = "" /\ it.rl.same # 1 THEN "bad:reloaded-function-differs" ELSE "",
              IF okd # {} /\ it.rl.exc = "" /\ it.d[6].exc = "" /\ it.rl.v # it.d[6].v THEN "bad:reloaded-function-value" ELSE "",    \* d[6]: optimisation level 2, CSE on
              IF okd = {} THEN "unk" ELSE IF lib \/ exact THEN "" ELSE "unk">>)
CheckEv(e) ==
    IF e.r.exc # "" THEN "bad:harness:" \o e.r.exc
    ELSE LET n == Len(e.r.items)
             env == [q \in {"x", "y"} |-> Val(e.c[q], [z \in {} |-> VUndef])]
             rs == [i \in 1..n |-> One(e.r.items[i], e.c.ts[i], env, e.c.edge)]
             bads == {i \in 1..n : rs[i] \notin {"", "unk"}}
             vec == e.r.vec
             single(k) == e.r.items[vec.idx[k]].d[8].v            \* opt 3, cse on
             vbad(vs) == {k \in 1..Len(vec.idx) : single(k).s # "nan" /\ DblClose(vs[k], single(k)) = "far"}
         IN IF bads # {} THEN LET i == CHOOSE i \in bads : \A j \in bads : i <= j IN rs[i] \o "@" \o ToString(i)
            ELSE IF vec.exc # "" THEN "bad:multi-output-function:" \o vec.exc
            ELSE IF Len(vec.cse1) # Len(vec.idx) \/ Len(vec.cse0) # Len(vec.idx) \/ Len(vec.reloaded) # Len(vec.idx) THEN "bad:multi-output-function:missing-outputs"
            ELSE IF vbad(vec.cse1) # {} THEN "bad:multi-output-function:value@" \o ToString(vec.idx[CHOOSE k \in vbad(vec.cse1) : TRUE])
            ELSE IF vbad(vec.cse0) # {} THEN "bad:reinitialised-object:value@" \o ToString(vec.idx[CHOOSE k \in vbad(vec.cse0) : TRUE])
            ELSE IF vbad(vec.reloaded) # {} THEN "bad:reloaded-multi-output-function:value@" \o ToString(vec.idx[CHOOSE k \in vbad(vec.reloaded) : TRUE])
            ELSE IF \E i \in 1..n : rs[i] = "" THEN "ok" ELSE "unk"
Events == ndJsonDeserialize(IOEnv.TRACE)
K == INSTANCE TraceKit WITH Check <- CheckEv, Events <- Events
Init == K!Init
Next == K!Next
Verdict == K!Verdict
=============================================================================
