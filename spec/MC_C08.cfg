INIT Init
NEXT Next
