-------------------------------- MODULE Envs --------------------------------
(* Assignments of exact values to the symbols x, y, z used when the         *)
(* specification evaluates recipes and results.  Each set is chosen around  *)
(* the case boundaries of a domain: signs, perfect powers, non-real values, *)
(* table angles, integers and half-integers.                                *)
EXTENDS Integers, Sequences, Rat, ModP, ValCore, Func

Q(n, d) == VRat(RMk(n, d))
G(a, b, c, d) == VEx(RMk(a, b), RMk(c, d), R0, 0)       \* a/b + (c/d) i
E3(x, y, z) == [x |-> x, y |-> y, z |-> z]
PiQ(n, d) == VPiMul(RMk(n, d))

EnvSets == [
  arith |-> << E3(Q(2, 1), Q(3, 1), Q(5, 1)),
               E3(Q(-2, 1), Q(-3, 1), Q(1, 2)),
               E3(Q(4, 1), Q(9, 1), Q(-1, 1)),
               E3(Q(1, 4), Q(-8, 1), Q(2, 3)),
               E3(Q(-1, 1), Q(1, 2), Q(-4, 1)),
               E3(G(1, 1, 2, 1), G(0, 1, -1, 1), Q(3, 1)) >>,
  \* arith plus points of the left half plane off the real axis (branch behaviour of inverse functions)
  arithc |-> << E3(Q(2, 1), Q(3, 1), Q(5, 1)),
                E3(Q(-2, 1), Q(-3, 1), Q(1, 2)),
                E3(Q(1, 4), Q(-8, 1), Q(2, 3)),
                E3(G(1, 1, 2, 1), G(0, 1, -1, 1), Q(3, 1)),
                E3(G(-1, 1, 1, 1), G(-2, 1, -1, 2), Q(3, 1)),
                E3(G(-1, 2, -3, 1), G(1, 1, 1, 1), Q(-1, 1)) >>,
  \* positive real values only
  pos |-> << E3(Q(2, 1), Q(3, 1), Q(5, 1)),
             E3(Q(1, 2), Q(4, 1), Q(1, 3)),
             E3(Q(4, 1), Q(9, 1), Q(1, 1)),
             E3(Q(1, 4), Q(8, 1), Q(2, 3)),
             E3(Q(3, 1), Q(1, 2), Q(7, 2)) >>,
  \* positive multiples of pi
  posangle |-> << E3(PiQ(1, 3), PiQ(1, 4), PiQ(1, 12)),
                  E3(PiQ(5, 6), PiQ(1, 2), PiQ(1, 1)),
                  E3(PiQ(2, 3), PiQ(1, 6), PiQ(3, 2)) >>,
  \* assumption-indexed assignments for x (y positive, z real): C34 / C35
  xreal |-> << E3(Q(2, 1), Q(3, 1), Q(5, 1)), E3(Q(-3, 1), Q(1, 2), Q(-1, 1)), E3(Q(1, 2), Q(4, 1), Q(2, 1)),
               E3(Q(0, 1), Q(2, 1), Q(1, 1)), E3(Q(-1, 2), Q(1, 3), Q(-2, 1)), E3(Q(-8, 1), Q(2, 1), Q(3, 1)) >>,
  xneg |-> << E3(Q(-2, 1), Q(3, 1), Q(5, 1)), E3(Q(-1, 2), Q(1, 2), Q(-1, 1)), E3(Q(-8, 1), Q(2, 1), Q(1, 3)), E3(Q(-1, 1), Q(4, 1), Q(2, 1)) >>,
  xnonneg |-> << E3(Q(0, 1), Q(3, 1), Q(5, 1)), E3(Q(2, 1), Q(1, 2), Q(-1, 1)), E3(Q(1, 4), Q(2, 1), Q(1, 3)), E3(Q(9, 1), Q(4, 1), Q(2, 1)) >>,
  xnonpos |-> << E3(Q(0, 1), Q(3, 1), Q(5, 1)), E3(Q(-2, 1), Q(1, 2), Q(-1, 1)), E3(Q(-1, 4), Q(2, 1), Q(1, 3)), E3(Q(-9, 1), Q(4, 1), Q(2, 1)) >>,
  xint |-> << E3(Q(0, 1), Q(3, 1), Q(5, 1)), E3(Q(-2, 1), Q(1, 2), Q(-1, 1)), E3(Q(3, 1), Q(2, 1), Q(1, 3)), E3(Q(-9, 1), Q(4, 1), Q(2, 1)) >>,
  xposint |-> << E3(Q(1, 1), Q(3, 1), Q(5, 1)), E3(Q(2, 1), Q(1, 2), Q(-1, 1)), E3(Q(3, 1), Q(2, 1), Q(1, 3)), E3(Q(9, 1), Q(4, 1), Q(2, 1)) >>,
  xnonzero |-> << E3(Q(2, 1), Q(3, 1), Q(5, 1)), E3(Q(-3, 1), Q(1, 2), Q(-1, 1)), E3(G(1, 1, 2, 1), Q(4, 1), Q(2, 1)), E3(G(0, 1, -1, 1), Q(2, 1), Q(1, 1)) >>,
  xrat |-> << E3(Q(2, 3), Q(3, 1), Q(5, 1)), E3(Q(-3, 4), Q(1, 2), Q(-1, 1)), E3(Q(0, 1), Q(4, 1), Q(2, 1)), E3(Q(-5, 1), Q(2, 1), Q(1, 1)) >>,
  \* two weakly signed symbols (boundary points included)
  xynonneg |-> << E3(Q(0, 1), Q(0, 1), Q(0, 1)), E3(Q(0, 1), Q(2, 1), Q(1, 1)), E3(Q(3, 1), Q(0, 1), Q(0, 1)), E3(Q(1, 2), Q(4, 1), Q(2, 1)) >>,
  xynonpos |-> << E3(Q(0, 1), Q(0, 1), Q(0, 1)), E3(Q(0, 1), Q(-2, 1), Q(-1, 1)), E3(Q(-3, 1), Q(0, 1), Q(0, 1)), E3(Q(-1, 2), Q(-4, 1), Q(-2, 1)) >>,
  xnonnegynonpos |-> << E3(Q(0, 1), Q(0, 1), Q(0, 1)), E3(Q(0, 1), Q(-2, 1), Q(1, 1)), E3(Q(3, 1), Q(0, 1), Q(0, 1)), E3(Q(1, 2), Q(-4, 1), Q(2, 1)) >>,
  xyzero |-> << E3(Q(0, 1), Q(0, 1), Q(0, 1)) >>,
  \* no assumption on x: also points off the real axis
  xany |-> << E3(Q(2, 1), Q(3, 1), Q(5, 1)), E3(Q(-3, 1), Q(1, 2), Q(-1, 1)), E3(G(1, 1, 2, 1), Q(4, 1), Q(2, 1)),
              E3(G(0, 1, -1, 1), Q(2, 1), Q(1, 1)), E3(G(-1, 2, 3, 2), Q(1, 3), Q(-2, 1)), E3(Q(0, 1), Q(2, 1), Q(3, 1)) >>,
  angle |-> << E3(PiQ(1, 3), PiQ(-1, 4), PiQ(1, 12)),
               E3(PiQ(5, 6), PiQ(1, 2), PiQ(-1, 1)),
               E3(Q(0, 1), PiQ(1, 1), PiQ(7, 12)),
               E3(PiQ(-2, 3), PiQ(1, 6), PiQ(3, 2)) >>,
  ints |-> <<  E3(Q(3, 1), Q(-2, 1), Q(1, 2)),
               E3(Q(1, 1), Q(0, 1), Q(-3, 2)),
               E3(Q(2, 1), Q(5, 1), Q(5, 2)),
               E3(Q(-1, 1), Q(4, 1), Q(-1, 2)) >>,
  none |-> << E3(Q(2, 1), Q(3, 1), Q(5, 1)) >>,
  \* every sign / order / membership cell of the atoms used by the logic cases
  logic |-> [i \in 1..25 |-> LET vs == <<Q(0, 1), Q(1, 1), Q(2, 1), Q(1, 2), Q(3, 1)>>
                              IN E3(vs[((i - 1) \div 5) + 1], vs[((i - 1) % 5) + 1], Q(1, 1))] ]
=============================================================================
