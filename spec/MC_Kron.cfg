INIT Init
NEXT Next
CONSTANTS
  Extra = 1
  Coefs <- CoefSet
  MaxLen = 3
INVARIANT KronIsSchoolbook
CHECK_DEADLOCK FALSE
