------------------------------- MODULE SetsAlg -------------------------------
(* Pointwise semantics of set expressions (C27).  A probe point is a real   *)
(* position (a rational) with a kind: "int", "rat", "irr" (an irrational    *)
(* number located at that position, strictly inside a gap of the grid) or   *)
(* "cplx" (a non-real number).  Mem(S, p) is "T" / "F", or "U" when S       *)
(* contains something the specification does not interpret.                 *)
(* Endpoints and elements are drawn from a grid; every set expression over  *)
(* the grid is constant on each (gap, kind) cell, so agreement on one probe *)
(* of every cell and every grid point is agreement as sets.                 *)
EXTENDS Integers, Sequences, FiniteSets, Rat

Probe(pos, kind) == [pos |-> pos, kind |-> kind]
IsRealP(p) == p.kind # "cplx"

\* endpoint / element terms: Int, Rat, Inf
IsInfT(t) == t.k = "Inf"
InfDir(t) == IF Len(t.a) = 0 THEN t.n ELSE t.a[1].n
NumRat(t) == IF t.k = "Int" THEN <<t.n, 1>> ELSE IF t.k = "Rat" THEN RMk(t.n, t.d) ELSE RU
\* position of p relative to endpoint t: -1 (p below), 0 (equal), 1 (above), 2 unknown
RelTo(p, t) ==
    IF IsInfT(t) THEN (IF InfDir(t) > 0 THEN -1 ELSE IF InfDir(t) < 0 THEN 1 ELSE 2)
    ELSE LET q == NumRat(t)
         IN IF ~RDef(q) THEN 2
            ELSE IF RLess(p.pos, q) THEN -1
            ELSE IF RLess(q, p.pos) THEN 1
            ELSE IF p.kind = "irr" THEN 2      \* (irrational probes never sit on grid values)
            ELSE 0

\* breakpoints of the sets used with the topological operators, and one position inside every gap
TopoGrid == <<<<-2, 1>>, <<-1, 1>>, <<0, 1>>, <<1, 2>>, <<1, 1>>, <<3, 2>>, <<2, 1>>, <<3, 1>>>>
TopoGaps == <<<<-3, 1>>, <<-5, 4>>, <<-1, 4>>, <<1, 4>>, <<3, 4>>, <<5, 4>>, <<7, 4>>, <<9, 4>>, <<7, 2>>>>
B3(b) == IF b THEN "T" ELSE "F"
And3(a, b) == IF a = "F" \/ b = "F" THEN "F" ELSE IF a = "T" /\ b = "T" THEN "T" ELSE "U"
Or3(a, b) == IF a = "T" \/ b = "T" THEN "T" ELSE IF a = "F" /\ b = "F" THEN "F" ELSE "U"
Not3(a) == IF a = "T" THEN "F" ELSE IF a = "F" THEN "T" ELSE "U"

RECURSIVE Mem(_, _), MemAny(_, _, _), MemAll(_, _, _), ElemAny(_, _, _)
MemAny(a, p, i) == IF i > Len(a) THEN "F" ELSE Or3(Mem(a[i], p), MemAny(a, p, i + 1))
MemAll(a, p, i) == IF i > Len(a) THEN "T" ELSE And3(Mem(a[i], p), MemAll(a, p, i + 1))
\* is p one of the listed elements?  (elements: exact real numbers; I for the complex probe)
ElemAny(a, p, i) ==
    IF i > Len(a) THEN "F"
    ELSE LET t == a[i]
             hit == IF t.k \in {"Int", "Rat"} THEN B3(IsRealP(p) /\ p.kind # "irr" /\ NumRat(t) = p.pos)
                    ELSE IF t.k = "Complex" THEN (IF p.kind = "cplx" THEN "U" ELSE "F")
                    ELSE "U"
         IN Or3(hit, ElemAny(a, p, i + 1))

Mem(S, p) ==
    LET k == S.k
    IN CASE k \in {"Interval", "interval"} ->
              IF ~IsRealP(p) THEN "F"
              ELSE LET lo == RelTo(p, S.a[1]) hi == RelTo(p, S.a[2])
                   IN IF lo = 2 \/ hi = 2 THEN "U"
                      ELSE B3((lo = 1 \/ (lo = 0 /\ S.n = 0)) /\ (hi = -1 \/ (hi = 0 /\ S.d = 0)))
         [] k \in {"FiniteSet", "finiteset"} -> ElemAny(S.a, p, 1)
         [] k \in {"Union", "union"} -> MemAny(S.a, p, 1)
         [] k \in {"Intersection", "intersection"} -> MemAll(S.a, p, 1)
         \* Complement(universe, container) = universe \ container;  recipe complement(a, b) = a \ b
         [] k \in {"Complement", "complement"} -> And3(Mem(S.a[1], p), Not3(Mem(S.a[2], p)))
         [] k = "m_union" -> Or3(Mem(S.a[1], p), Mem(S.a[2], p))
         [] k = "m_intersection" -> And3(Mem(S.a[1], p), Mem(S.a[2], p))
         [] k = "m_complement" -> And3(Mem(S.a[2], p), Not3(Mem(S.a[1], p)))    \* a[1]->set_complement(a[2]) = a[2] \ a[1]
         [] k = "EmptySet" -> "F"
         [] k = "UniversalSet" -> "T"
         [] k = "Complexes" -> "T"
         [] k = "Reals" -> B3(IsRealP(p))
         [] k = "Rationals" -> B3(p.kind \in {"int", "rat"})
         [] k = "Integers" -> B3(p.kind = "int")
         [] k = "Naturals" -> B3(p.kind = "int" /\ p.pos[1] > 0)
         [] k = "Naturals0" -> B3(p.kind = "int" /\ p.pos[1] >= 0)
         \* recipes closure / interior / boundary of a set built from intervals and finite sets
         \* over the grid: by definition on the cell decomposition
         [] k \in {"closure", "interior", "boundary"} ->
              IF ~IsRealP(p) THEN "F"
              ELSE LET S0 == S.a[1]
                       gi == IF p.kind = "irr" THEN 0
                             ELSE IF \E i \in 1..Len(TopoGrid) : TopoGrid[i] = p.pos
                                  THEN CHOOSE i \in 1..Len(TopoGrid) : TopoGrid[i] = p.pos ELSE 0
                       cl == IF gi = 0 THEN Mem(S0, p)
                             ELSE Or3(Mem(S0, p), Or3(Mem(S0, Probe(TopoGaps[gi], "rat")), Mem(S0, Probe(TopoGaps[gi + 1], "rat"))))
                       it == IF gi = 0 THEN Mem(S0, p)
                             ELSE And3(Mem(S0, p), And3(Mem(S0, Probe(TopoGaps[gi], "rat")), Mem(S0, Probe(TopoGaps[gi + 1], "rat"))))
                   IN IF k = "closure" THEN cl ELSE IF k = "interior" THEN it ELSE And3(cl, Not3(it))
         [] OTHER -> "U"

\* ---- topology on the cell decomposition (for sets built from intervals and finite sets of
\* grid values only: such a set is constant on every open gap between consecutive grid values)
\* Grid: strictly increasing sequence of rationals; Gaps: a probe position inside each gap,
\* Gaps[i] lies between Grid[i-1] and Grid[i] (Gaps[1] below Grid[1], Gaps[Len+1] above the last)
InGap(S, gaps, i) == Mem(S, Probe(gaps[i], "rat"))
AtGrid(S, grid, i) == Mem(S, Probe(grid[i], IF grid[i][2] = 1 THEN "int" ELSE "rat"))
ClosureAt(S, grid, gaps, i) == Or3(AtGrid(S, grid, i), Or3(InGap(S, gaps, i), InGap(S, gaps, i + 1)))
InteriorAt(S, grid, gaps, i) == And3(AtGrid(S, grid, i), And3(InGap(S, gaps, i), InGap(S, gaps, i + 1)))
=============================================================================
