------------------------------- MODULE MC_C29 -------------------------------
(* Case generation for C29: every ordered pair of real numbers of every     *)
(* kind (exact, floating, infinite) under the six relations, directly and   *)
(* through substitution into symbolic relationals.                          *)
EXTENDS Integers, Sequences, FiniteSets, TLC, Json, IOUtils, SequencesExt, Term

Reals == {
  TInt(-2), TInt(0), TInt(1), TInt(3), TRat(1, 2), TRat(-3, 2), TRat(1, 3), TRat(7, 2),
  TDblZero(1), TDblZero(-1), TDbl(1, 1, -1), TDbl(1, 1, 0), TDbl(-1, 3, -1), TDbl(1, 3, 0),
  TDbl(1, 5, -2), TDbl(-1, 1, 1),
  TInf(1), TInf(-1) }
x == TSym("x")
y == TSym("y")
Rel(r, a, b) == TOp(r, <<a, b>>)
Sub(r, a, b) == TOp("subs", <<TOp(r, <<x, y>>), x, a, y, b>>)
Case(a, b) == [op |-> "ev", a |-> a, b |-> b,
   ts |-> << Rel("Lt", a, b), Rel("Le", a, b), Rel("Gt", a, b), Rel("Ge", a, b),
             Rel("Eq", a, b), Rel("Ne", a, b), Rel("Eq", b, a), Rel("Ne", b, a),
             Sub("Lt", a, b), Sub("Le", a, b), Sub("Gt", a, b), Sub("Ge", a, b),
             Sub("Eq", a, b), Sub("Ne", a, b) >>]
Cases == {Case(a, b) : a \in Reals, b \in Reals}
ASSUME PrintT(<<"cases", Cardinality(Cases)>>)
ASSUME ndJsonSerialize(IOEnv.OUT, SetToSeq(Cases))
VARIABLE dummy
Init == dummy = 0
Next == UNCHANGED dummy
=============================================================================
