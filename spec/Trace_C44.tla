------------------------------ MODULE Trace_C44 ------------------------------
(* C44: the alternative printers are total on what they support and their   *)
(* output is well formed.  Well-formedness is decided by pushdown automata  *)
(* over the token sequences the harness extracts from the output text:      *)
(*   LaTeX   { } nest properly, \left ... \right nest properly, and a       *)
(*           \left...\right pair does not straddle a group boundary         *)
(*   MathML  open / close / self-closing tags nest properly with matching   *)
(*           names and there is exactly one root element                    *)
(* SBML: parse_sbml(sbml(e)) = e on the SBML fragment.                      *)
EXTENDS Integers, Sequences, FiniteSets, TLC, Json, IOUtils
VARIABLES l, bad, dec

RECURSIVE LatexRun(_, _, _), XmlRun(_, _, _, _)
\* stack of open tokens; accept iff the input ends with an empty stack
LatexRun(toks, i, st) ==
    IF i > Len(toks) THEN st = <<>>
    ELSE LET t == toks[i]
         IN IF t \in {"{", "L"} THEN LatexRun(toks, i + 1, Append(st, t))
            ELSE IF st = <<>> THEN FALSE
            ELSE IF (t = "}" /\ st[Len(st)] = "{") \/ (t = "R" /\ st[Len(st)] = "L") THEN LatexRun(toks, i + 1, SubSeq(st, 1, Len(st) - 1))
            ELSE FALSE
\* roots: number of completed top-level elements
XmlRun(tags, i, st, roots) ==
    IF i > Len(tags) THEN st = <<>> /\ roots = 1
    ELSE LET name == tags[i][1] kind == tags[i][2]
         IN IF kind = 9 THEN FALSE
            ELSE IF kind = 1 THEN XmlRun(tags, i + 1, Append(st, name), roots)
            ELSE IF kind = 0 THEN XmlRun(tags, i + 1, st, IF st = <<>> THEN roots + 1 ELSE roots)
            ELSE IF st = <<>> \/ st[Len(st)] # name THEN FALSE
            ELSE XmlRun(tags, i + 1, SubSeq(st, 1, Len(st) - 1), IF Len(st) = 1 THEN roots + 1 ELSE roots)
Unsupported == {"NotImplementedError", "SymEngineException", "-"}
Total(name, p) == IF p.exc = "VerifAssertionError" THEN "bad:" \o name \o ":assertion"
                  ELSE IF p.exc \in Unsupported \/ p.exc = "" THEN "" ELSE "bad:" \o name \o ":exception:" \o p.exc
One(it, frag) ==
    LET rs == << Total("latex", it.latex), Total("mathml", it.mathml), Total("unicode", it.unicode), Total("julia", it.julia), Total("sbml", it.sbml),
                 IF it.latex.exc = "" /\ ~LatexRun(it.latex.toks, 1, <<>>) THEN "bad:latex:unbalanced-groups" ELSE "",
                 IF it.mathml.exc = "" /\ ~XmlRun(it.mathml.tags, 1, <<>>, 0) THEN "bad:mathml:not-well-formed" ELSE "",
                 IF frag = 1 /\ it.sbml.exc # "" THEN "bad:sbml:exception-in-fragment:" \o it.sbml.exc ELSE "",
                 IF frag = 1 /\ it.sbml.exc = "" /\ it.sbml.pexc # "" THEN "bad:sbml:does-not-parse:" \o it.sbml.pexc ELSE "",
                 IF frag = 1 /\ it.sbml.exc = "" /\ it.sbml.pexc = "" /\ it.sbml.eq # 1 THEN "bad:sbml:round-trip-differs" ELSE "" >>
    IN IF \E i \in 1..Len(rs) : rs[i] # "" THEN rs[CHOOSE i \in 1..Len(rs) : rs[i] # "" /\ \A j \in 1..(i - 1) : rs[j] = ""] ELSE "ok"
CheckEv(e) ==
    IF e.r.exc # "" THEN "bad:harness:" \o e.r.exc
    ELSE LET n == Len(e.r.items)
             rs == [i \in 1..n |-> IF e.r.items[i].bexc # "" THEN "unk" ELSE One(e.r.items[i], e.c.sbmlfrag)]
         IN IF \E i \in 1..n : rs[i] \notin {"ok", "unk"} THEN rs[CHOOSE i \in 1..n : rs[i] \notin {"ok", "unk"}]
            ELSE IF \E i \in 1..n : rs[i] = "ok" THEN "ok" ELSE "unk"
Events == ndJsonDeserialize(IOEnv.TRACE)
K == INSTANCE TraceKit WITH Check <- CheckEv, Events <- Events
Init == K!Init
Next == K!Next
Verdict == K!Verdict
=============================================================================
