------------------------------ MODULE Trace_C16 ------------------------------
(* C16: (1) constructions that give equal objects print to the same string; *)
(* (2) parse(str(e)) is equal to e: as an object, or - for expressions      *)
(* holding floating-point numbers, which are printed to 15 significant      *)
(* digits - close in value.                                                 *)
EXTENDS Integers, Sequences, FiniteSets, TLC, Json, IOUtils, Term, Envs, Dbl
VARIABLES l, bad, dec
Env == [s \in {"x", "y", "x1", "_a", "alpha_2"} |-> CASE s = "x" -> VRat(<<3, 2>>) [] s = "y" -> VRat(<<-2, 3>>) [] s = "x1" -> VRat(<<5, 1>>) [] OTHER -> VRat(<<1, 4>>)]
RECURSIVE HasFloat(_), HasFloatSeq(_, _)
HasFloatSeq(a, i) == IF i > Len(a) THEN FALSE ELSE HasFloat(a[i]) \/ HasFloatSeq(a, i + 1)
HasFloat(t) == IF t.k \in {"Dbl", "CDbl"} THEN TRUE ELSE HasFloatSeq(t.a, 1)
\* a double that is infinite or not a number prints as inf / nan, which the parser reads as the symbolic objects: such
\* expressions are outside the parseable fragment
RECURSIVE NonFinite(_), NonFiniteSeq(_, _)
NonFiniteSeq(a, i) == IF i > Len(a) THEN FALSE ELSE NonFinite(a[i]) \/ NonFiniteSeq(a, i + 1)
NonFinite(t) == IF t.k = "Dbl" THEN t.s \notin {"fin", "zero"} ELSE NonFiniteSeq(t.a, 1)
One(r, i) ==
    IF r.excs[i] = "VerifAssertionError" THEN "bad:assertion"
    ELSE IF r.orig[i].k # "Null" /\ NonFinite(r.orig[i]) THEN "unk"
    ELSE IF r.excs[i] # "" THEN (IF r.orig[i].k = "Null" THEN "unk" ELSE "bad:exception:" \o r.excs[i])
    ELSE IF r.back[i] = r.orig[i] THEN (IF r.eqs[i] = 1 THEN "ok" ELSE "bad:eq-false-on-identical-dumps")
    ELSE IF HasFloat(r.orig[i]) THEN (IF Cmp3(Val(r.back[i], Env), Val(r.orig[i], Env)) = "ne" THEN "bad:value(float)" ELSE "unk")
    ELSE IF Cmp3(Val(r.back[i], Env), Val(r.orig[i], Env)) = "ne" THEN "bad:value" ELSE "bad:structure"
CheckEv(e) ==
    IF e.r.exc # "" THEN "bad:harness:" \o e.r.exc
    ELSE LET r == e.r
             n == Len(r.orig)
             rs == [i \in 1..n |-> One(r, i)]
         IN IF \E i \in 1..n : rs[i] \notin {"ok", "unk"} THEN rs[CHOOSE i \in 1..n : rs[i] \notin {"ok", "unk"}]
            ELSE IF \E i, j \in 1..n : r.orig[i] = r.orig[j] /\ r.orig[i].k # "Null" /\ r.strs[i] # r.strs[j] THEN "bad:equal-expressions-print-differently"
            ELSE IF \E i \in 1..n : rs[i] = "ok" THEN "ok" ELSE "unk"
Events == ndJsonDeserialize(IOEnv.TRACE)
K == INSTANCE TraceKit WITH Check <- CheckEv, Events <- Events
Init == K!Init
Next == K!Next
Verdict == K!Verdict
=============================================================================
