INIT Init
NEXT Next
