------------------------------- MODULE MC_C36 -------------------------------
(* Cases for C36: as_numer_denom, as_real_imag, the rewrite_as_* family,    *)
(* expand_as_exp, trig_to_sqrt and conjugate preserve the value.            *)
EXTENDS Integers, Sequences, FiniteSets, TLC, Json, IOUtils, SequencesExt, Randomization, Term

Thorough == "TIER" \in DOMAIN IOEnv /\ IOEnv.TIER = "thorough"
x == TSym("x")
y == TSym("y")
z == TSym("z")
B(k, a, b) == TOp(k, <<a, b>>)
U(k, a) == TOp(k, <<a>>)
Keep(S, n) == IF Thorough \/ Cardinality(S) <= n THEN S ELSE RandomSubset(n, S)
Atoms == {x, y, TInt(2), TRat(1, 2), TInt(-3), TRat(-2, 3)}
\* ---- rational expressions for as_numer_denom
Rat1 == {B("div", a, b) : a \in Atoms, b \in {x, y, TInt(2), TRat(-2, 3)}} \cup {B("pow", a, n) : a \in {x, y, TRat(-2, 3), B("add", x, TInt(1)), B("mul", x, y)}, n \in {TInt(-2), TInt(-1), TInt(2), TRat(1, 2), TRat(-1, 2), TRat(-3, 2), U("neg", y), y}}
Rat2 == {B("add", a, b) : a, b \in Keep(Rat1, 12)} \cup {B("mul", a, b) : a, b \in Keep(Rat1, 12)} \cup {B("div", a, b) : a, b \in Keep(Rat1, 10)}
        \cup {B("pow", B("add", a, b), n) : a, b \in Keep(Rat1, 6), n \in {TInt(-1), TInt(2), TInt(-2), TRat(-1, 2)}}
        \cup {B("add", B("div", TInt(1), x), B("div", TInt(1), y)), B("div", B("add", x, B("div", TInt(1), y)), B("sub", y, B("div", TInt(1), x))),
              B("mul", TRat(2, 3), B("pow", x, TInt(-1))), B("pow", B("div", x, y), TInt(-3)), B("pow", B("div", TInt(2), x), TRat(1, 2)),
              B("mul", TI, B("div", x, y)), B("div", TComplex(TInt(1), TInt(2)), B("add", x, TI)), B("pow", TInt(2), U("neg", x)),
              B("div", U("exp", U("neg", x)), U("sin", y)), B("pow", U("exp", x), TInt(-1))}
NumDen == {[op |-> "ev", chk |-> "numden", envs |-> "pos", ts |-> <<U("numer", e), U("denom", e)>>] : e \in Rat1 \cup Rat2}
\* ---- as_real_imag
\* as_real_imag accepts number expressions only (a symbol makes it throw, pinned by the test-suite)
Cx == {TI, TComplex(TInt(1), TInt(2)), TComplex(TRat(1, 2), TInt(-1)), TComplex(TInt(-3), TInt(4)), TComplex(TInt(0), TInt(-2)), TInt(2), TRat(-1, 2), TInt(-8)}
PiA == {B("mul", TRat(k, 6), TConst("pi")) : k \in {1, 2, 3, -1}} \cup {B("mul", TRat(1, 4), TConst("pi"))}
RI1 == Cx \cup {B("pow", c, n) : c \in Cx, n \in {TInt(2), TInt(3), TInt(-1), TInt(-2), TRat(1, 2), TRat(-1, 2), TRat(2, 3), TRat(1, 3), TRat(-3, 2)}}
       \cup {U("sqrt", TInt(-2)), U("sqrt", TRat(-1, 4)), U("exp", B("mul", TI, TInt(2))), U("exp", TComplex(TInt(1), TInt(1)))}
       \cup {U("exp", B("mul", TI, a)) : a \in PiA} \cup {U("exp", B("add", TInt(1), B("mul", TI, a))) : a \in PiA}
RI2 == {B("mul", a, b) : a, b \in Keep(RI1, 25)} \cup {B("add", a, b) : a, b \in Keep(RI1, 25)} \cup {B("div", a, b) : a, b \in Keep(RI1, 12)}
       \cup {U(f, e) : f \in {"sin", "cos", "tan", "cot", "sec", "csc", "sinh", "cosh", "tanh", "coth", "sech", "csch", "abs", "conjugate", "sqrt"},
                       e \in {B("add", a, B("mul", TI, TInt(n))) : a \in PiA, n \in {1, -2}} \cup {B("add", TInt(n), B("mul", TI, a)) : a \in PiA, n \in {1, -2}} \cup PiA \cup Cx}
       \cup {B("pow", B("add", a, b), n) : a, b \in Keep(RI1, 8), n \in {TInt(2), TInt(-1), TInt(-3), TRat(1, 2)}}
ReIm == {[op |-> "ev", chk |-> "reim", envs |-> "none", ts |-> <<U("real_part", e), U("imag_part", e)>>] : e \in RI1 \cup RI2}
\* ---- rewriting
Trig1 == {"sin", "cos", "tan", "cot", "sec", "csc"}
Hyp1 == {"sinh", "cosh", "tanh", "coth", "sech", "csch"}
Inner == {x, B("mul", TInt(2), x), B("add", x, y), B("div", x, TInt(2)), B("sub", x, B("div", TConst("pi"), TInt(3))), B("mul", TI, x), U("neg", x)}
TrigE == {U(f, u) : f \in Trig1, u \in Inner} \cup {B("mul", U(f, x), U(g, y)) : f, g \in Trig1} \cup {B("add", U(f, x), U(g, x)) : f, g \in Trig1}
         \cup {B("pow", U(f, x), n) : f \in Trig1, n \in {TInt(2), TInt(-1), TRat(1, 2)}} \cup {B("div", U(f, x), U(g, B("mul", TInt(2), x))) : f, g \in Trig1}
HypE == {U(f, u) : f \in Hyp1, u \in Inner} \cup {B("mul", U(f, x), U(g, y)) : f, g \in Hyp1} \cup {B("add", U(f, x), U(g, x)) : f, g \in Hyp1}
        \cup {B("pow", U(f, x), n) : f \in Hyp1, n \in {TInt(2), TInt(-1)}} \cup {B("mul", U(f, x), U(g, x)) : f \in Hyp1, g \in Trig1}
Special == {U(f, a) : f \in Trig1, a \in {B("div", TConst("pi"), TInt(n)) : n \in {1, 2, 3, 4, 5, 6, 8, 10, 12}}
                                        \cup {B("mul", TRat(k, 12), TConst("pi")) : k \in {-7, -5, -1, 5, 7, 11, 13, 17}}
                                        \cup {B("mul", TRat(k, 5), TConst("pi")) : k \in {1, 2, 3, 4}} \cup {B("mul", TRat(k, 8), TConst("pi")) : k \in {1, 3, 5}}}
Rewr == {[op |-> "ev", chk |-> "valdef", envs |-> "angle", ts |-> <<U(k, e)>>] : k \in {"rewrite_as_exp", "rewrite_as_sin", "rewrite_as_cos", "expand_as_exp"}, e \in TrigE}
        \cup {[op |-> "ev", chk |-> "valdef", envs |-> "ints", ts |-> <<U(k, e)>>] : k \in {"rewrite_as_exp", "rewrite_as_sin", "rewrite_as_cos", "expand_as_exp"}, e \in HypE}
        \cup {[op |-> "ev", chk |-> "valdef", envs |-> "none", ts |-> <<U("trig_to_sqrt", e)>>] : e \in Special}
        \cup {[op |-> "ev", chk |-> "valdef", envs |-> "angle", ts |-> <<U("trig_to_sqrt", e)>>] : e \in Keep(TrigE, 40)}
\* ---- conjugate at complex points (arithc has points off the real axis)
ConjE == Rat1 \cup Keep(Rat2, 60) \cup RI1 \cup Keep(RI2, 80)
         \cup {U(f, e) : f \in {"sqrt", "log", "exp", "abs", "sign", "conjugate", "asin", "acos", "atan", "asinh", "atanh", "acosh", "gamma", "erf"}, e \in {x, B("mul", TI, x), B("add", x, TInt(1)), B("pow", x, TInt(2))}}
Conj == {[op |-> "ev", chk |-> "val", envs |-> "arithc", ts |-> <<U("conjugate", e)>>] : e \in ConjE}
        \cup {[op |-> "ev", chk |-> "val", envs |-> "angle", ts |-> <<U("conjugate", e)>>] : e \in Keep(TrigE, 60)}
Cases == NumDen \cup ReIm \cup Rewr \cup Conj
ASSUME PrintT(<<"cases", Cardinality(NumDen), Cardinality(ReIm), Cardinality(Rewr), Cardinality(Conj)>>)
ASSUME ndJsonSerialize(IOEnv.OUT, SetToSeq(Cases))
VARIABLE dummy
Init == dummy = 0
Next == UNCHANGED dummy
=============================================================================
