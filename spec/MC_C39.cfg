INIT Init
NEXT Next
