INIT Init
NEXT Next
CONSTANTS
  IterIds = {1, 2, 3}
  FinMode = "minus1"
INVARIANT Verdict
CHECK_DEADLOCK FALSE
