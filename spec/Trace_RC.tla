------------------------------ MODULE Trace_RC ------------------------------
(* C40 (handle semantics): a recorded history of operations on real         *)
(* RCP<const Basic> handles (construction of a node over given arguments,   *)
(* copy, destruction, assignment from another handle, assignment from a     *)
(* reference to an argument stored inside the pointee) is replayed on the   *)
(* reference-counting state machine of module RC; after every operation the *)
(* recorded use_count of every handle's object must equal the model's       *)
(* count, and the recorded number of live objects (hook H2) the number of   *)
(* live objects of the model.                                               *)
EXTENDS Integers, Sequences, FiniteSets, TLC, Json, IOUtils
VARIABLES l, bad, dec
M == INSTANCE RC WITH MaxObj <- 99, MaxHandles <- 99, Cascade <- TRUE, ReleaseFirst <- FALSE, rc <- 0, kids <- 0, handles <- 0, nextId <- 0
StepM(s, o) ==
    CASE o.op = "new" -> M!NewF(s, o.h, o.ch)
      [] o.op = "dup" -> M!DupF(s, o.h, o.g)
      [] o.op = "drop" -> M!DropF(s, o.h)
      [] o.op = "assign" -> M!AssignF(s, o.h, s.handles[o.g])
      [] o.op = "assignarg" -> M!AssignF(s, o.h, s.kids[s.handles[o.h]][o.g])
\* obs = [live |-> n, counts |-> sequence of <<handle, use_count>>]
Agrees(s, obs) ==
    /\ obs.live = Cardinality(DOMAIN s.rc)
    /\ {obs.counts[i][1] : i \in 1..Len(obs.counts)} = DOMAIN s.handles
    /\ \A i \in 1..Len(obs.counts) : obs.counts[i][2] = s.rc[s.handles[obs.counts[i][1]]]
RECURSIVE Replay(_, _, _, _)
Replay(s, ops, obs, i) ==
    IF i > Len(ops) THEN "ok"
    ELSE LET s2 == StepM(s, ops[i])
         IN IF ~Agrees(s2, obs[i]) THEN "bad:counts-differ-after-op-" \o ToString(i) \o ":" \o ops[i].op
            ELSE Replay(s2, ops, obs, i + 1)
CheckEv(e) ==
    IF e.r.exc = "VerifAssertionError" THEN "bad:assertion"
    ELSE IF e.r.exc # "" THEN "bad:exception:" \o e.r.exc
    ELSE IF Len(e.r.obs) # Len(e.c.ops) THEN "bad:history-not-completed"
    ELSE IF e.r.final # 0 THEN "bad:objects-survive-the-history:" \o ToString(e.r.final)
    ELSE Replay(M!St0, e.c.ops, e.r.obs, 1)
Events == ndJsonDeserialize(IOEnv.TRACE)
K == INSTANCE TraceKit WITH Check <- CheckEv, Events <- Events
Init == K!Init
Next == K!Next
Verdict == K!Verdict
=============================================================================
