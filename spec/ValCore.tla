------------------------------ MODULE ValCore ------------------------------
(* Semantic domain of the specification: values of expressions.            *)
(*   num   a finite complex number, known by its residues m (module ModP)  *)
(*         and, when it is small enough, exactly as                        *)
(*         re + i*im + pi*PI + ip*i*PI with re, im, pi, ip guarded         *)
(*         rationals (all RU when not known);                              *)
(*         fl = 1 marks a value that went through floating point           *)
(*   oo, noo, zoo, nan   extended numbers;   bool   truth values           *)
(*   undef   the specification cannot say (never a reason to reject)       *)
EXTENDS Integers, Sequences, Rat, ModP

VUndef == [t |-> "undef"]
VOO == [t |-> "oo"]
VNOO == [t |-> "noo"]
VZOO == [t |-> "zoo"]
VNAN == [t |-> "nan"]
VBool(b) == [t |-> "bool", b |-> b]
IsNum(v) == v.t = "num"
IsInf(v) == v.t \in {"oo", "noo", "zoo"}

ExM4(re, im, pi, ip) ==
    LET a == IF im = R0 THEN MFromRat(re) ELSE MAdd(MFromRat(re), MMul(MI, MFromRat(im)))
    IN IF pi = R0 /\ ip = R0 THEN a
       ELSE MAdd(a, MMul(CPI, IF ip = R0 THEN MFromRat(pi)
                              ELSE MAdd(MFromRat(pi), MMul(MI, MFromRat(ip)))))
\* ---- monomial (polar) form: some values are also known as
\*   2^(e2/6) * 3^(e3/6) * 5^(e5/6) * 7^(e7/6) * exp(i*pi*t/12),   t in -11..12
\* written <<e2, e3, e5, e7, t>> (e5, e7 multiples of 3: only square roots of 5, 7 have
\* residues).  The principal value of a rational power of such a value is again of this
\* form: modulus to the power, principal argument times the exponent.  NoMono = <<>>.
NoMono == <<>>
NormPhase(t) == LET r == t % 24 IN IF r > 12 THEN r - 24 ELSE r
MonoOK(mo) == /\ mo[3] % 3 = 0 /\ mo[4] % 3 = 0
              /\ \A i \in 1..4 : mo[i] >= -96 /\ mo[i] <= 96
MonoRes(mo) == MMul(MMul(MPowInt(GG2, mo[1]), MPowInt(GG3, mo[2])),
                    MMul(MMul(MPowInt(SS5, mo[3] \div 3), MPowInt(SS7, mo[4] \div 3)), MPowInt(ZZ, mo[5])))
\* monomial form of a non-zero rational with {2,3,5,7}-smooth numerator and denominator
SmoothRest(n) == StripP(StripP(StripP(StripP(n, 2), 3), 5), 7)
RatMono(q) ==
    IF ~RDef(q) \/ q[1] = 0 THEN NoMono
    ELSE LET n == IAbs(q[1]) d == q[2]
         IN IF SmoothRest(n) # 1 \/ SmoothRest(d) # 1 THEN NoMono
            ELSE <<6 * (Vp(n, 2) - Vp(d, 2)), 6 * (Vp(n, 3) - Vp(d, 3)),
                   6 * (Vp(n, 5) - Vp(d, 5)), 6 * (Vp(n, 7) - Vp(d, 7)), IF q[1] < 0 THEN 12 ELSE 0>>
MonoTurn(mo, dt) == IF mo = NoMono THEN NoMono ELSE <<mo[1], mo[2], mo[3], mo[4], NormPhase(mo[5] + dt)>>
MonoMul(a, b) == IF a = NoMono \/ b = NoMono THEN NoMono
                 ELSE <<a[1] + b[1], a[2] + b[2], a[3] + b[3], a[4] + b[4], NormPhase(a[5] + b[5])>>
MonoInv(a) == IF a = NoMono THEN NoMono ELSE <<-a[1], -a[2], -a[3], -a[4], NormPhase(-a[5])>>
\* principal value of (mono)^(k/d); NoMono when an exponent leaves the lattice
MonoPow(a, k, d) ==
    IF a = NoMono THEN NoMono
    ELSE IF \E i \in 1..5 : (a[i] * k) % d # 0 THEN NoMono
    ELSE LET r == <<(a[1] * k) \div d, (a[2] * k) \div d, (a[3] * k) \div d, (a[4] * k) \div d,
                    NormPhase((a[5] * k) \div d)>>
         IN IF MonoOK(r) THEN r ELSE NoMono
\* monomial form of an exact Gaussian rational on an axis or a diagonal
MonoOfExact(re, im, pi, ip) ==
    IF pi # R0 \/ ip # R0 THEN NoMono
    ELSE IF im = R0 THEN RatMono(re)
    ELSE IF re = R0 THEN MonoTurn(RatMono(RAbs(im)), IF im[1] > 0 THEN 6 ELSE -6)
    ELSE IF RAbs(re) = RAbs(im)          \* |re| * sqrt(2) * exp(i*pi*(odd)/4)
         THEN LET b == RatMono(RAbs(re))
              IN IF b = NoMono THEN NoMono
                 ELSE <<b[1] + 3, b[2], b[3], b[4],
                        IF re[1] > 0 THEN (IF im[1] > 0 THEN 3 ELSE -3) ELSE (IF im[1] > 0 THEN 9 ELSE -9)>>
    ELSE NoMono

\* exact constructor: residues derived from the exact part
VEx4(re, im, pi, ip, fl) ==
    IF ~RDef(re) \/ ~RDef(im) \/ ~RDef(pi) \/ ~RDef(ip) THEN VUndef
    ELSE [t |-> "num", re |-> re, im |-> im, pi |-> pi, ip |-> ip,
          m |-> ExM4(re, im, pi, ip), fl |-> fl, mo |-> MonoOfExact(re, im, pi, ip)]
VEx(re, im, pi, fl) == VEx4(re, im, pi, R0, fl)
\* general constructor: exact part dropped when incomplete
VMk4(re, im, pi, ip, m, fl) ==
    IF ~MDef(m) THEN VUndef
    ELSE IF ~RDef(re) \/ ~RDef(im) \/ ~RDef(pi) \/ ~RDef(ip)
         THEN [t |-> "num", re |-> RU, im |-> RU, pi |-> RU, ip |-> RU, m |-> m, fl |-> fl, mo |-> NoMono]
         ELSE [t |-> "num", re |-> re, im |-> im, pi |-> pi, ip |-> ip, m |-> m, fl |-> fl,
               mo |-> MonoOfExact(re, im, pi, ip)]
\* attach a monomial form to a finite value
WithMono(v, mo) == IF v.t = "num" /\ mo # NoMono /\ MonoOK(mo) THEN [v EXCEPT !.mo = mo] ELSE v
\* the value of a monomial form (exact part when it is rational or i times rational)
VFromMono(mo, fl) ==
    IF mo = NoMono \/ ~MonoOK(mo) THEN VUndef
    ELSE LET m == MonoRes(mo)
             rat == \A i \in 1..4 : mo[i] % 6 = 0
             mag == IF rat
                    THEN RMul(RMul(RPowInt(<<2, 1>>, mo[1] \div 6), RPowInt(<<3, 1>>, mo[2] \div 6)),
                              RMul(RPowInt(<<5, 1>>, mo[3] \div 6), RPowInt(<<7, 1>>, mo[4] \div 6)))
                    ELSE RU
             base == CASE ~RDef(mag) -> VMk4(RU, RU, RU, RU, m, fl)
                       [] mo[5] = 0 -> VMk4(mag, R0, R0, R0, m, fl)
                       [] mo[5] = 12 -> VMk4(RNeg(mag), R0, R0, R0, m, fl)
                       [] mo[5] = 6 -> VMk4(R0, mag, R0, R0, m, fl)
                       [] mo[5] = -6 -> VMk4(R0, RNeg(mag), R0, R0, m, fl)
                       [] OTHER -> VMk4(RU, RU, RU, RU, m, fl)
         IN WithMono(base, mo)
VMk(re, im, pi, m, fl) == VMk4(re, im, pi, R0, m, fl)
VRes(m, fl) == VMk4(RU, RU, RU, RU, m, fl)
VRat(q) == VEx(q, R0, R0, 0)
VInt(n) == VRat(RInt(n))
V0 == VInt(0)
V1 == VInt(1)
VI == VEx(R0, R1, R0, 0)
VPi == VEx(R0, R0, R1, 0)
Exact(v) == IsNum(v) /\ RDef(v.re)
ExactRat(v) == Exact(v) /\ v.im = R0 /\ v.pi = R0 /\ v.ip = R0   \* a real rational
ExactGauss(v) == Exact(v) /\ v.pi = R0 /\ v.ip = R0
ExactReal(v) == Exact(v) /\ v.im = R0 /\ v.ip = R0
ExactZero(v) == Exact(v) /\ v.re = R0 /\ v.im = R0 /\ v.pi = R0 /\ v.ip = R0
ExactInt(v) == ExactRat(v) /\ v.re[2] = 1
MaxFl(a, b) == IF a.fl = 1 \/ b.fl = 1 THEN 1 ELSE 0

\* sign of an exact real value re + pi*PI: -1, 0, 1, or 2 when undecided
\* (333/106 < PI < 355/113)
RealSign(v) ==
    IF ~ExactReal(v) THEN 2
    ELSE IF v.pi = R0 THEN RSign(v.re)
    ELSE IF v.re = R0 THEN RSign(v.pi)
    ELSE LET lo == RAdd(v.re, RMul(v.pi, <<333, 106>>))
             hi == RAdd(v.re, RMul(v.pi, <<355, 113>>))
         IN IF ~RDef(lo) \/ ~RDef(hi) THEN 2
            ELSE IF RSign(lo) = RSign(hi) /\ RSign(lo) # 0 THEN RSign(lo) ELSE 2

VNeg(a) ==
    CASE a.t = "num" -> WithMono(VMk4(RNeg(a.re), RNeg(a.im), RNeg(a.pi), RNeg(a.ip), MNeg(a.m), a.fl),
                                 MonoTurn(a.mo, 12))
      [] a.t = "oo" -> VNOO
      [] a.t = "noo" -> VOO
      [] a.t = "zoo" -> VZOO
      [] a.t = "nan" -> VNAN
      [] OTHER -> VUndef

VAdd(a, b) ==
    IF a.t = "undef" \/ b.t = "undef" \/ a.t = "bool" \/ b.t = "bool" THEN VUndef
    ELSE IF a.t = "nan" \/ b.t = "nan" THEN VNAN
    ELSE IF IsNum(a) /\ IsNum(b)
         THEN VMk4(RAdd(a.re, b.re), RAdd(a.im, b.im), RAdd(a.pi, b.pi), RAdd(a.ip, b.ip),
                   MAdd(a.m, b.m), MaxFl(a, b))
    ELSE IF IsNum(a) THEN b                     \* finite + infinity
    ELSE IF IsNum(b) THEN a
    ELSE IF a.t = b.t /\ a.t # "zoo" THEN a    \* oo + oo, -oo + -oo
    ELSE IF {a.t, b.t} = {"oo", "noo"} THEN VNAN
    ELSE VUndef                                 \* combinations with zoo: not specified

VSub(a, b) == VAdd(a, VNeg(b))

\* exact part of a product, RU-triple when not representable
ExMulRe(a, b) == RSub(RMul(a.re, b.re), RMul(a.im, b.im))
ExMulIm(a, b) == RAdd(RMul(a.re, b.im), RMul(a.im, b.re))
\* (g.re + i g.im) * (b.re + i b.im + b.pi PI + b.ip i PI), g Gaussian
GaussScale(g, b, m, fl) ==
    VMk4(ExMulRe(g, b), ExMulIm(g, b),
         RSub(RMul(g.re, b.pi), RMul(g.im, b.ip)),
         RAdd(RMul(g.re, b.ip), RMul(g.im, b.pi)), m, fl)
VMul(a, b) ==
    IF a.t = "undef" \/ b.t = "undef" \/ a.t = "bool" \/ b.t = "bool" THEN VUndef
    ELSE IF a.t = "nan" \/ b.t = "nan" THEN VNAN
    ELSE IF IsNum(a) /\ IsNum(b)
         THEN LET m == MMul(a.m, b.m)
                  fl == MaxFl(a, b)
                  r == IF Exact(a) /\ Exact(b)
                       THEN IF ExactGauss(a) /\ ExactGauss(b)
                            THEN VMk(ExMulRe(a, b), ExMulIm(a, b), R0, m, fl)
                            ELSE IF ExactGauss(a) THEN GaussScale(a, b, m, fl)
                            ELSE IF ExactGauss(b) THEN GaussScale(b, a, m, fl)
                            ELSE VRes(m, fl)
                       ELSE VRes(m, fl)
              IN WithMono(r, MonoMul(a.mo, b.mo))
    ELSE IF IsNum(a) \/ IsNum(b)
         THEN LET f == IF IsNum(a) THEN a ELSE b      \* the finite factor
                  i == IF IsNum(a) THEN b ELSE a      \* the infinity
                  s == RealSign(f)
              IN IF ExactZero(f) THEN VNAN
                 ELSE IF i.t = "zoo" THEN (IF s \in {-1, 1} THEN VZOO ELSE VUndef)
                 ELSE IF s = 1 THEN i
                 ELSE IF s = -1 THEN VNeg(i)
                 ELSE VUndef
    ELSE IF a.t = "zoo" \/ b.t = "zoo" THEN VZOO
    ELSE IF a.t = b.t THEN VOO ELSE VNOO

\* reciprocal
VInv(a) ==
    CASE a.t = "num" ->
           IF ExactZero(a) THEN VZOO
           ELSE IF ExactGauss(a)
                THEN LET nn == RAdd(RMul(a.re, a.re), RMul(a.im, a.im))
                     IN WithMono(VMk(RDiv(a.re, nn), RNeg(RDiv(a.im, nn)), R0, MInv(a.m), a.fl), MonoInv(a.mo))
                ELSE WithMono(VRes(MInv(a.m), a.fl), MonoInv(a.mo))
      [] a.t \in {"oo", "noo", "zoo"} -> V0
      [] a.t = "nan" -> VNAN
      [] OTHER -> VUndef
VDiv(a, b) ==
    IF IsNum(a) /\ IsNum(b) /\ ExactZero(a) /\ ExactZero(b) THEN VNAN
    ELSE VMul(a, VInv(b))

RECURSIVE VPowNat(_, _)
VPowNat(a, k) == IF k = 0 THEN V1
                 ELSE IF k % 2 = 0 THEN LET h == VPowNat(a, k \div 2) IN VMul(h, h)
                 ELSE VMul(a, VPowNat(a, k - 1))
VPowInt(a, k) == IF k >= 0 THEN VPowNat(a, k) ELSE VPowNat(VInv(a), -k)

\* principal value of b^(k/d), d > 1, gcd(k,d) = 1, for an exact rational b
VRootPow(b, k, d) ==
    IF ~ExactRat(b) THEN VUndef
    ELSE IF b.re = R0 THEN (IF k > 0 THEN V0 ELSE VZOO)
    ELSE LET q == b.re
             ab == RAbs(q)
             rt == RRoot(ab, d)                       \* exact root or RU
             m == IF RDef(rt)
                  THEN MMul(MFromRat(RPowInt(rt, k)),
                            IF q[1] > 0 THEN <<1, 1>>
                            ELSE IF 12 % d = 0 THEN MPowInt(ZZ, (12 \div d) * k) ELSE MU)
                  ELSE RatRootPow(q, k, d)
             pw == IF RDef(rt) THEN RPowInt(rt, k) ELSE RU
         IN IF RDef(pw) /\ q[1] > 0 THEN VMk(pw, R0, R0, m, b.fl)
            ELSE IF RDef(pw) /\ d = 2
                 THEN (CASE k % 4 = 1 -> VMk(R0, pw, R0, m, b.fl)
                         [] k % 4 = 3 -> VMk(R0, RNeg(pw), R0, m, b.fl)
                         [] OTHER -> VUndef)
            ELSE VRes(m, b.fl)

\* principal square root of an exact Gaussian rational a + c i (c # 0) that is a perfect square, else VUndef:
\* with r = |b| rational, sqrt(b) = sqrt((r+a)/2) + sign(c) sqrt((r-a)/2) i
GaussSqrt(b) ==
    IF ~(IsNum(b) /\ Exact(b) /\ b.pi = R0 /\ b.ip = R0 /\ b.im # R0) THEN VUndef
    ELSE LET a == b.re
             c == b.im
             r == RRoot(RAdd(RMul(a, a), RMul(c, c)), 2)
         IN IF ~RDef(r) THEN VUndef
            ELSE LET u == RRoot(RMul(RAdd(r, a), <<1, 2>>), 2)
                     v == RRoot(RMul(RSub(r, a), <<1, 2>>), 2)
                 IN IF ~RDef(u) \/ ~RDef(v) THEN VUndef
                    ELSE VEx(u, IF c[1] > 0 THEN v ELSE RNeg(v), R0, b.fl)

\* b^e, principal branch
VPow(b, e) ==
    IF b.t = "undef" \/ e.t = "undef" \/ b.t = "bool" \/ e.t = "bool" THEN VUndef
    ELSE IF b.t = "nan" \/ e.t = "nan" THEN (IF ExactZero(e) THEN VUndef ELSE VNAN)
    ELSE IF IsNum(e) /\ ExactZero(e) THEN (IF IsNum(b) THEN V1 ELSE VUndef)
    ELSE IF IsNum(b) /\ IsNum(e)
         THEN IF ExactRat(e) /\ e.re[2] = 1 THEN VPowInt(b, e.re[1])
              ELSE IF ExactRat(e)
                   THEN LET k == e.re[1] d == e.re[2]
                            gs == IF d = 2 THEN GaussSqrt(b) ELSE VUndef
                            r == IF gs.t = "num" THEN VPowInt(gs, k) ELSE VRootPow(b, k, d)
                            mo == MonoPow(b.mo, k, d)
                        IN IF r.t = "num" THEN WithMono(r, mo)
                           ELSE IF r.t = "undef" /\ mo # NoMono THEN VFromMono(mo, b.fl)
                           ELSE r
              ELSE IF b = V1 THEN V1
              ELSE VUndef
    ELSE IF IsNum(e) /\ ExactRat(e) /\ e.re[2] = 1 /\ ~IsNum(b)
         THEN IF e.re[1] < 0 THEN V0
              ELSE IF b.t = "noo" THEN (IF e.re[1] % 2 = 0 THEN VOO ELSE VNOO)
              ELSE b
    ELSE VUndef

\* ---------------------------------------------------------------- comparison
\* three-valued comparison: "eq", "ne" (certainly different) or "unk"
Cmp3(a, b) ==
    IF a.t = "undef" \/ b.t = "undef" THEN "unk"
    ELSE IF a.t # b.t
         \* a finite value against an infinity / nan / truth value: different.  (A value known
         \* only by residues is finite too: the inverse of a zero residue is undefined here,
         \* so no finite residue is ever produced for an infinite value.)
         THEN "ne"
    ELSE IF a.t = "bool" THEN (IF a.b = b.b THEN "eq" ELSE "ne")
    ELSE IF ~IsNum(a) THEN "eq"
    ELSE IF a.fl = 1 \/ b.fl = 1 THEN "unk"
    ELSE IF a.m # b.m THEN "ne"          \* residues differ: values differ
    ELSE "eq"                             \* (equal residues: no difference seen)
=============================================================================
