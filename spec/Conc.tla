--------------------------------- MODULE Conc ---------------------------------
(* The thread-safe build (C41): several threads use the same immutable object *)
(* at once.  What they share is the intrusive reference count (every copy of  *)
(* an RCP raises it, every destruction lowers it; the object is freed by the  *)
(* thread that lowers it to zero), the lazily cached hash (0 = not computed)  *)
(* and the process-wide counter that numbers Dummy symbols.  With Atomic =    *)
(* TRUE each of these is one indivisible step (std::atomic fetch_add / load / *)
(* store), with Atomic = FALSE the plain read-modify-write of the single-     *)
(* threaded build (two steps), which TLC must refute: a lost update lets the  *)
(* count reach zero while a thread still holds the object.                    *)
(* Every thread runs Rounds times: take a reference, read the hash (compute   *)
(* and store it if unset), draw a Dummy index, drop the reference.            *)
EXTENDS Integers, FiniteSets, Sequences
CONSTANTS Threads, Rounds, Atomic, H       \* H: the hash value of the object (# 0)
VARIABLES rc,       \* reference count of the shared object (the owner outside holds 1)
          hash,     \* cached hash (0: not yet computed)
          cnt,      \* Dummy counter
          pc, round, tmp,    \* per thread: program counter, completed rounds, register of the split read-modify-write
          holds,    \* threads that hold a reference
          seen,     \* hash values returned to the threads
          ids,      \* Dummy indices handed out
          freed     \* the count reached zero
vars == <<rc, hash, cnt, pc, round, tmp, holds, seen, ids, freed>>
Init == /\ rc = 1 /\ hash = 0 /\ cnt = 0 /\ freed = FALSE
        /\ pc = [t \in Threads |-> "acq"] /\ round = [t \in Threads |-> 0] /\ tmp = [t \in Threads |-> 0]
        /\ holds = {} /\ seen = {} /\ ids = <<>>
Goto(t, l) == pc' = [pc EXCEPT ![t] = l]
\* ---- RCP copy: refcount_++
Acq(t) == /\ pc[t] = "acq" /\ round[t] < Rounds
          /\ IF Atomic THEN rc' = rc + 1 /\ holds' = holds \cup {t} /\ Goto(t, "hash") /\ UNCHANGED tmp
             ELSE tmp' = [tmp EXCEPT ![t] = rc] /\ Goto(t, "acq2") /\ UNCHANGED <<rc, holds>>
          /\ UNCHANGED <<hash, cnt, round, seen, ids, freed>>
Acq2(t) == /\ pc[t] = "acq2" /\ rc' = tmp[t] + 1 /\ holds' = holds \cup {t} /\ Goto(t, "hash")
           /\ UNCHANGED <<hash, cnt, round, tmp, seen, ids, freed>>
\* ---- Basic::hash(): if (hash_ == 0) hash_ = __hash__(); return hash_;  (two atomic accesses; the value is a function of the object)
Hash(t) == /\ pc[t] = "hash"
           /\ IF hash = 0 THEN Goto(t, "hash2") /\ UNCHANGED seen ELSE seen' = seen \cup {hash} /\ Goto(t, "dummy")
           /\ UNCHANGED <<rc, hash, cnt, round, tmp, holds, ids, freed>>
Hash2(t) == /\ pc[t] = "hash2" /\ hash' = H /\ seen' = seen \cup {H} /\ Goto(t, "dummy")
            /\ UNCHANGED <<rc, cnt, round, tmp, holds, ids, freed>>
\* ---- Dummy::count_++
Dummy(t) == /\ pc[t] = "dummy"
            /\ IF Atomic THEN cnt' = cnt + 1 /\ ids' = Append(ids, cnt) /\ Goto(t, "rel") /\ UNCHANGED tmp
               ELSE tmp' = [tmp EXCEPT ![t] = cnt] /\ Goto(t, "dummy2") /\ UNCHANGED <<cnt, ids>>
            /\ UNCHANGED <<rc, hash, round, holds, seen, freed>>
Dummy2(t) == /\ pc[t] = "dummy2" /\ cnt' = tmp[t] + 1 /\ ids' = Append(ids, tmp[t]) /\ Goto(t, "rel")
             /\ UNCHANGED <<rc, hash, round, tmp, holds, seen, freed>>
\* ---- RCP destruction: if (--refcount_ == 0) delete
Rel(t) == /\ pc[t] = "rel"
          /\ IF Atomic THEN /\ rc' = rc - 1 /\ freed' = (freed \/ rc - 1 = 0) /\ holds' = holds \ {t}
                            /\ round' = [round EXCEPT ![t] = @ + 1] /\ Goto(t, "acq") /\ UNCHANGED tmp
             ELSE tmp' = [tmp EXCEPT ![t] = rc] /\ Goto(t, "rel2") /\ UNCHANGED <<rc, freed, holds, round>>
          /\ UNCHANGED <<hash, cnt, seen, ids>>
Rel2(t) == /\ pc[t] = "rel2" /\ rc' = tmp[t] - 1 /\ freed' = (freed \/ tmp[t] - 1 = 0) /\ holds' = holds \ {t}
           /\ round' = [round EXCEPT ![t] = @ + 1] /\ Goto(t, "acq")
           /\ UNCHANGED <<hash, cnt, tmp, seen, ids>>
Next == \E t \in Threads : Acq(t) \/ Acq2(t) \/ Hash(t) \/ Hash2(t) \/ Dummy(t) \/ Dummy2(t) \/ Rel(t) \/ Rel2(t)
Spec == Init /\ [][Next]_vars
Done == \A t \in Threads : round[t] = Rounds
\* ---- what a caller relies on (and what the trace specification checks on the real library at quiescence)
NeverFreedWhileShared == ~freed                                   \* the owner's reference is never dropped by the threads
CountCoversHolders == rc >= 1 + Cardinality(holds \cap {t \in Threads : pc[t] \in {"hash", "hash2", "dummy", "dummy2", "rel"}}) \/ ~Atomic
CountsRestored == Done => rc = 1
HashStable == seen \subseteq {H}
DummiesDistinct == \A i, j \in 1..Len(ids) : i # j => ids[i] # ids[j]
AllDummies == Done => Len(ids) = Cardinality(Threads) * Rounds
=============================================================================
