------------------------------ MODULE Trace_C05 ------------------------------
(* C05: exact number arithmetic is correct and normalised.                  *)
EXTENDS Integers, Sequences, FiniteSets, TLC, Json, IOUtils, Num
VARIABLES l, bad, dec

\* one recorded call: c = the case (f, a, b), r = what the library returned
\* through the Number virtuals (v) and the expression-level function (w)
CheckEv(e) ==
    LET A == NVal(e.c.a)
        B == NVal(e.c.b)
        E == NumOp(e.c.f, A, B)
        One(exc, t) == IF exc # "" THEN "bad:exception:" \o exc ELSE AgreeExact(t, E)
        \* the Number-level virtual may decline a combination (NotImplementedError);
        \* the expression-level function may not
        r1 == IF e.r.ve = "NotImplementedError" THEN "unk" ELSE One(e.r.ve, e.r.v)
        r2 == One(e.r.we, e.r.w)
    IN IF e.r.exc # "" THEN "bad:harness:" \o e.r.exc
       ELSE IF r1 \notin {"ok", "unk"} THEN r1
       ELSE IF r2 \notin {"ok", "unk"} THEN r2
       ELSE IF r1 = "ok" /\ r2 = "ok" THEN "ok" ELSE "unk"

Events == ndJsonDeserialize(IOEnv.TRACE)
K == INSTANCE TraceKit WITH Check <- CheckEv, Events <- Events
Init == K!Init
Next == K!Next
Verdict == K!Verdict
=============================================================================
