------------------------------- MODULE MC_C08 -------------------------------
(* Cases for C08: every function constructor of the statement applied to    *)
(* arguments where its automatic evaluation / rewriting applies and where   *)
(* the specification knows the exact value (module Func).                   *)
EXTENDS Integers, Sequences, FiniteSets, TLC, Json, IOUtils, SequencesExt, Term

Thorough == "TIER" \in DOMAIN IOEnv /\ IOEnv.TIER = "thorough"
x == TSym("x")
y == TSym("y")
z == TSym("z")
pi == TConst("pi")
F(k, a) == TOp(k, <<a>>)
F2(k, a, b) == TOp(k, <<a, b>>)
Add(a, b) == TOp("add", <<a, b>>)
Mul(a, b) == TOp("mul", <<a, b>>)
Sqrt(a) == TOp("sqrt", <<a>>)
Neg(a) == TOp("neg", <<a>>)
Case(envs, t) == [op |-> "ev", chk |-> "val", envs |-> envs, ts |-> <<t>>]

KMax == IF Thorough THEN 60 ELSE 26
Shifts == {Mul(TRat(k, 12), pi) : k \in -KMax..KMax}
Residuals == {TInt(0), x, Neg(x), Add(x, y), Mul(TInt(2), x), Add(x, Neg(y))}
TrigArgs == {Add(r, s) : r \in Residuals, s \in Shifts}
            \cup {Mul(TRat(k, 8), pi) : k \in -9..9} \cup {Mul(TRat(k, 5), pi) : k \in -6..6}
Trig == {Case("angle", F(f, a)) : f \in {"sin", "cos", "tan", "cot", "sec", "csc"}, a \in TrigArgs}

S2 == Sqrt(TInt(2))
S3 == Sqrt(TInt(3))
S6 == Sqrt(TInt(6))
HalfOf(a) == Mul(TRat(1, 2), a)
InvVals == LET pos == {TInt(0), TRat(1, 2), TInt(1), HalfOf(S2), HalfOf(S3), S3, TOp("div", <<TInt(1), S3>>), Mul(TRat(1, 3), S3),
                       TInt(2), S2, TOp("div", <<TInt(2), S3>>), Mul(TRat(1, 4), Add(S6, S2)), Mul(TRat(1, 4), Add(S6, Neg(S2))),
                       Add(TInt(2), S3), Add(TInt(2), Neg(S3)), TRat(1, 3), x}
           IN pos \cup {Neg(v) : v \in pos}
InvTrig == {Case("ints", F(f, v)) : f \in {"asin", "acos", "atan", "acot", "asec", "acsc"}, v \in InvVals}
           \cup {Case("none", F2("atan2", TRat(a, 1), TRat(b, 1))) : a \in -2..2, b \in -2..2}
           \cup {Case("none", F2("atan2", a, b)) : a \in {S3, Neg(S3), TInt(1)}, b \in {TInt(1), TInt(-1), S3}}

HypArgs == {TInt(0), TInt(1), TInt(-1), TInt(2), TInt(-3), x, Neg(x), Mul(TInt(2), x), Add(x, y), Neg(Add(x, y))}
Hyp == {Case("ints", F(f, a)) : f \in {"sinh", "cosh", "tanh", "coth", "sech", "csch",
                                      "asinh", "acosh", "atanh", "acoth", "asech", "acsch"}, a \in HypArgs}

IPi == Mul(TI, pi)
ExpLog == {Case("ints", t) : t \in
             {F("exp", a) : a \in {TInt(0), TInt(1), TInt(-2), x, Neg(x), Add(x, TInt(1)), IPi, Mul(TRat(1, 2), IPi), Neg(IPi),
                                   Add(TInt(2), IPi), Add(x, IPi)}}
             \cup {F("exp", Mul(TRat(k, 12), IPi)) : k \in -24..24}
             \cup {F("log", a) : a \in {TInt(1), TConst("E"), TInt(2), TRat(1, 2), TInt(-1), TInt(-2), TInt(12), TRat(8, 9), TRat(-3, 4),
                                   TI, TOp("pow", <<TConst("E"), TInt(3)>>), TOp("exp", <<x>>), x, TInt(0), TRat(25, 7)}}
             \cup {F2("log2", a, b) : a \in {TInt(8), TInt(9), TRat(1, 4), x}, b \in {TInt(2), TInt(3), TRat(1, 2)}}}

NumPool == {TInt(0), TInt(3), TInt(-2), TRat(7, 2), TRat(-7, 2), TRat(-1, 2), TRat(1, 3), TI, TComplex(TInt(1), TInt(1)),
            TComplex(TInt(3), TInt(4)), TComplex(TInt(0), TInt(-2)), TComplex(TRat(-5, 2), TRat(3, 2)),
            pi, Neg(pi), S2, Neg(S2), Add(TInt(1), S2), x, Neg(x), Mul(TInt(2), x), Add(x, TRat(1, 2)), Mul(TI, x),
            TInf(1), TInf(-1), Mul(TInt(3), pi), Add(pi, TInt(-3)), F("abs", x), F("conjugate", x),
            Add(z, TInt(-3)), Add(z, TInt(2)), Add(Neg(z), TInt(1)), Add(Mul(TInt(2), z), TInt(-1)), Add(x, TInt(4))}
Rounding == {Case("ints", F(f, a)) : f \in {"abs", "sign", "floor", "ceiling", "truncate", "conjugate"}, a \in NumPool}
            \cup {Case("arith", F(f, a)) : f \in {"abs", "sign", "conjugate"}, a \in {x, Neg(x), Mul(TI, x), Mul(TInt(-2), x), Mul(x, y)}}

HalfInts == {TRat(k, 2) : k \in -7..9}
GammaLike ==
    {Case("ints", F("gamma", a)) : a \in HalfInts \cup {x, z, Add(x, TInt(1))}}
    \cup {Case("ints", F("loggamma", TInt(n))) : n \in 1..7}
    \cup {Case("ints", F(f, TInt(n))) : f \in {"digamma", "trigamma"}, n \in -1..6}
    \cup {Case("ints", F2("polygamma", TInt(k), TInt(n))) : k \in 0..2, n \in 1..5}
    \cup {Case("ints", F("zeta", TInt(n))) : n \in -8..8}
    \cup {Case("ints", F("dirichlet_eta", TInt(n))) : n \in -5..6}
    \cup {Case("ints", F2("beta", a, b)) : a \in {TInt(1), TInt(2), TInt(3), TRat(1, 2), TRat(3, 2), x}, b \in {TInt(1), TInt(2), TRat(1, 2), TRat(5, 2), y}}
    \cup {Case("ints", F(f, a)) : f \in {"erf", "erfc", "lambertw"}, a \in {TInt(0), x, Neg(x), TInf(1), TInf(-1), TConst("E")}}
    \cup {Case("ints", F2(f, TInt(1), a)) : f \in {"lowergamma", "uppergamma"}, a \in {TInt(1), TInt(2), x}}

MPool == <<TInt(2), TInt(-3), TRat(1, 2), TRat(7, 2), pi, S2, x, y, TInf(1), TInf(-1), Neg(x)>>
MaxMin == {Case("arith", TOp(f, <<MPool[i], MPool[j]>>)) : f \in {"max", "min"}, i \in 1..Len(MPool), j \in 1..Len(MPool)}
          \cup {Case("arith", TOp(f, <<MPool[i], MPool[j], MPool[k]>>)) : f \in {"max", "min"},
                   i \in 1..Len(MPool), j \in 1..Len(MPool), k \in {1, 3, 5, 7, 9}}

Idx == {TInt(1), TInt(2), TInt(3), TInt(0), x, y, Add(x, TInt(1))}
Discrete ==
    {Case("ints", F2("kronecker_delta", a, b)) : a \in Idx, b \in Idx}
    \cup {Case("ints", TOp("levi_civita", <<a, b>>)) : a \in Idx, b \in Idx}
    \cup {Case("ints", TOp("levi_civita", <<a, b, c>>)) : a \in Idx, b \in Idx, c \in {TInt(1), TInt(2), TInt(3), x}}
    \cup {Case("ints", F("primepi", a)) : a \in {TInt(n) : n \in -2..60} \cup {TRat(7, 2), TRat(29, 1), S2, pi, x}}
    \cup {Case("ints", F("primorial", a)) : a \in {TInt(n) : n \in 0..24} \cup {TRat(7, 2), pi}}

\* integer shifts are pulled out of the rounding functions: at arguments that are negative, fractional, and change sign
RoundShift == {Case("xrat", F(f, a)) : f \in {"floor", "ceiling", "truncate"},
                  a \in {Add(x, TInt(1)), Add(x, TInt(-2)), Add(x, TInt(4)), Add(Mul(TInt(2), x), TInt(3)), Add(Add(x, y), TInt(1)), Add(x, TRat(1, 2)),
                         Add(Neg(x), TInt(1)), Add(Mul(TRat(1, 2), x), TInt(-1))}}
Cases == RoundShift \cup Trig \cup InvTrig \cup Hyp \cup ExpLog \cup Rounding \cup GammaLike \cup MaxMin \cup Discrete
ASSUME PrintT(<<"cases", Cardinality(Trig), Cardinality(InvTrig), Cardinality(Hyp), Cardinality(ExpLog),
                Cardinality(Rounding), Cardinality(GammaLike), Cardinality(MaxMin), Cardinality(Discrete)>>)
ASSUME ndJsonSerialize(IOEnv.OUT, SetToSeq(Cases))
VARIABLE dummy
Init == dummy = 0
Next == UNCHANGED dummy
=============================================================================
