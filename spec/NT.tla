---------------------------------- MODULE NT ----------------------------------
(* Number-theoretic functions by their definitions (brute force over small  *)
(* ranges): the oracle of C32.                                              *)
EXTENDS Integers, Sequences, FiniteSets, Rat

NAbs(a) == IF a < 0 THEN -a ELSE a
NSign(a) == IF a < 0 THEN -1 ELSE IF a = 0 THEN 0 ELSE 1
NDivides(d, a) == d # 0 /\ a % NAbs(d) = 0                  \* d | a
NGcd(a, b) == IF a = 0 /\ b = 0 THEN 0
              ELSE CHOOSE g \in 1..(NAbs(a) + NAbs(b)) : NDivides(g, a) /\ NDivides(g, b)
                        /\ \A h \in (g + 1)..(NAbs(a) + NAbs(b)) : ~(NDivides(h, a) /\ NDivides(h, b))
NLcm(a, b) == IF a = 0 \/ b = 0 THEN 0 ELSE (NAbs(a) \div NGcd(a, b)) * NAbs(b)
\* division rounding toward zero / toward minus infinity (b # 0)
QuoT(a, b) == NSign(a) * NSign(b) * (NAbs(a) \div NAbs(b))
ModT(a, b) == a - b * QuoT(a, b)
QuoF(a, b) == IF b > 0 THEN a \div b ELSE (-a) \div (-b)
ModF(a, b) == a - b * QuoF(a, b)
RECURSIVE PowMod(_, _, _)
PowMod(a, e, m) == IF e = 0 THEN 1 % m ELSE ((a % m) * PowMod(a, e - 1, m)) % m          \* e >= 0, m >= 1
IsPrime(n) == n > 1 /\ \A d \in 2..(n - 1) : d * d > n \/ n % d # 0
Primes(n) == {p \in 2..n : IsPrime(p)}
SmallestFactor(n) == CHOOSE p \in 2..n : n % p = 0 /\ \A q \in 2..(p - 1) : n % q # 0      \* n >= 2
RECURSIVE Multiplicity(_, _)
Multiplicity(n, p) == IF n % p # 0 THEN 0 ELSE 1 + Multiplicity(n \div p, p)            \* n >= 1, p >= 2
RECURSIVE FactorSeq(_)
FactorSeq(n) == IF n < 2 THEN <<>> ELSE LET p == SmallestFactor(n) IN <<p>> \o FactorSeq(n \div p)   \* with repetition, ascending
Coprime(a, n) == NGcd(a, n) = 1
Totient(n) == Cardinality({k \in 1..n : Coprime(k, n)})
\* multiplicative order of a modulo n (n >= 1, gcd(a, n) = 1), else 0
Order(a, n) == IF ~Coprime(a, n) THEN 0 ELSE CHOOSE k \in 1..n : PowMod(a, k, n) = 1 % n /\ \A j \in 1..(k - 1) : PowMod(a, j, n) # 1 % n
Carmichael(n) == CHOOSE k \in 1..n : (\A a \in 1..n : Coprime(a, n) => PowMod(a, k, n) = 1 % n)
                       /\ \A j \in 1..(k - 1) : \E a \in 1..n : Coprime(a, n) /\ PowMod(a, j, n) # 1 % n
PrimitiveRoots(n) == {g \in 1..(n - 1) : Coprime(g, n) /\ Order(g, n) = Totient(n)}     \* n >= 2
\* <<F(n), F(n-1)>> for the recurrence F(n) = F(n-1) + F(n-2) from <<F(1), F(0)>> = <<a1, a0>>
RECURSIVE LinRec(_, _, _)
LinRec(n, a1, a0) == IF n = 0 THEN <<a0, a1 - a0>> ELSE IF n = 1 THEN <<a1, a0>> ELSE LET p == LinRec(n - 1, a1, a0) IN <<p[1] + p[2], p[1]>>
Fib(n) == LinRec(n, 1, 0)[1]
Luc(n) == LinRec(n, 1, 2)[1]
RECURSIVE NFact(_), Binom(_, _)
NFact(n) == IF n = 0 THEN 1 ELSE n * NFact(n - 1)
\* generalised binomial coefficient for an integer n and k >= 0: n(n-1)...(n-k+1)/k!  (Pascal's rule)
Binom(n, k) == IF k = 0 THEN 1 ELSE IF n >= 0 /\ k > n THEN 0
               ELSE IF n >= 0 THEN Binom(n - 1, k - 1) + Binom(n - 1, k)
               ELSE (IF k % 2 = 0 THEN 1 ELSE -1) * Binom(k - n - 1, k)
IsSquareMod(a, m) == \E x \in 0..(m - 1) : (x * x) % m = a % m
Legendre(a, p) == IF a % p = 0 THEN 0 ELSE IF IsSquareMod(a, p) THEN 1 ELSE -1          \* p an odd prime
Kron2(a) == IF a % 2 = 0 THEN 0 ELSE IF a % 8 \in {1, 7} THEN 1 ELSE -1
RECURSIVE KronPos(_, _)
KronPos(a, n) == IF n = 1 THEN 1 ELSE LET p == SmallestFactor(n) IN (IF p = 2 THEN Kron2(a) ELSE Legendre(a, p)) * KronPos(a, n \div p)
Kronecker(a, n) == IF n = 0 THEN (IF NAbs(a) = 1 THEN 1 ELSE 0)
                   ELSE IF n < 0 THEN (IF a < 0 THEN -1 ELSE 1) * KronPos(a, -n) ELSE KronPos(a, n)
Jacobi(a, n) == KronPos(a, n)                                                          \* n odd, >= 1
NthRoots(a, n, m) == {x \in 0..(m - 1) : PowMod(x, n, m) = a % m}                       \* n >= 0, m >= 1
Mobius(n) == IF \E p \in 2..n : n % (p * p) = 0 THEN 0 ELSE IF Cardinality({p \in Primes(n) : n % p = 0}) % 2 = 0 THEN 1 ELSE -1
RECURSIVE Mertens(_)
Mertens(n) == IF n = 0 THEN 0 ELSE Mobius(n) + Mertens(n - 1)
NextPrime(n) == CHOOSE p \in (n + 1)..(2 * n + 3) : IsPrime(p) /\ \A q \in (n + 1)..(p - 1) : ~IsPrime(q)
PrimePi(n) == Cardinality(Primes(n))
RECURSIVE Primorial(_)
Primorial(n) == IF n < 2 THEN 1 ELSE (IF IsPrime(n) THEN n ELSE 1) * Primorial(n - 1)
QuadResidues(n) == {(x * x) % n : x \in 0..(n - 1)}
RECURSIVE IPow(_, _)
IPow(b, e) == IF e = 0 THEN 1 ELSE b * IPow(b, e - 1)
\* exponents e >= 2 for which n is a perfect e-th power of some base >= 2 (n >= 2, n < 2^20)
\* b^e when it does not exceed n, else n + 1 (no overflow)
RECURSIVE PowLE(_, _, _)
PowLE(b, e, n) == IF e = 0 THEN 1 ELSE LET q == PowLE(b, e - 1, n) IN IF q > n \div b THEN n + 1 ELSE q * b
PerfectExps(n) == {e \in 2..20 : \E b \in 2..n : b * b <= n /\ PowLE(b, e, n) = n}
BaseOf(n, e) == CHOOSE b \in 1..n : PowLE(b, e, n) = n
Polygonal(s, n) == ((s - 2) * n * n - (s - 4) * n) \div 2
\* Bernoulli numbers (B_1 = -1/2) and harmonic numbers over guarded rationals
RECURSIVE Bern(_), BernSum(_, _)
BernSum(n, k) == IF k >= n THEN R0 ELSE RAdd(RMul(<<Binom(n + 1, k), 1>>, Bern(k)), BernSum(n, k + 1))
Bern(n) == IF n = 0 THEN R1 ELSE RMul(RMk(-1, n + 1), BernSum(n, 0))
HarmM(n, m) == LET H[k \in 0..n] == IF k = 0 THEN R0 ELSE RAdd(H[k - 1], RMk(1, IPow(k, m))) IN H[n]
=============================================================================
