------------------------------ MODULE Trace_C46 ------------------------------
(* C46: homogeneous_lde(A) returns exactly the minimal non-zero non-negative *)
(* integer solutions of A x = 0 (the Hilbert basis), each once.             *)
(* Every returned vector is checked to be a minimal solution directly (no  *)
(* smaller non-zero solution below it).  Completeness is checked against   *)
(* all minimal solutions inside the box [0..c.box]^n, where c.box bounds   *)
(* the components of every minimal solution of the shape: max |a_j| for a  *)
(* single equation (Lambert 1987), (n - r) * D_r with D_r the largest      *)
(* r x r minor for a system of rank r (Domenjoud 1991).  Minimality inside *)
(* the box is global minimality (a smaller solution lies in the box too).  *)
EXTENDS Integers, Sequences, FiniteSets, TLC, Json, IOUtils
VARIABLES l, bad, dec

Dot(A, n, i, x) == LET S[j \in 0..n] == IF j = 0 THEN 0 ELSE S[j - 1] + A[(i - 1) * n + j] * x[j] IN S[n]
Solves(A, m, n, x) == \A i \in 1..m : Dot(A, n, i, x) = 0
Leq(y, x, n) == \A j \in 1..n : y[j] <= x[j]
Abs(v) == IF v < 0 THEN -v ELSE v
Sols(A, m, n, box) == {x \in [1..n -> 0..box] : (\E j \in 1..n : x[j] # 0) /\ Solves(A, m, n, x)}
\* x is a minimal solution: no other non-zero solution below it
MaxC(x, n) == LET M[j \in 0..n] == IF j = 0 THEN 0 ELSE IF x[j] > M[j - 1] THEN x[j] ELSE M[j - 1] IN M[n]
IsMinimal(A, m, n, x) == ~\E y \in [1..n -> 0..MaxC(x, n)] : Leq(y, x, n) /\ y # x /\ (\E j \in 1..n : y[j] # 0) /\ Solves(A, m, n, y)
Minimal(A, m, n, box) == LET S == Sols(A, m, n, box) IN {x \in S : ~\E y \in S : y # x /\ Leq(y, x, n)}

CheckEv(e) ==
    IF e.r.exc # "" THEN "bad:harness:" \o e.r.exc
    ELSE IF e.r.bexc = "VerifAssertionError" THEN "bad:assertion"
    ELSE IF e.r.bexc # "" THEN "bad:exception:" \o e.r.bexc
    ELSE LET m == e.c.rows
             n == e.c.cols
             A == e.c.a
             got == [i \in 1..Len(e.r.basis) |-> [j \in 1..n |-> e.r.basis[i][j].n]]
             gotSet == {got[i] : i \in 1..Len(got)}
             want == Minimal(A, m, n, e.c.box)
         IN IF \E i \in 1..Len(e.r.basis) : Len(e.r.basis[i]) # n \/ \E j \in 1..n : e.r.basis[i][j].k # "Int" THEN "bad:shape"
            ELSE IF \E i \in 1..Len(got) : (\E j \in 1..n : got[i][j] < 0) \/ (\A j \in 1..n : got[i][j] = 0) THEN "bad:not-a-nonzero-nonnegative-vector"
            ELSE IF \E i \in 1..Len(got) : ~Solves(A, m, n, got[i]) THEN "bad:not-a-solution"
            ELSE IF Cardinality(gotSet) # Len(got) THEN "bad:duplicate"
            ELSE IF \E x \in gotSet : ~IsMinimal(A, m, n, x) THEN "bad:not-minimal"
            ELSE IF \E x \in want : x \notin gotSet THEN "bad:missing-minimal-solution"
            ELSE "ok"
Events == ndJsonDeserialize(IOEnv.TRACE)
K == INSTANCE TraceKit WITH Check <- CheckEv, Events <- Events
Init == K!Init
Next == K!Next
Verdict == K!Verdict
=============================================================================
