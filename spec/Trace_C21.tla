------------------------------ MODULE Trace_C21 ------------------------------
(* C21: every operation on univariate polynomials must give the coefficient *)
(* list that schoolbook arithmetic of module Poly gives.                    *)
EXTENDS Poly, TLC, Json, IOUtils
VARIABLES l, bad, dec

CoefOf(t) == IF t.k = "Int" THEN RMk(t.n, 1) ELSE IF t.k = "Rat" THEN RMk(t.n, t.d) ELSE RU
PolyOf(ts) == PTrim([i \in 1..Len(ts) |-> CoefOf(ts[i])])
\* a logged result against the expected polynomial: "" ok, "U" cannot say, else the reason
Cmp(name, res, want) ==
    IF res.exc # "" THEN "bad:" \o name \o ":exception:" \o res.exc
    ELSE LET got == PolyOf(res.c)
         IN IF ~PDef(want) \/ ~PDef(got) THEN "U"
            ELSE IF got # want THEN "bad:" \o name
            \* degree query: the degree of the expected polynomial (0 for the zero polynomial), and the
            \* leading coefficient reported at that degree is not a zero
            ELSE IF res.n # (IF Len(want) = 0 THEN 0 ELSE Len(want) - 1) THEN "bad:" \o name \o ":get_degree"
            ELSE ""
First(rs) == IF \E i \in 1..Len(rs) : rs[i] \notin {"", "U"}
             THEN rs[CHOOSE i \in 1..Len(rs) : rs[i] \notin {"", "U"} /\ \A j \in 1..(i - 1) : rs[j] \in {"", "U"}]
             ELSE IF \E i \in 1..Len(rs) : rs[i] = "" THEN "ok" ELSE "unk"

CheckEv(e) ==
    IF e.r.exc # "" THEN "bad:harness:" \o e.r.exc
    ELSE LET a == PolyOf(e.c.a)
             b == PolyOf(e.c.b)
             r == e.r
             isInt == e.c.kind = "UInt"
             pts == [i \in 1..Len(e.c.pts) |-> CoefOf(e.c.pts[i])]
             evals == [i \in 1..Len(pts) |-> PEval(a, pts[i])]
             dprod == PDivides(b, PMul(a, b))
             dplain == PDivides(b, a)
             intQ(q) == \A i \in 1..Len(q) : RIsInt(q[i])
             \* b | a*b always (b # 0); the logged quotient must be a
             divProd == IF r.div.exc # "" THEN "bad:divides:exception:" \o r.div.exc
                        ELSE IF Len(b) = 0 THEN "U"
                        ELSE IF r.div.prod # 1 THEN "bad:divides:product-not-divisible"
                        ELSE Cmp("divides:quotient", r.div.q, a)
             \* b | a over the coefficient ring: rationals -- exact division; integers -- integral quotient
             divPlain == IF r.div.exc # "" \/ Len(b) = 0 \/ ~PDef(dplain.q) THEN "U"
                         ELSE LET should == dplain.ok /\ (~isInt \/ intQ(dplain.q))
                              IN IF (r.div.plain = 1) # should THEN "bad:divides:decision"
                                 ELSE IF should THEN Cmp("divides:quotient2", r.div.q2, dplain.q) ELSE ""
         IN First(<< Cmp("from_vec", r.a, a), Cmp("add", r.add, PAdd(a, b)), Cmp("sub", r.sub, PSub(a, b)),
                     Cmp("mul", r.mul, PMul(a, b)), Cmp("neg", r.neg, PNeg(a)), Cmp("pow", r.pow, PPow(a, e.c.k)),
                     Cmp("diff", r.diff, PDiff(a)), Cmp("as_symbolic/from_basic", r.rt, a),
                     Cmp("from_basic(product)", r.prodrt, PMul(a, b)),
                     IF r.evale # "" THEN "bad:eval:exception:" \o r.evale
                     ELSE IF \E i \in 1..Len(pts) : RDef(evals[i]) /\ CoefOf(r.eval[i]) # evals[i] /\ RDef(CoefOf(r.eval[i]))
                          THEN "bad:eval" ELSE "",
                     IF r.a.exc = "" /\ r.a.n # (IF Len(a) = 0 THEN 0 ELSE Len(a) - 1) THEN "bad:degree" ELSE "",
                     divProd, divPlain >>)

Events == ndJsonDeserialize(IOEnv.TRACE)
K == INSTANCE TraceKit WITH Check <- CheckEv, Events <- Events
Init == K!Init
Next == K!Next
Verdict == K!Verdict
=============================================================================
