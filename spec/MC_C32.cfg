INIT Init
NEXT Next
