------------------------------ MODULE Trace_C24 ------------------------------
(* C24: dense matrix algebra over exact numbers against exact linear        *)
(* algebra (module Mat): determinants by Laplace expansion, unique RREF,    *)
(* and multiply-back contracts for inverses, solves and factorisations.     *)
EXTENDS Mat, TLC, Json, IOUtils
VARIABLES l, bad, dec

NoE == [q \in {} |-> VUndef]
MOf(res) == MxFromFlat(res.e, res.rows, res.cols, NoE)
\* "" fine / cannot say, else reason.  ok counts decisive sub-checks through the final fold
EqM(name, got, want) == LET c == MxCmp(got, want) IN IF c = "ne" THEN "bad:" \o name ELSE ""
Pick(rs) == IF \E i \in 1..Len(rs) : rs[i] # ""
            THEN rs[CHOOSE i \in 1..Len(rs) : rs[i] # "" /\ \A j \in 1..(i - 1) : rs[j] = ""] ELSE ""
First(rs) == IF Pick(rs) = "" THEN "ok" ELSE Pick(rs)

CheckEv(e) ==
    IF e.r.exc # "" THEN "bad:harness:" \o e.r.exc
    ELSE LET n == e.c.n
             r == e.r
             A == MxFromFlat(e.c.a, n, n, NoE)
             b == MxFromFlat(e.c.b, n, 1, NoE)
             C == MxFromFlat(e.c.c, n, n, NoE)
             Dt == MxDet(A)
             regular == Dt.t = "num" /\ Exact(Dt) /\ ~ExactZero(Dt)
             singular == Dt.t = "num" /\ ExactZero(Dt)
             sym == Symmetric(A)
             \* leading principal minors: algorithms documented "with no pivoting" need them all non-zero
             Lead(k) == MxDet([i \in 1..k |-> [j \in 1..k |-> A[i][j]]])
             pivotFree == \A k \in 1..n : LET d == Lead(k) IN d.t = "num" /\ Exact(d) /\ ~ExactZero(d)
             NoPiv(name, res, reason) == IF reason # "" /\ ~pivotFree /\ res.exc # "VerifAssertionError" /\ (res.exc # "" \/ ~AllFinite(MOf(res))) THEN "bad:" \o name \o ":needs-pivoting(zero leading minor)" ELSE reason
             Q == RatOf(A)
             rational == RDefM(Q)
             Scalar(name, res, want) ==
                 IF res.exc = "VerifAssertionError" THEN "bad:" \o name \o ":assertion"
                 ELSE IF res.exc # "" THEN "bad:" \o name \o ":exception:" \o res.exc
                 ELSE IF Cmp3(Val(res.e[1], NoE), want) = "ne" THEN "bad:" \o name ELSE ""
             \* an inverse: A*B = I when A is regular; no (finite) result may be returned for a singular A
             Inv(name, res) ==
                 IF res.exc = "VerifAssertionError" THEN "bad:" \o name \o ":assertion"
                 ELSE IF res.exc # "" THEN (IF regular THEN "bad:" \o name \o ":exception:" \o res.exc ELSE "")
                 ELSE LET B == MOf(res)
                      IN IF ~AllFinite(B) THEN (IF regular THEN "bad:" \o name \o ":non-finite" ELSE "")
                         ELSE IF singular THEN "bad:" \o name \o ":inverse-of-singular"
                         ELSE IF regular THEN EqM(name, MxMul(A, B), MxId(n)) ELSE ""
             \* a solve: A*x = b for regular A.  needsPivotFree: algorithms without pivoting may give up
             Solve(name, res, mayFail) ==
                 IF res.exc = "VerifAssertionError" THEN "bad:" \o name \o ":assertion"
                 ELSE IF res.exc # "" THEN (IF regular /\ ~mayFail THEN "bad:" \o name \o ":exception:" \o res.exc ELSE "")
                 ELSE LET x == MOf(res)
                      IN IF ~AllFinite(x) THEN (IF regular /\ ~mayFail THEN "bad:" \o name \o ":non-finite" ELSE "")
                         ELSE IF regular THEN EqM(name, MxMul(A, x), b) ELSE ""
             luOK == IF r.lu_e # "" \/ ~AllFinite(MOf(r.lu_l)) \/ ~AllFinite(MOf(r.lu_u)) THEN ""
                     ELSE LET L == MOf(r.lu_l) U == MOf(r.lu_u)
                          IN IF ~(Lower(L) /\ UnitDiag(L)) THEN "bad:LU:L-not-unit-lower"
                             ELSE IF ~Upper(U) THEN "bad:LU:U-not-upper" ELSE EqM("LU:product", MxMul(L, U), A)
             ldlOK == IF ~sym \/ r.ldl_e # "" \/ ~AllFinite(MOf(r.ldl_l)) \/ ~AllFinite(MOf(r.ldl_d)) THEN ""
                      ELSE LET L == MOf(r.ldl_l) Dg == MOf(r.ldl_d)
                           IN IF ~(Lower(L) /\ UnitDiag(L)) THEN "bad:LDL:L-not-unit-lower"
                              ELSE IF ~Diagonal(Dg) THEN "bad:LDL:D-not-diagonal"
                              ELSE EqM("LDL:product", MxMul(MxMul(L, Dg), MxTr(L)), A)
             qrOK == IF ~regular \/ r.qr_e # "" \/ ~AllFinite(MOf(r.qr_q)) \/ ~AllFinite(MOf(r.qr_r)) THEN ""
                     ELSE LET Qm == MOf(r.qr_q) R == MOf(r.qr_r)
                          IN IF ~Upper(R) THEN "bad:QR:R-not-upper"
                             ELSE Pick(<<EqM("QR:product", MxMul(Qm, R), A), EqM("QR:orthonormal", MxMul(MxTr(Qm), Qm), MxId(n))>>)
             cholOK == IF ~sym \/ r.chol.exc # "" \/ ~AllFinite(MOf(r.chol)) THEN ""
                       ELSE LET L == MOf(r.chol) IN IF ~Lower(L) THEN "bad:cholesky:not-lower"
                                                    ELSE EqM("cholesky:product", MxMul(L, MxTr(L)), A)
             rrefOK == IF ~rational THEN "" ELSE IF r.rref.exc # "" THEN "bad:rref:exception:" \o r.rref.exc
                       ELSE LET want == Rref(Q)
                            IN IF ~RDefM(want) THEN ""
                               ELSE EqM("rref", MOf(r.rref), [i \in 1..n |-> [j \in 1..n |-> VRat(want[i][j])]])
             rrefNlOK == IF ~rational THEN "" ELSE IF r.rref_nl.exc # "" THEN "bad:rref(normalize_last):exception:" \o r.rref_nl.exc
                       ELSE LET want == Rref(Q)
                            IN IF ~RDefM(want) THEN ""
                               ELSE EqM("rref(normalize_last)", MOf(r.rref_nl), [i \in 1..n |-> [j \in 1..n |-> VRat(want[i][j])]])
             rankNlOK == IF ~rational \/ ~RDefM(Rref(Q)) THEN ""
                       ELSE Scalar("rank(normalize_last)", r.rank_nl, VInt(RankOf(Rref(Q))))
             \* fraction-free LDU: L unit-free lower, D diagonal, U upper with A = L * D^-1 * U
             ffldu(L, Dg, U) == IF ~Lower(L) THEN "bad:fraction_free_LDU:L-not-lower"
                                ELSE IF ~Upper(U) THEN "bad:fraction_free_LDU:U-not-upper"
                                ELSE IF ~Diagonal(Dg) THEN "bad:fraction_free_LDU:D-not-diagonal"
                                ELSE LET Di == [i \in 1..n |-> [j \in 1..n |-> IF i = j THEN VDiv(V1, Dg[i][i]) ELSE V0]]
                                     IN IF ~AllFinite(Di) THEN "" ELSE EqM("fraction_free_LDU:product", MxMul(MxMul(L, Di), U), A)
             fflduOK == IF r.ffldu_e # "" \/ ~AllFinite(MOf(r.ffldu_l)) \/ ~AllFinite(MOf(r.ffldu_d)) \/ ~AllFinite(MOf(r.ffldu_u)) THEN ""
                        ELSE ffldu(MOf(r.ffldu_l), MOf(r.ffldu_d), MOf(r.ffldu_u))
             \* rectangular companion matrix (when present): rref, rank, transpose, Gram product, sum
             rectOK == IF "d" \notin DOMAIN e.c THEN ""
                       ELSE LET dr == e.c.dr dc == e.c.dc
                                Dm == MxFromFlat(e.c.d, dr, dc, NoE)
                                Dq == RatOf(Dm)
                                want == Rref(Dq)
                            IN Pick(<< IF r.d_rref.exc # "" THEN "bad:rref(rect):exception:" \o r.d_rref.exc
                                        ELSE IF ~RDefM(Dq) \/ ~RDefM(want) THEN ""
                                        ELSE EqM("rref(rect)", MOf(r.d_rref), [i \in 1..dr |-> [j \in 1..dc |-> VRat(want[i][j])]]),
                                        IF ~RDefM(Dq) \/ ~RDefM(want) THEN "" ELSE Scalar("rank(rect)", r.d_rank, VInt(RankOf(want))),
                                        IF r.d_transpose.exc # "" THEN "bad:transpose(rect):exception" ELSE EqM("transpose(rect)", MOf(r.d_transpose), MxTr(Dm)),
                                        IF r.d_gram.exc # "" THEN "bad:mul(rect):exception" ELSE EqM("mul(rect)", MOf(r.d_gram), MxMul(Dm, MxTr(Dm))),
                                        IF r.d_add.exc # "" THEN "bad:add(rect):exception" ELSE EqM("add(rect)", MOf(r.d_add), MxAdd(Dm, Dm)) >>)
             rankOK == IF ~rational \/ ~RDefM(Rref(Q)) THEN ""
                       ELSE Scalar("rank", r.rank, VInt(RankOf(Rref(Q))))
             \* characteristic polynomial: sum c_i x^(n-i) = det(x I - A) at n+2 points
             cpOK == IF r.charpoly.exc # "" THEN "bad:char_poly:exception:" \o r.charpoly.exc
                     ELSE LET cs == MOf(r.charpoly)
                              at(x) == LET xv == VInt(x)
                                           lhs == LET F[i \in 0..(n + 1)] == IF i = 0 THEN V0 ELSE VAdd(VMul(F[i - 1], xv), cs[i][1]) IN F[n + 1]
                                       IN Cmp3(lhs, MxDet(MxAdd(MxScale(xv, MxId(n)), MxScale(VInt(-1), A))))
                          IN IF MxRows(cs) # n + 1 THEN "bad:char_poly:size"
                             ELSE IF \E x \in -1..(n + 1) : at(x) = "ne" THEN "bad:char_poly" ELSE ""
             rowOK == IF n < 2 \/ r.rowops.exc # "" THEN ""
                      ELSE LET s1 == SwapRows(A, 1, n)
                               s2 == [s1 EXCEPT ![1] = [j \in 1..n |-> VAdd(s1[1][j], VMul(VInt(2), s1[2][j]))]]
                               s3 == [s2 EXCEPT ![n] = [j \in 1..n |-> VMul(VInt(-3), s2[n][j])]]
                               s4 == [i \in 1..n |-> [j \in 1..n |-> s3[i][IF j = 1 THEN 2 ELSE IF j = 2 THEN 1 ELSE j]]]
                           IN EqM("row/column operations", MOf(r.rowops), s4)
         IN First(<< Scalar("det", r.det, Dt),
                     Scalar("det_bareis", r.det_bareis, Dt),
                     Scalar("det_berkowitz", r.det_berkowitz, Dt),
                     Inv("inv", r.inv),
                     Inv("inverse_pivoted_LU", r.inv_plu),
                     Inv("inverse_gauss_jordan", r.inv_gj),
                     Solve("fraction_free_gauss_jordan_solve", r.solve_ffgj, FALSE),
                     Solve("pivoted_LU_solve", r.solve_plu, FALSE),
                     luOK,
                     ldlOK,
                     fflduOK,
                     qrOK,
                     cholOK,
                     rrefOK,
                     rrefNlOK,
                     rankOK,
                     rankNlOK,
                     rectOK,
                     cpOK,
                     IF r.transpose.exc # "" THEN "bad:transpose:exception" ELSE EqM("transpose", MOf(r.transpose), MxTr(A)),
                     IF r.mul.exc # "" THEN "bad:mul:exception" ELSE EqM("mul", MOf(r.mul), MxMul(A, C)),
                     IF r.add.exc # "" THEN "bad:add:exception" ELSE EqM("add", MOf(r.add), MxAdd(A, C)),
                     rowOK,
                     NoPiv("inverse_fraction_free_LU", r.inv_fflu, Inv("inverse_fraction_free_LU", r.inv_fflu)),
                     NoPiv("inverse_LU", r.inv_lu, Inv("inverse_LU", r.inv_lu)),
                     NoPiv("fraction_free_LU_solve", r.solve_fflu, Solve("fraction_free_LU_solve", r.solve_fflu, FALSE)),
                     NoPiv("fraction_free_gaussian_elimination_solve", r.solve_ffge, Solve("fraction_free_gaussian_elimination_solve", r.solve_ffge, FALSE)),
                     NoPiv("LU_solve", r.solve_lu, Solve("LU_solve", r.solve_lu, FALSE)),
                     IF sym THEN NoPiv("LDL_solve", r.solve_ldl, Solve("LDL_solve", r.solve_ldl, FALSE)) ELSE "" >>)

Events == ndJsonDeserialize(IOEnv.TRACE)
K == INSTANCE TraceKit WITH Check <- CheckEv, Events <- Events
Init == K!Init
Next == K!Next
Verdict == K!Verdict
=============================================================================
