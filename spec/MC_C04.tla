------------------------------- MODULE MC_C04 -------------------------------
(* Cases for C04: a multiset of exact operands combined in every order and  *)
(* grouping, pairwise and with the n-ary entry point; all variants must be  *)
(* one and the same canonical object.                                       *)
EXTENDS Integers, Sequences, FiniteSets, TLC, Json, IOUtils, SequencesExt, Randomization, Term

Thorough == "TIER" \in DOMAIN IOEnv /\ IOEnv.TIER = "thorough"
x == TSym("x")
y == TSym("y")
P(b, e) == TOp("pow", <<b, e>>)
AtomSeq == << TInt(2), TInt(-3), TRat(1, 2), TRat(-2, 3), TI, TComplex(TInt(1), TInt(2)),
              x, y, TConst("pi"), P(x, TInt(2)), P(x, TRat(1, 2)), P(x, TInt(-1)),
              P(TInt(2), TRat(1, 2)), P(TInt(2), TRat(1, 3)), P(TInt(3), TRat(1, 2)), P(TInt(6), TRat(1, 2)),
              P(TInt(8), TRat(1, 2)), P(TInt(12), TRat(1, 3)), TOp("sin", <<x>>), TOp("mul", <<x, y>>),
              TOp("mul", <<TInt(2), x>>), TOp("add", <<x, TInt(1)>>), P(TOp("add", <<x, TInt(1)>>), TInt(2)),
              TOp("mul", <<TI, x>>), TOp("neg", <<x>>), P(y, x), TOp("neg", <<P(TInt(2), TRat(1, 2))>>),
              TOp("mul", <<TRat(1, 2), P(x, TInt(2))>>) >>
N == Len(AtomSeq)
Perms3(a, b, c) == {<<a, b, c>>, <<a, c, b>>, <<b, a, c>>, <<b, c, a>>, <<c, a, b>>, <<c, b, a>>}
Bin(k, a, b) == TOp(k, <<a, b>>)
\* variants for an operation with binary name k and n-ary name kv
Var2(k, kv, a, b) == <<Bin(k, a, b), Bin(k, b, a), TOp(kv, <<a, b>>), TOp(kv, <<b, a>>)>>
Var3(k, kv, a, b, c) ==
    LET ps == SetToSeq(Perms3(a, b, c))
    IN [i \in 1..(3 * Len(ps)) |->
          LET p == ps[((i - 1) \div 3) + 1]
          IN CASE (i - 1) % 3 = 0 -> Bin(k, Bin(k, p[1], p[2]), p[3])
               [] (i - 1) % 3 = 1 -> Bin(k, p[1], Bin(k, p[2], p[3]))
               [] OTHER -> TOp(kv, p)]
Pairs == {<<i, j>> : i \in 1..N, j \in 1..N}
Triples == {t \in (1..N) \X (1..N) \X (1..N) : t[1] <= t[2] /\ t[2] <= t[3]}
NT == IF Thorough THEN 2600 ELSE 450
SomeTriples == RandomSubset(IF NT < Cardinality(Triples) THEN NT ELSE Cardinality(Triples), Triples)
Case(ts) == [op |-> "ev", chk |-> "val1+same", envs |-> "arith", ts |-> ts]
ArithCases ==
    {Case(Var2(k[1], k[2], AtomSeq[p[1]], AtomSeq[p[2]])) : p \in {q \in Pairs : q[1] <= q[2]}, k \in {<<"add", "addv">>, <<"mul", "mulv">>}}
    \cup {Case(Var3(k[1], k[2], AtomSeq[t[1]], AtomSeq[t[2]], AtomSeq[t[3]])) : t \in SomeTriples, k \in {<<"add", "addv">>, <<"mul", "mulv">>}}

\* max / min over numbers and symbols
MSeq == << TInt(2), TInt(-3), TRat(1, 2), TRat(7, 2), x, y, TConst("pi"), P(TInt(2), TRat(1, 2)), TInf(1), TInf(-1), TOp("mul", <<TInt(2), x>>) >>
MN == Len(MSeq)
MaxVar(k, a, b, c) ==
    LET ps == SetToSeq(Perms3(a, b, c))
    IN [i \in 1..(3 * Len(ps)) |->
          LET p == ps[((i - 1) \div 3) + 1]
          IN CASE (i - 1) % 3 = 0 -> TOp(k, <<TOp(k, <<p[1], p[2]>>), p[3]>>)
               [] (i - 1) % 3 = 1 -> TOp(k, <<p[1], TOp(k, <<p[2], p[3]>>)>>)
               [] OTHER -> TOp(k, p)]
MTriples == {t \in (1..MN) \X (1..MN) \X (1..MN) : t[1] <= t[2] /\ t[2] <= t[3]}
MaxCases == {[op |-> "ev", chk |-> "same", envs |-> "arith", ts |-> MaxVar(k, MSeq[t[1]], MSeq[t[2]], MSeq[t[3]])]
             : t \in MTriples, k \in {"max", "min"}}

\* and / or over relational atoms
LSeq == << TOp("Lt", <<x, TInt(1)>>), TOp("Le", <<y, TInt(2)>>), TOp("Eq", <<x, y>>), TOp("Ne", <<x, TInt(0)>>),
           TOp("Gt", <<x, y>>), TOp("not", <<TOp("Lt", <<x, TInt(1)>>)>>), T("True", <<>>, "", 0, 0), T("False", <<>>, "", 0, 0),
           TOp("contains", <<x, T("interval", <<TInt(0), TInt(1)>>, "", 0, 0)>>) >>
LN == Len(LSeq)
LTriples == {t \in (1..LN) \X (1..LN) \X (1..LN) : t[1] <= t[2] /\ t[2] <= t[3]}
LogicCases == {[op |-> "ev", chk |-> "same", envs |-> "arith", ts |-> MaxVar(k, LSeq[t[1]], LSeq[t[2]], LSeq[t[3]])]
               : t \in LTriples, k \in {"and", "or"}}

Cases == ArithCases \cup MaxCases \cup LogicCases
ASSUME PrintT(<<"cases", Cardinality(ArithCases), Cardinality(MaxCases), Cardinality(LogicCases)>>)
ASSUME ndJsonSerialize(IOEnv.OUT, SetToSeq(Cases))
VARIABLE dummy
Init == dummy = 0
Next == UNCHANGED dummy
=============================================================================
