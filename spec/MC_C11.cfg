INIT Init
NEXT Next
