------------------------------- MODULE MC_C11 -------------------------------
(* Cases for C11: substitution into expressions.  For every expression of   *)
(* the pool and every substitution map: subs / xreplace / msubs / ssubs,    *)
(* with and without the cache; substitution of an absent symbol; identity.  *)
EXTENDS Integers, Sequences, FiniteSets, TLC, Json, IOUtils, SequencesExt, Randomization, Term

Thorough == "TIER" \in DOMAIN IOEnv /\ IOEnv.TIER = "thorough"
x == TSym("x")
y == TSym("y")
z == TSym("z")
w == TSym("w")
B(k, a, b) == TOp(k, <<a, b>>)
U(k, a) == TOp(k, <<a>>)
Exprs == { x, B("add", x, y), B("mul", TInt(2), x), B("pow", x, TInt(2)), B("pow", x, TRat(1, 2)), B("pow", x, y),
           B("pow", TInt(2), x), B("div", TInt(1), x), B("div", x, y), B("add", B("mul", x, y), B("pow", x, TInt(3))),
           U("sin", x), U("cos", B("add", x, y)), U("exp", x), U("log", x), U("abs", x), U("sign", x), U("floor", x),
           U("sqrt", B("add", x, TInt(1))), B("mul", U("sin", x), U("cos", x)), B("pow", B("add", x, TInt(1)), TInt(-2)),
           B("Lt", x, y), B("Le", x, TInt(1)), B("Eq", x, y), U("gamma", x), B("atan2", x, y), TOp("max", <<x, y, TInt(1)>>),
           B("add", B("pow", B("pow", x, TInt(2)), TRat(1, 2)), x), B("mul", B("pow", x, TRat(1, 2)), B("pow", y, TRat(1, 2))),
           B("pow", B("mul", x, y), TRat(1, 2)), TOp("add", <<x, y, z>>), B("mul", TI, x), U("conjugate", x),
           TFn("f", <<x>>), TFn("g", <<x, y>>), B("add", TFn("f", <<x>>), x), B("kronecker_delta", x, y) }
Vals == { TInt(2), TInt(-3), TRat(1, 2), TInt(0), TI, TConst("pi"), y, z, B("add", x, TInt(1)), B("mul", TInt(2), y),
          B("pow", y, TInt(2)), U("sin", y), B("add", y, z), TInt(4), TRat(-1, 4), B("mul", TRat(1, 3), TConst("pi")) }
Sub(k, e, m, cache) == T(k, <<e>> \o m, "", cache, 0)
Maps1 == {<<x, v>> : v \in Vals}
Maps2 == {<<x, v1, y, v2>> : v1 \in {TInt(2), y, TRat(1, 2), B("add", y, TInt(1)), TInt(-3)}, v2 \in {TInt(3), x, z, TInt(-2), B("mul", TInt(2), x)}}
Maps == Maps1 \cup Maps2
ValCases == {[op |-> "ev", chk |-> "val+same", envs |-> "arith",
              ts |-> <<Sub("subs", e, m, 1), Sub("subs", e, m, 0)>>] : e \in Exprs, m \in Maps}
            \cup {[op |-> "ev", chk |-> "val+same", envs |-> "arith",
              ts |-> <<Sub(k, e, m, 1), Sub(k, e, m, 0)>>] : k \in {"xreplace", "msubs", "ssubs"}, e \in Exprs, m \in RandomSubset(8, Maps)}
\* a symbol that does not occur, and the identity map: the result is the input itself
SameCases == {[op |-> "ev", chk |-> "same", envs |-> "arith",
               ts |-> <<e, Sub(k, e, <<w, TInt(5)>>, c), Sub(k, e, <<x, x>>, c), Sub(k, e, <<x, x, y, y>>, c)>>]
              : k \in {"subs", "xreplace", "msubs", "ssubs"}, e \in Exprs, c \in {0, 1}}
Cases == ValCases \cup SameCases
ASSUME PrintT(<<"cases", Cardinality(ValCases), Cardinality(SameCases)>>)
ASSUME ndJsonSerialize(IOEnv.OUT, SetToSeq(Cases))
VARIABLE dummy
Init == dummy = 0
Next == UNCHANGED dummy
=============================================================================
