------------------------------- MODULE MC_C09 -------------------------------
(* Cases for C09: sums, products and integer powers over symbols, an        *)
(* opaque function application and exact coefficients; expand(e) and        *)
(* expand(expand(e)); pairs of recipes that are equal as polynomials.       *)
EXTENDS Integers, Sequences, FiniteSets, TLC, Json, IOUtils, SequencesExt, Randomization, Term

Thorough == "TIER" \in DOMAIN IOEnv /\ IOEnv.TIER = "thorough"
x == TSym("x")
y == TSym("y")
z == TSym("z")
fx == TFn("f", <<x>>)
Add(a, b) == TOp("add", <<a, b>>)
Mul(a, b) == TOp("mul", <<a, b>>)
Pow(a, n) == TOp("pow", <<a, TInt(n)>>)
Ex(e) == TOp("expand", <<e>>)
Leaves == {x, y, z, fx, TInt(1), TInt(2), TInt(-3), TRat(1, 2), TI, TOp("sin", <<Add(x, y)>>), TOp("pow", <<x, TRat(1, 2)>>)}
Sums == {Add(a, b) : a \in {x, y, fx, Mul(TInt(2), x), Mul(TI, y), Pow(x, 2)}, b \in {y, z, TInt(1), TInt(-3), TRat(1, 2), Mul(TInt(-1), z)}}
       \cup {TOp("add", <<x, y, z>>), TOp("add", <<x, TInt(1), Mul(TRat(1, 2), y)>>)}
Powers == {Pow(s, n) : s \in Sums, n \in {2, 3, -1, -2}} \cup {Pow(s, 4) : s \in RandomSubset(6, Sums)}
L2 == {Mul(a, b) : a \in Sums, b \in Sums \cup {x, TInt(2), TI, fx}}
      \cup {Mul(a, b) : a \in Powers, b \in RandomSubset(8, Sums) \cup {x, TRat(1, 2)}}
      \cup Powers
S2 == RandomSubset(IF Thorough THEN 400 ELSE 90, L2)
L3 == {Mul(a, b) : a \in S2, b \in RandomSubset(6, Sums)}
      \cup {Add(a, b) : a \in S2, b \in RandomSubset(6, L2)}
      \cup {Pow(a, n) : a \in RandomSubset(IF Thorough THEN 60 ELSE 25, L2), n \in {2, -1}}
      \cup {TOp("mul", <<a, b, c>>) : a \in RandomSubset(5, Sums), b \in RandomSubset(5, Sums), c \in RandomSubset(4, Sums)}
      \cup {TOp("sin", <<Mul(a, b)>>) : a \in RandomSubset(3, Sums), b \in RandomSubset(3, Sums)}
\* every power of a sum again in the contexts in which expand() meets it with a pending outer
\* coefficient: as an addend with a coefficient, as a difference of two powers, as a factor
Cs == {TInt(-1), TInt(2), TInt(-3), TRat(2, 3), TI}
PowN == {Pow(s, n) : s \in Sums, n \in {2, 3, 4}}
NCtx == IF Thorough THEN 900 ELSE 260
Contexts == {Add(a, Mul(c, p)) : a \in {x, TInt(1), Pow(x, 3)}, c \in Cs, p \in RandomSubset(NCtx \div 4, PowN)}
            \cup {TOp("sub", <<p, q>>) : p \in RandomSubset(18, PowN), q \in RandomSubset(12, PowN)}
            \cup {Mul(c, p) : c \in Cs, p \in RandomSubset(NCtx \div 8, PowN)}
            \cup {TOp("add", <<Mul(c, p), Mul(d, q), y>>) : c \in {TInt(2), TRat(-1, 2)}, d \in {TInt(-1), TI},
                     p \in RandomSubset(8, PowN), q \in RandomSubset(6, PowN)}
Recipes == Sums \cup L2 \cup L3 \cup Contexts
Single == {[op |-> "ev", chk |-> "expand", envs |-> "arith", ts |-> <<Ex(e), Ex(Ex(e))>>] : e \in Recipes}

\* pairs equal as polynomials: reordered factors / terms and textbook identities
A3 == RandomSubset(IF Thorough THEN 40 ELSE 14, Sums)
Pairs ==
    {<<Mul(a, b), Mul(b, a)>> : a \in A3, b \in A3}
    \cup {<<Mul(Add(a, b), c), Add(Mul(a, c), Mul(b, c))>> : a \in {x, fx, Mul(TInt(2), y)}, b \in {y, TInt(1), z}, c \in A3}
    \cup {<<Pow(Add(a, b), 2), TOp("add", <<Pow(a, 2), TOp("mul", <<TInt(2), a, b>>), Pow(b, 2)>>)>> : a \in {x, fx, Mul(TInt(3), x)}, b \in {y, TInt(1), TRat(1, 2), TI}}
    \cup {<<Mul(Add(a, b), Add(a, Mul(TInt(-1), b))), Add(Pow(a, 2), Mul(TInt(-1), Pow(b, 2)))>> : a \in {x, Mul(TInt(2), x), fx}, b \in {y, TInt(1), Mul(TI, y)}}
    \cup {<<Pow(Add(a, b), 3), Mul(Add(a, b), Pow(Add(b, a), 2))>> : a \in {x, TInt(2)}, b \in {y, z, fx}}
    \cup {<<Mul(Mul(a, b), c), Mul(a, Mul(b, c))>> : a \in RandomSubset(4, A3), b \in RandomSubset(4, A3), c \in RandomSubset(3, A3)}
PairCases == {[op |-> "ev", chk |-> "expand-pair", envs |-> "arith", ts |-> <<Ex(p[1]), Ex(p[2])>>] : p \in Pairs}
Cases == Single \cup PairCases
ASSUME PrintT(<<"cases", Cardinality(Single), Cardinality(PairCases)>>)
ASSUME ndJsonSerialize(IOEnv.OUT, SetToSeq(Cases))
VARIABLE dummy
Init == dummy = 0
Next == UNCHANGED dummy
=============================================================================
