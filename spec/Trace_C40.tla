------------------------------ MODULE Trace_C40 ------------------------------
(* C40 (leak clause): the workload replays every case twice in a row; the   *)
(* harness records the change of the number of live Basic objects (hook H2) *)
(* across each case.  After the first run everything a case caches (lazily  *)
(* created constants, static tables) exists, so the second run must leave   *)
(* the count unchanged: the caller is quiescent between cases and module    *)
(* RC's invariant QuiescentIsEmpty says that no object it created may       *)
(* survive.  A negative change would mean that a cached object was freed.   *)
(* (Memory safety: the driver attributes crashes and sanitizer reports.)    *)
EXTENDS Integers, Sequences, FiniteSets, TLC, Json, IOUtils
VARIABLES l, bad, dec
CheckEv(e) ==
    IF e.c.rep = 1 THEN (IF e.r.live < 0 THEN "bad:live-objects-decreased" ELSE "unk")
    ELSE IF e.r.live > 0 THEN "bad:leak:" \o ToString(e.r.live) \o "-objects-survive-the-repeated-case"
    ELSE IF e.r.live < 0 THEN "bad:live-objects-decreased"
    ELSE "ok"
Events == ndJsonDeserialize(IOEnv.TRACE)
K == INSTANCE TraceKit WITH Check <- CheckEv, Events <- Events
Init == K!Init
Next == K!Next
Verdict == K!Verdict
=============================================================================
