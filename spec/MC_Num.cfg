INIT Init
NEXT Next
