------------------------------- MODULE Rat -------------------------------
(* Guarded exact rational arithmetic.  TLC integers are 32 bit and TLC     *)
(* raises an error on overflow, so every operator keeps numerator and      *)
(* denominator within LIM and returns the undefined rational RU beyond.    *)
(* A defined rational is <<n, d>> with d > 0 and gcd(n, d) = 1.            *)
EXTENDS Integers, Sequences

LIM == 30000
RU == <<0, 0>>
RDef(q) == q[2] # 0

IAbs(x) == IF x < 0 THEN -x ELSE x
ISign(x) == IF x < 0 THEN -1 ELSE IF x = 0 THEN 0 ELSE 1
IMin(a, b) == IF a < b THEN a ELSE b
IMax(a, b) == IF a < b THEN b ELSE a

RECURSIVE Gcd(_, _)
Gcd(a, b) == IF b = 0 THEN a ELSE Gcd(b, a % b)      \* a, b >= 0

\* normalise n/d (|n|,|d| < 2^31): lowest terms, positive denominator
RNorm(n, d) ==
    IF d = 0 THEN RU
    ELSE LET g == Gcd(IAbs(n), IAbs(d))
             s == IF d < 0 THEN -1 ELSE 1
             nn == s * (n \div g)
             dd == s * (d \div g)
         IN IF IAbs(nn) > LIM \/ dd > LIM THEN RU ELSE <<nn, dd>>

\* raw input (possibly large, possibly unnormalised) to a guarded rational
RMk(n, d) == IF IAbs(n) > LIM \/ IAbs(d) > LIM THEN RU ELSE RNorm(n, d)
RInt(n) == RMk(n, 1)
R0 == <<0, 1>>
R1 == <<1, 1>>

RAdd(p, q) == IF ~RDef(p) \/ ~RDef(q) THEN RU
              ELSE RNorm(p[1] * q[2] + q[1] * p[2], p[2] * q[2])
RNeg(p) == IF ~RDef(p) THEN RU ELSE <<-p[1], p[2]>>
RSub(p, q) == RAdd(p, RNeg(q))
RMul(p, q) == IF ~RDef(p) \/ ~RDef(q) THEN RU
              ELSE RNorm(p[1] * q[1], p[2] * q[2])
RInv(p) == IF ~RDef(p) \/ p[1] = 0 THEN RU
           ELSE IF p[1] < 0 THEN <<-p[2], -p[1]>> ELSE <<p[2], p[1]>>
RDiv(p, q) == RMul(p, RInv(q))
RIsZero(p) == RDef(p) /\ p[1] = 0
RSign(p) == ISign(p[1])                               \* p defined
RLess(p, q) == p[1] * q[2] < q[1] * p[2]               \* p, q defined
RLeq(p, q) == p[1] * q[2] <= q[1] * p[2]
RIsInt(p) == RDef(p) /\ p[2] = 1
RAbs(p) == IF ~RDef(p) THEN RU ELSE <<IAbs(p[1]), p[2]>>
RFloor(p) == IF ~RDef(p) THEN RU ELSE <<p[1] \div p[2], 1>>   \* \div floors
RCeil(p) == IF ~RDef(p) THEN RU ELSE <<-((-p[1]) \div p[2]), 1>>

RECURSIVE RPowNat(_, _)
RPowNat(p, k) == IF ~RDef(p) THEN RU
                 ELSE IF k = 0 THEN R1
                 ELSE IF k % 2 = 0 THEN LET h == RPowNat(p, k \div 2) IN RMul(h, h)
                 ELSE RMul(p, RPowNat(p, k - 1))
\* integer power; 0^negative is undefined here (callers decide about zoo)
RPowInt(p, k) == IF k >= 0 THEN RPowNat(p, k) ELSE RPowNat(RInv(p), -k)

\* exact integer d-th root of a natural number, or -1
RECURSIVE IRootFrom(_, _, _)
IPowNat(b, k) == RPowNat(<<b, 1>>, k)
IRootFrom(n, d, c) ==
    LET pw == IPowNat(c, d)
    IN IF ~RDef(pw) \/ pw[1] > n THEN -1
       ELSE IF pw[1] = n THEN c ELSE IRootFrom(n, d, c + 1)
IRoot(n, d) == IF n = 0 THEN 0 ELSE IRootFrom(n, d, 1)
\* exact d-th root of a non-negative rational, or RU
RRoot(p, d) == IF ~RDef(p) \/ p[1] < 0 THEN RU
               ELSE LET a == IRoot(p[1], d)
                        b == IRoot(p[2], d)
                    IN IF a < 0 \/ b < 0 THEN RU ELSE <<a, b>>
=============================================================================
