INIT Init
NEXT Next
