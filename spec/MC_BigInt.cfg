INIT Init
NEXT Next
