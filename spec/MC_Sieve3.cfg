SPECIFICATION Spec
CONSTANTS
  IterIds = {1, 2}
  FinMode = "minus1"
  Depth = 3
  Limits = {1, 2, 29, 30, 31, 47, 48, 49, 64, 100, 121, 127, 169, 200}
  SegBits = {2, 3, 8}
  IterLimits = {0, 20, 50}
  EmitOn = TRUE
INVARIANTS CacheIsPrimePrefix NoOutOfBounds L1 Emit
CHECK_DEADLOCK FALSE
