------------------------------- MODULE MC_C06 -------------------------------
(* Case generation for C06: every ordered pair of representative numbers    *)
(* of every kind under the four operations.                                 *)
EXTENDS Integers, Sequences, FiniteSets, TLC, Json, IOUtils, SequencesExt, Term

Operands == {
  TInt(0), TInt(1), TInt(-2), TInt(3), TRat(1, 2), TRat(-3, 2), TRat(1, 3),
  TI, TComplex(TInt(1), TRat(1, 2)), TComplex(TInt(0), TInt(-2)),
  TDbl(1, 1, -1), TDbl(-1, 3, -1), TDbl(1, 1, 1), TDblZero(1), TDbl(1, 1, 0),
  TCDbl(TDbl(1, 1, -1), TDbl(1, 1, 0)), TCDbl(TDblZero(1), TDbl(-1, 1, 1)),
  TInf(1), TInf(-1), TInf(0), TNaN }

Case(f, a, b) == [op |-> "numop", f |-> f, a |-> a, b |-> b]
Cases == {Case(f, a, b) : f \in {"add", "sub", "mul", "div"}, a \in Operands, b \in Operands}
ASSUME PrintT(<<"cases", Cardinality(Cases)>>)
ASSUME ndJsonSerialize(IOEnv.OUT, SetToSeq(Cases))
VARIABLE dummy
Init == dummy = 0
Next == UNCHANGED dummy
=============================================================================
