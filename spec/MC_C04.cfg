INIT Init
NEXT Next
