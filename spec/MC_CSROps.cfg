INIT Init
NEXT Next
