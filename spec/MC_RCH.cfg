SPECIFICATION HSpec
CONSTANTS
  MaxObj = 7
  MaxHandles = 4
  Cascade = TRUE
  ReleaseFirst = FALSE
  Depth = 14
INVARIANTS CountsExact ChildrenLive HandlesLive QuiescentIsEmpty Emit
CHECK_DEADLOCK FALSE
