------------------------------- MODULE BigInt -------------------------------
(* Arbitrary-precision integers for TLC (whose own integers are 32-bit):    *)
(* a natural number is a little-endian sequence of limbs in 0..9999 without *)
(* high zero limbs (zero is the empty sequence); an integer is a record     *)
(* [s |-> sign, m |-> magnitude].  Everything is defined from the school    *)
(* algorithms, so that the module can serve as the reference for the        *)
(* integer back ends of the library (GMP, GMP C++ classes, Boost.Multi-     *)
(* precision): division in its three rounding conventions, gcd, powers,     *)
(* modular powers, roots (as a contract), primality (by definition for      *)
(* small numbers, by a verified Lucas certificate for large ones).          *)
EXTENDS Integers, Sequences, FiniteSets

BB == 10000

\* ------------------------------------------------------------- naturals
RECURSIVE NStrip(_)
NStrip(a) == IF a = <<>> THEN a ELSE IF a[Len(a)] = 0 THEN NStrip(SubSeq(a, 1, Len(a) - 1)) ELSE a
NWell(a) == /\ DOMAIN a = 1..Len(a)
            /\ \A i \in 1..Len(a) : a[i] \in 0..(BB - 1)
            /\ (a = <<>> \/ a[Len(a)] # 0)
RECURSIVE NFromInt(_)
NFromInt(n) == IF n = 0 THEN <<>> ELSE <<n % BB>> \o NFromInt(n \div BB)
N0 == <<>>
N1 == <<1>>
N2 == <<2>>
\* value of a natural that fits 31 bits (at most 2 limbs, or 3 limbs with the top one <= 21 and the value below 2^31)
NFits(a) == Len(a) <= 2 \/ (Len(a) = 3 /\ (a[3] < 21 \/ (a[3] = 21 /\ (a[2] < 4748 \/ (a[2] = 4748 /\ a[1] <= 3647)))))
NToInt(a) == IF Len(a) = 0 THEN 0 ELSE IF Len(a) = 1 THEN a[1] ELSE IF Len(a) = 2 THEN a[2] * BB + a[1] ELSE (a[3] * BB + a[2]) * BB + a[1]
NCmp(a, b) ==
    IF Len(a) # Len(b) THEN (IF Len(a) < Len(b) THEN -1 ELSE 1)
    ELSE LET d == {i \in 1..Len(a) : a[i] # b[i]}
         IN IF d = {} THEN 0
            ELSE LET i == CHOOSE i \in d : \A j \in d : j <= i IN IF a[i] < b[i] THEN -1 ELSE 1
NLe(a, b) == NCmp(a, b) <= 0
NLt(a, b) == NCmp(a, b) < 0

RECURSIVE NAddR(_, _, _, _)
NAddR(a, b, i, c) ==
    IF i > Len(a) /\ i > Len(b) THEN (IF c = 0 THEN <<>> ELSE <<c>>)
    ELSE LET s == (IF i <= Len(a) THEN a[i] ELSE 0) + (IF i <= Len(b) THEN b[i] ELSE 0) + c
         IN <<s % BB>> \o NAddR(a, b, i + 1, s \div BB)
NAdd(a, b) == NAddR(a, b, 1, 0)

\* a - b for a >= b
RECURSIVE NSubR(_, _, _, _)
NSubR(a, b, i, c) ==
    IF i > Len(a) THEN <<>>
    ELSE LET s == a[i] - (IF i <= Len(b) THEN b[i] ELSE 0) - c
         IN IF s < 0 THEN <<s + BB>> \o NSubR(a, b, i + 1, 1) ELSE <<s>> \o NSubR(a, b, i + 1, 0)
NSub(a, b) == NStrip(NSubR(a, b, 1, 0))

RECURSIVE NMulSmallR(_, _, _, _)
NMulSmallR(a, k, i, c) ==
    IF i > Len(a) THEN (IF c = 0 THEN <<>> ELSE <<c>>)
    ELSE LET s == a[i] * k + c IN <<s % BB>> \o NMulSmallR(a, k, i + 1, s \div BB)
NMulSmall(a, k) == IF k = 0 THEN <<>> ELSE NMulSmallR(a, k, 1, 0)      \* 0 <= k < BB
NShift(a, k) == IF a = <<>> THEN a ELSE [i \in 1..k |-> 0] \o a
RECURSIVE NMulR(_, _, _)
NMulR(a, b, i) == IF i > Len(b) THEN <<>> ELSE NAdd(NMulSmall(a, b[i]), NShift(NMulR(a, b, i + 1), 1))
NMul(a, b) == IF a = <<>> \/ b = <<>> THEN <<>> ELSE NMulR(a, b, 1)

\* division by a limb-sized number 1 <= k < BB
RECURSIVE NDivSmallR(_, _, _, _)
NDivSmallR(a, k, i, r) ==
    IF i = 0 THEN [q |-> <<>>, r |-> r]
    ELSE LET cur == r * BB + a[i]
             rest == NDivSmallR(a, k, i - 1, cur % k)
         IN [q |-> rest.q \o <<cur \div k>>, r |-> rest.r]
NDivSmall(a, k) == LET d == NDivSmallR(a, k, Len(a), 0) IN [q |-> NStrip(d.q), r |-> d.r]

\* long division (Knuth D): the divisor is normalised (top limb >= BB/2), the quotient digit d - the largest with
\* d*b <= cur - then lies between t \div (top+1) and t \div top for the leading limbs t of cur, and is found by
\* bisection in that interval
RECURSIVE NDigit(_, _, _, _)
NDigit(cur, b, lo, hi) ==
    IF lo >= hi THEN lo
    ELSE LET mid == (lo + hi + 1) \div 2
         IN IF NLe(NMulSmall(b, mid), cur) THEN NDigit(cur, b, mid, hi) ELSE NDigit(cur, b, lo, mid - 1)
NDigitEst(cur, b) ==
    LET n == Len(b)
        t == IF Len(cur) > n THEN cur[n + 1] * BB + cur[n] ELSE cur[n]
        hi0 == t \div b[n]
        hi == IF hi0 > BB - 1 THEN BB - 1 ELSE hi0
        lo == t \div (b[n] + 1)
    IN NDigit(cur, b, lo, hi)
RECURSIVE NDivModR(_, _, _, _)
NDivModR(a, b, i, r) ==
    IF i = 0 THEN [q |-> <<>>, r |-> r]
    ELSE LET cur == NStrip(<<a[i]>> \o r)
             d == IF NLt(cur, b) THEN 0 ELSE NDigitEst(cur, b)
             rest == NDivModR(a, b, i - 1, NSub(cur, NMulSmall(b, d)))
         IN [q |-> rest.q \o <<d>>, r |-> rest.r]
\* b # 0;  a = q*b + r, 0 <= r < b
NDivMod(a, b) ==
    IF NLt(a, b) THEN [q |-> <<>>, r |-> a]
    ELSE IF Len(b) = 1 THEN LET d == NDivSmall(a, b[1]) IN [q |-> d.q, r |-> NFromInt(d.r)]
    ELSE LET f == BB \div (b[Len(b)] + 1)
             d == NDivModR(NMulSmall(a, f), NMulSmall(b, f), Len(NMulSmall(a, f)), <<>>)
         IN [q |-> NStrip(d.q), r |-> NDivSmall(d.r, f).q]
NMod(a, b) == NDivMod(a, b).r
RECURSIVE NGcd(_, _)
NGcd(a, b) == IF b = <<>> THEN a ELSE NGcd(b, NMod(a, b))
RECURSIVE NPow(_, _)
NPow(a, n) == IF n = 0 THEN N1
              ELSE LET h == NPow(a, n \div 2) sq == NMul(h, h) IN IF n % 2 = 1 THEN NMul(sq, a) ELSE sq
\* a^e mod m for a natural exponent e, m # 0
RECURSIVE NPowMod(_, _, _)
NPowMod(a, e, m) ==
    IF e = <<>> THEN NMod(N1, m)
    ELSE LET h == NDivSmall(e, 2)
             t == NPowMod(a, h.q, m)
             sq == NMod(NMul(t, t), m)
         IN IF h.r = 1 THEN NMod(NMul(sq, a), m) ELSE sq
NIsEven(a) == a = <<>> \/ a[1] % 2 = 0
\* number of trailing zero bits of a # 0
RECURSIVE NTrailingZeros(_)
NTrailingZeros(a) == IF ~NIsEven(a) THEN 0 ELSE 1 + NTrailingZeros(NDivSmall(a, 2).q)
\* r is the integer n-th root of a
NIsRoot(r, a, n) == NLe(NPow(r, n), a) /\ NLt(a, NPow(NAdd(r, N1), n))
\* bitwise and of naturals (bit by bit)
RECURSIVE NAnd(_, _)
NAnd(a, b) == IF a = <<>> \/ b = <<>> THEN <<>>
              ELSE LET ha == NDivSmall(a, 2) hb == NDivSmall(b, 2)
                       rest == NMulSmall(NAnd(ha.q, hb.q), 2)
                   IN IF ha.r = 1 /\ hb.r = 1 THEN NAdd(rest, N1) ELSE rest
HexDigits == <<"0", "1", "2", "3", "4", "5", "6", "7", "8", "9", "a", "b", "c", "d", "e", "f">>
RECURSIVE NHexR(_)
NHexR(a) == IF a = <<>> THEN "" ELSE LET h == NDivSmall(a, 16) IN NHexR(h.q) \o HexDigits[h.r + 1]
NHex(a) == IF a = <<>> THEN "0" ELSE NHexR(a)

\* ---------------------------------------------------- small numbers by definition
SmallPrime(n) == n >= 2 /\ n < 100000 /\ \A d \in 2..(IF n - 1 < 320 THEN n - 1 ELSE 320) : d * d > n \/ n % d # 0     \* (trial division up to the square root)
RECURSIVE NProd(_, _)
NProd(fs, i) == IF i > Len(fs) THEN N1 ELSE NMul(NFromInt(fs[i]), NProd(fs, i + 1))
\* Lucas certificate: n - 1 = product of the primes in fs (each verified prime by definition); n is prime when some
\* base a (among the given ones) has a^(n-1) = 1 and a^((n-1)/q) # 1 (mod n) for every prime q dividing n - 1.  "yes" = proven prime,
\* "unk" = the certificate did not verify with the bases tried.
LucasPrime(n, fs, bases) ==
    LET nm1 == NSub(n, N1)
        okFs == (\A i \in 1..Len(fs) : fs[i] < BB /\ SmallPrime(fs[i])) /\ NProd(fs, 1) = nm1
        qs == {fs[i] : i \in 1..Len(fs)}
        good(a) == /\ NPowMod(NFromInt(a), nm1, n) = N1
                   /\ \A q \in qs : NPowMod(NFromInt(a), NDivSmall(nm1, q).q, n) # N1
    IN IF ~okFs THEN "unk" ELSE IF \E k \in 1..Len(bases) : good(bases[k]) THEN "yes" ELSE "unk"

\* ------------------------------------------------------------- integers
Z(s, m) == [s |-> IF m = <<>> THEN 0 ELSE s, m |-> m]
Z0 == Z(0, <<>>)
Z1 == Z(1, N1)
ZWell(a) == DOMAIN a = {"s", "m"} /\ NWell(a.m) /\ a.s \in {-1, 0, 1} /\ (a.s = 0 <=> a.m = <<>>)
ZFromInt(n) == IF n = 0 THEN Z0 ELSE IF n > 0 THEN Z(1, NFromInt(n)) ELSE Z(-1, NFromInt(-n))
ZFits(a) == NFits(a.m)
ZToInt(a) == a.s * NToInt(a.m)
ZNeg(a) == Z(-a.s, a.m)
ZAbs(a) == Z(1, a.m)
ZSign(a) == a.s
ZCmp(a, b) == IF a.s # b.s THEN (IF a.s < b.s THEN -1 ELSE 1)
              ELSE IF a.s = 0 THEN 0 ELSE a.s * NCmp(a.m, b.m)
ZAdd(a, b) == IF a.s = 0 THEN b ELSE IF b.s = 0 THEN a
              ELSE IF a.s = b.s THEN Z(a.s, NAdd(a.m, b.m))
              ELSE LET c == NCmp(a.m, b.m)
                   IN IF c = 0 THEN Z0 ELSE IF c > 0 THEN Z(a.s, NSub(a.m, b.m)) ELSE Z(b.s, NSub(b.m, a.m))
ZSub(a, b) == ZAdd(a, ZNeg(b))
ZMul(a, b) == Z(a.s * b.s, NMul(a.m, b.m))
\* truncating, floor and ceiling division (b # 0): a = q*b + r
ZDivT(a, b) == LET d == NDivMod(a.m, b.m) IN [q |-> Z(a.s * b.s, d.q), r |-> Z(a.s, d.r)]
ZDivF(a, b) == LET t == ZDivT(a, b)
               IN IF t.r.s # 0 /\ t.r.s # b.s THEN [q |-> ZSub(t.q, Z1), r |-> ZAdd(t.r, b)] ELSE t
ZDivC(a, b) == LET t == ZDivT(a, b)
               IN IF t.r.s # 0 /\ t.r.s = b.s THEN [q |-> ZAdd(t.q, Z1), r |-> ZSub(t.r, b)] ELSE t
ZDivides(b, a) == IF b.s = 0 THEN a.s = 0 ELSE NMod(a.m, b.m) = <<>>
ZGcd(a, b) == Z(1, NGcd(a.m, b.m))
ZPow(a, n) == Z(IF a.s < 0 /\ n % 2 = 1 THEN -1 ELSE 1, NPow(a.m, n))
\* a^e mod m with the result in 0..|m|-1 (e >= 0, m # 0)
ZPowMod(a, e, m) == LET base == ZDivF(a, ZAbs(m)).r IN Z(1, NPowMod(base.m, e.m, m.m))
=============================================================================
