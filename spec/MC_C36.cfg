INIT Init
NEXT Next
