----------------------------- MODULE Trace_Lambda -----------------------------
(* C13: each recorded history of one evaluator object is re-run through the *)
(* Lambda state machine.  For every call: the outputs of the re-used object *)
(* must agree (to 2^-40: CSE may legitimately re-associate floating-point   *)
(* operations) with those of a fresh object with the same init and of a     *)
(* fresh object without CSE, and wherever the specification                 *)
(* can evaluate an output exactly (exact fragment: the IEEE result is then  *)
(* the exact value) the logged double must be that value.                   *)
EXTENDS MC_Lambda, Dbl
VARIABLES l, bad, dec

DataOuts(kind) == IF kind = "real" THEN RealOutLists ELSE ComplexOutLists
DataVecs(kind) == IF kind = "real" THEN RealVecs ELSE ComplexVecs
NoE == [q \in {} |-> VUndef]
EnvV(vec) == [s \in {Names[i] : i \in 1..Len(vec)} |->
                LET i == CHOOSE i \in 1..Len(vec) : Names[i] = s IN Val(vec[i], NoE)]

\* one output: logged double against the exact expectation
OutOK(t, expect) ==
    LET got == Val(t, NoE)
    IN IF expect.t = "undef" \/ got.t = "undef" THEN "unk"
       ELSE IF expect.t # got.t THEN "bad:kind"
       ELSE IF ~IsNum(expect) THEN "ok"
       ELSE IF ~Exact(expect) \/ ~Exact(got) THEN "unk"
       ELSE IF expect.re = got.re /\ expect.im = got.im THEN "ok" ELSE "bad:value"

RECURSIVE Walk(_, _, _, _, _, _)
\* cur: index of the list of the last init in the MODEL (cfg), seenOk: a decisive output was met
Walk(kind, steps, k, cur, curcse, seenOk) ==
    IF k > Len(steps) THEN (IF seenOk THEN "ok" ELSE "unk")
    ELSE LET s == steps[k]
         IN IF s.exc # "" THEN "bad:exception:" \o s.exc
            ELSE IF s.a = "init" THEN Walk(kind, steps, k + 1, s.c, s.cse, seenOk)
            ELSE IF cur = 0 THEN "bad:call-before-init"
            ELSE LET outs == DataOuts(kind)[cur]
                     env == EnvV(DataVecs(kind)[s.v])
                     rs == [i \in 1..Len(outs) |-> OutOK(s.out[i], Val(outs[i], env))]
                 IN IF Len(s.out) # Len(outs) THEN "bad:arity"
                    ELSE IF Len(s.fresh) # Len(outs) \/ Len(s.nocse) # Len(outs) THEN "bad:arity"
                    ELSE IF \E i \in 1..Len(outs) : AnyClose(s.out[i], s.fresh[i]) = "far" THEN "bad:reused-differs-from-fresh"
                    ELSE IF \E i \in 1..Len(outs) : AnyClose(s.out[i], s.nocse[i]) = "far" THEN "bad:cse-changes-result"
                    ELSE IF \E i \in 1..Len(rs) : rs[i] \notin {"ok", "unk"}
                         THEN rs[CHOOSE i \in 1..Len(rs) : rs[i] \notin {"ok", "unk"}] \o ":output" \o ToString(CHOOSE i \in 1..Len(rs) : rs[i] \notin {"ok", "unk"})
                    ELSE Walk(kind, steps, k + 1, cur, curcse, seenOk \/ \E i \in 1..Len(rs) : rs[i] = "ok")

CheckEv(e) ==
    IF e.r.exc # "" THEN "bad:harness:" \o e.r.exc
    ELSE IF e.c.op = "lambda_data" THEN "ok"
    ELSE Walk(e.c.kind, e.r.steps, 1, 0, 0, FALSE)

Events == ndJsonDeserialize(IOEnv.TRACE)
K == INSTANCE TraceKit WITH Check <- CheckEv, Events <- Events
TInit == K!Init /\ LInit /\ hist = <<>>
TNext == K!Next /\ UNCHANGED <<lvars, hist>>
Verdict == K!Verdict
=============================================================================
