INIT Init
NEXT Next
