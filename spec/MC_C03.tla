------------------------------- MODULE MC_C03 -------------------------------
(* Cases for C03: every binary operation on every ordered pair and every    *)
(* unary operation on every element of an operand pool built around the     *)
(* boundary cases of the canonicalising constructors.                       *)
EXTENDS Integers, Sequences, FiniteSets, TLC, Json, IOUtils, SequencesExt, Randomization, Term

Thorough == "TIER" \in DOMAIN IOEnv /\ IOEnv.TIER = "thorough"
x == TSym("x")
y == TSym("y")
pi == TConst("pi")
B(k, a, b) == TOp(k, <<a, b>>)
U(k, a) == TOp(k, <<a>>)
PoolSeq == <<
  TInt(0), TInt(1), TInt(-1), TInt(2), TInt(-3), TRat(1, 2), TRat(-1, 2), TRat(3, 2), TRat(1, 3),
  TI, TComplex(TInt(1), TInt(1)), TComplex(TInt(0), TInt(2)), TComplex(TRat(1, 2), TInt(-1)),
  TDblZero(1), TDbl(1, 1, -1), TDbl(-1, 3, -1), TCDbl(TDbl(1, 1, 0), TDbl(1, 1, -1)),
  TInf(1), TInf(-1), TInf(0), TNaN,
  x, U("neg", x), B("mul", TInt(2), x), B("add", x, TInt(1)), B("pow", x, TInt(2)), U("sqrt", x), B("pow", x, TRat(1, 3)),
  B("pow", x, TInt(-1)), B("pow", x, y), U("sqrt", TInt(2)), B("pow", TInt(2), TRat(1, 3)), B("pow", TInt(2), TRat(-1, 2)),
  U("sqrt", TInt(8)), U("sqrt", TRat(1, 2)), B("mul", x, y), U("sqrt", B("mul", x, y)), U("sqrt", B("pow", x, TInt(2))),
  U("sqrt", U("neg", x)), B("mul", TInt(2), U("sqrt", TInt(2))), B("mul", TI, x), B("mul", TRat(1, 2), B("add", x, TInt(1))),
  pi, B("mul", TRat(1, 2), pi), B("mul", TRat(1, 12), pi), B("mul", TRat(7, 6), pi), B("add", x, pi), B("add", x, B("mul", TRat(3, 2), pi)),
  U("neg", pi), TConst("E"), U("exp", x), U("exp", TInt(2)), U("log", x), U("sin", x), U("cos", B("add", x, y)), U("abs", x),
  U("sign", x), U("floor", x), U("gamma", x), TFn("f", <<x>>), B("add", U("sin", x), TInt(1)), B("add", B("pow", x, TInt(2)), B("mul", TInt(2), x)),
  B("mul", B("pow", x, TRat(1, 2)), B("pow", y, TRat(-1, 2))), B("add", TRat(1, 2), U("sqrt", TInt(3))),
  \* complex coefficients whose sign can be extracted
  B("mul", TComplex(TInt(-1), TInt(2)), x), B("mul", TComplex(TInt(0), TInt(-3)), B("pow", x, TInt(2))),
  B("mul", TComplex(TRat(-1, 2), TRat(1, 3)), B("mul", x, y)), B("mul", TComplex(TInt(1), TInt(-2)), x),
  TComplex(TInt(-2), TInt(1)), TComplex(TInt(0), TInt(-1)), B("sub", y, x), B("sub", TInt(-1), x),
  \* an unevaluated power of zero
  B("pow", TInt(0), y) >>
N == Len(PoolSeq)
Bin == {"add", "sub", "mul", "div", "pow", "atan2", "beta", "log2", "kronecker_delta", "polygamma", "lowergamma", "uppergamma"}
Un == {"neg", "sqrt", "cbrt", "exp", "log", "sin", "cos", "tan", "cot", "sec", "csc", "asin", "acos", "atan", "acot", "asec", "acsc",
       "sinh", "cosh", "tanh", "coth", "sech", "csch", "asinh", "acosh", "atanh", "acoth", "asech", "acsch",
       "abs", "sign", "floor", "ceiling", "truncate", "conjugate", "gamma", "loggamma", "digamma", "trigamma", "zeta",
       "dirichlet_eta", "erf", "erfc", "lambertw", "expand", "trig_to_sqrt", "rewrite_as_exp", "rewrite_as_sin", "rewrite_as_cos"}
One(t) == [op |-> "ev", chk |-> "canon", envs |-> "none", ts |-> <<t>>]
BinCases == {One(B(k, PoolSeq[i], PoolSeq[j])) : k \in Bin, i \in 1..N, j \in 1..N}
UnCases == {One(U(k, PoolSeq[j])) : k \in Un, j \in 1..N}
NaryCases == {One(TOp(k, <<PoolSeq[i], PoolSeq[j], PoolSeq[((i + j) % N) + 1]>>)) : k \in {"addv", "mulv", "max", "min"}, i \in 1..N, j \in 1..N}
Cases == BinCases \cup UnCases \cup NaryCases
ASSUME PrintT(<<"cases", Cardinality(Cases)>>)
ASSUME ndJsonSerialize(IOEnv.OUT, SetToSeq(Cases))
VARIABLE dummy
Init == dummy = 0
Next == UNCHANGED dummy
=============================================================================
