------------------------------- MODULE MC_C07 -------------------------------
(* Recipes for C07: expressions built with add, sub, mul, div, neg, pow,    *)
(* sqrt, cbrt from numbers, constants and symbols.  Depth 1 exhaustively    *)
(* over the atom alphabet, depth 2 and 3 as seeded random subsets.          *)
EXTENDS Integers, Sequences, FiniteSets, TLC, Json, IOUtils, SequencesExt, Randomization, Term

Thorough == "TIER" \in DOMAIN IOEnv /\ IOEnv.TIER = "thorough"
x == TSym("x")
y == TSym("y")
Atoms == { TInt(0), TInt(1), TInt(-1), TInt(2), TInt(-3), TInt(4), TInt(8), TInt(12), TInt(-8),
           TRat(1, 2), TRat(-3, 2), TRat(2, 3), TRat(9, 4), TRat(-1, 8),
           TI, TComplex(TInt(1), TInt(1)), TConst("pi"), TConst("E"), x, y }
Exps == { TInt(-3), TInt(-2), TInt(-1), TInt(0), TInt(2), TInt(3),
          TRat(1, 2), TRat(-1, 2), TRat(1, 3), TRat(2, 3), TRat(3, 2), TRat(-2, 3), TRat(1, 6), x }
Bin(k, a, b) == TOp(k, <<a, b>>)
Un(k, a) == TOp(k, <<a>>)
BinOps == {"add", "sub", "mul", "div"}
D1 == {Bin(k, a, b) : k \in BinOps, a \in Atoms, b \in Atoms}
      \cup {Bin("pow", a, e) : a \in Atoms, e \in Exps}
      \cup {Un(k, a) : k \in {"sqrt", "cbrt", "neg"}, a \in Atoms}
N1 == IF Thorough THEN 160 ELSE 45
N2 == IF Thorough THEN 120 ELSE 30
S1 == RandomSubset(N1, D1)
SA == RandomSubset(8, Atoms) \cup {x, TInt(2), TRat(1, 2)}
D2 == {Bin(k, a, b) : k \in BinOps, a \in S1, b \in SA}
      \cup {Bin(k, b, a) : k \in {"sub", "div"}, a \in S1, b \in SA}
      \cup {Bin("pow", a, e) : a \in S1, e \in Exps}
      \cup {Bin("pow", b, a) : a \in S1, b \in {TInt(2), TInt(-8), TRat(9, 4), x}}
      \cup {Un(k, a) : k \in {"sqrt", "cbrt"}, a \in S1}
      \cup {Bin(k, a, b) : k \in {"add", "mul"}, a \in RandomSubset(20, S1), b \in RandomSubset(20, S1)}
S2 == RandomSubset(N2, D2)
D3 == {Bin("pow", a, e) : a \in S2, e \in Exps}
      \cup {Bin(k, a, b) : k \in {"mul", "div", "add"}, a \in S2, b \in RandomSubset(12, S1)}
      \cup {Un(k, a) : k \in {"sqrt", "cbrt"}, a \in S2}
\* structured families around the rewrites named in the property: nested powers,
\* powers of products and quotients (coefficient splitting), products of powers of
\* one base (exponent merging), radicals of perfect powers
Bases == {x, TInt(2), TInt(-8), TRat(9, 4), TRat(-1, 8), TInt(12), TI}
Coefs == {TInt(2), TInt(-3), TInt(4), TInt(-8), TRat(1, 2), TRat(-3, 2), TRat(9, 4), TI}
FNested == {Bin("pow", Bin("pow", b, e1), e2) : b \in Bases, e1 \in Exps, e2 \in Exps}
FProd == {Bin("pow", Bin("mul", c, x), e) : c \in Coefs, e \in Exps}
         \cup {Bin("pow", Bin("mul", x, y), e) : e \in Exps}
         \cup {Bin("pow", TOp("mul", <<c, x, y>>), e) : c \in Coefs, e \in Exps}
         \cup {Bin("pow", Bin("div", a, b), e) : a \in {x, TInt(1), TInt(-2), TInt(9)}, b \in {x, y, TInt(4), TInt(-8)}, e \in Exps}
         \cup {Bin("pow", Bin("mul", c, Bin("pow", x, e1)), e) : c \in {TInt(4), TInt(-8), TRat(9, 4)}, e1 \in {TInt(2), TRat(1, 2), TInt(-1)}, e \in Exps}
FMerge == {Bin("mul", Bin("pow", b, e1), Bin("pow", b, e2)) : b \in Bases, e1 \in Exps, e2 \in Exps}
          \cup {Bin("div", Bin("pow", b, e1), Bin("pow", b, e2)) : b \in {x, TInt(2), TInt(-8)}, e1 \in Exps, e2 \in Exps}
FRad == {Bin("pow", TRat(n, d), e) : n \in {-72, -27, -8, -4, -1, 8, 12, 18, 36, 48, 54, 128}, d \in {1, 4, 9, 25},
                                    e \in {TRat(1, 2), TRat(-1, 2), TRat(1, 3), TRat(2, 3), TRat(3, 2), TRat(-2, 3), TRat(1, 6), TRat(5, 6)}}
Families == FNested \cup FProd \cup FMerge \cup FRad
Recipes == D1 \cup D2 \cup D3 \cup Families
Case(t) == [op |-> "ev", chk |-> "val", envs |-> "arith", ts |-> <<t>>]
Cases == {Case(t) : t \in Recipes}
ASSUME PrintT(<<"cases", Cardinality(D1), Cardinality(D2), Cardinality(D3), Cardinality(Families)>>)
ASSUME ndJsonSerialize(IOEnv.OUT, SetToSeq(Cases))
VARIABLE dummy
Init == dummy = 0
Next == UNCHANGED dummy
=============================================================================
