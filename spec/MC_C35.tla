------------------------------- MODULE MC_C35 -------------------------------
(* Cases for C35: refine(e, A) and simplify(e, A) against the value of e at *)
(* assignments satisfying A.  A ranges over the assumption sets the         *)
(* Assumptions class understands for one symbol x (y is positive, z real    *)
(* whenever they are mentioned).                                            *)
EXTENDS Integers, Sequences, FiniteSets, TLC, Json, IOUtils, SequencesExt, Randomization, Term

Thorough == "TIER" \in DOMAIN IOEnv /\ IOEnv.TIER = "thorough"
x == TSym("x")
y == TSym("y")
z == TSym("z")
B(k, a, b) == TOp(k, <<a, b>>)
U(k, a) == TOp(k, <<a>>)
In(s, set) == TOp("contains", <<s, TOp(set, <<>>)>>)
\* assumption set name -> <<statements, environment set>>
Asm == [ none |-> <<<<>>, "xany">>,
         real |-> <<<<In(x, "Reals")>>, "xreal">>,
         pos |-> <<<<B("Lt", TInt(0), x)>>, "pos">>,
         neg |-> <<<<B("Lt", x, TInt(0))>>, "xneg">>,
         nonneg |-> <<<<B("Le", TInt(0), x)>>, "xnonneg">>,
         nonpos |-> <<<<B("Le", x, TInt(0))>>, "xnonpos">>,
         int |-> <<<<In(x, "Integers")>>, "xint">>,
         posint |-> <<<<In(x, "Integers"), B("Lt", TInt(0), x)>>, "xposint">>,
         nonzero |-> <<<<B("Ne", x, TInt(0))>>, "xnonzero">>,
         rat |-> <<<<In(x, "Rationals")>>, "xrat">>,
         posy |-> <<<<B("Lt", TInt(0), x), B("Lt", TInt(0), y), In(z, "Reals")>>, "pos">>,
         realy |-> <<<<In(x, "Reals"), B("Lt", TInt(0), y), In(z, "Reals")>>, "xreal">> ]
Arg == {x, U("neg", x), B("mul", TInt(2), x), B("add", x, TInt(1)), B("pow", x, TInt(2)), B("pow", x, TInt(3)), B("mul", x, y),
        B("sub", x, TRat(1, 2)), B("div", x, y), B("mul", TI, x), B("add", B("pow", x, TInt(2)), TInt(1)), U("neg", B("pow", x, TInt(2))),
        U("sqrt", x), U("abs", x), U("conjugate", x), U("exp", x), B("add", x, y), B("mul", TInt(-3), B("pow", x, TInt(2)))}
F1 == {"abs", "sign", "floor", "ceiling", "conjugate", "log", "sqrt"}
Pool1 == {U(f, a) : f \in F1, a \in Arg}
         \cup {TOp(m, <<a, b>>) : m \in {"max", "min"}, a \in {x, U("neg", x), B("pow", x, TInt(2)), B("add", x, TInt(1))}, b \in {TInt(0), TInt(1), TInt(-1), y, U("neg", y), U("abs", x)}}
         \cup {TOp(m, <<x, y, TInt(0)>>) : m \in {"max", "min"}}
\* nested powers (x^k)^n
Ks == {TInt(2), TInt(3), TInt(-1), TInt(-2), TRat(1, 2), TRat(1, 3), TRat(3, 2), TRat(-1, 2), TInt(4), y}
Ns == {TInt(2), TInt(3), TInt(-1), TRat(1, 2), TRat(1, 3), TRat(-1, 2), TRat(2, 3), TRat(3, 2), TRat(1, 4), TComplex(TInt(0), TInt(1)), y}
NestPow == {B("pow", B("pow", b, k), n) : b \in {x, B("mul", TInt(2), x), U("neg", x), B("add", x, TInt(1))}, k \in Ks, n \in Ns}
        \cup {B("pow", B("pow", B("pow", x, TInt(2)), TRat(1, 2)), TInt(3)), B("pow", B("mul", x, y), TRat(1, 2)), B("pow", B("pow", y, x), TInt(2)),
              B("pow", B("pow", y, x), TRat(1, 2)), B("mul", B("pow", B("pow", x, TInt(2)), TRat(1, 2)), B("pow", x, TInt(-1)))}
Logs == {U("log", B("pow", b, n)) : b \in {x, y, TInt(2), B("mul", TInt(2), x), U("abs", x)}, n \in {TInt(2), TInt(3), TInt(-1), TRat(1, 2), y, x, TI}}
        \cup {U("log", TInt(n)) : n \in {4, 8, 9, 27, 6, 1, 16, 36, 100, -4, 1024}} \cup {U("log", U("exp", x)), U("log", B("mul", x, y)), U("log", B("div", TInt(1), x))}
\* reciprocal trigonometric functions (simplify)
Trig1 == {"sin", "cos", "tan", "cot", "sec", "csc"}
Recip == {B("pow", U(f, a), n) : f \in Trig1, a \in {x, B("mul", TInt(2), x), B("add", x, y)}, n \in {TInt(-1), TInt(-2), TInt(2)}}
         \cup {B("mul", B("pow", U(f, x), TInt(-1)), U(g, x)) : f, g \in Trig1} \cup {B("div", y, U(f, x)) : f \in Trig1}
         \cup {B("mul", B("pow", U(f, x), TInt(-1)), B("pow", U(f, x), TInt(2))) : f \in Trig1}
         \cup {U(g, B("pow", U(f, x), TInt(-1))) : f \in {"csc", "sec", "cot"}, g \in {"abs", "exp", "sin"}}
Keep(S, n) == IF Thorough \/ Cardinality(S) <= n THEN S ELSE RandomSubset(n, S)
Mk(op, e, a) == [op |-> "ev", chk |-> "valdef", envs |-> Asm[a][2], ts |-> <<T(op, <<e>> \o Asm[a][1], "", 0, 0)>>]
Algebraic == Pool1 \cup NestPow \cup Logs
Cases == {Mk(op, e, a) : op \in {"refine", "simplify"}, e \in Keep(Algebraic, 300), a \in DOMAIN Asm}
         \cup {[op |-> "ev", chk |-> "valdef", envs |-> en, ts |-> <<T("simplify", <<e>> \o st, "", 0, 0)>>]
               : e \in Recip, en \in {"angle"}, st \in {<<>>, <<In(x, "Reals")>>}}
         \cup {[op |-> "ev", chk |-> "valdef", envs |-> "posangle", ts |-> <<T(op, <<e, B("Lt", TInt(0), x), B("Lt", TInt(0), y)>>, "", 0, 0)>>]
               : op \in {"refine", "simplify"}, e \in Recip \cup {U(f, U(g, x)) : f \in {"abs", "sign", "conjugate", "floor"}, g \in Trig1}}
ASSUME PrintT(<<"cases", Cardinality(Cases)>>)
ASSUME ndJsonSerialize(IOEnv.OUT, SetToSeq(Cases))
VARIABLE dummy
Init == dummy = 0
Next == UNCHANGED dummy
=============================================================================
