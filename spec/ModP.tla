------------------------------- MODULE ModP -------------------------------
(* Evaluation in GF(p) for two primes p = 1 (mod 24), p < 46341 (so that    *)
(* products fit TLC's 32-bit integers).  For each prime the module fixes    *)
(*   Z   a primitive 24th root of unity        (image of exp(i pi/12))      *)
(*   G2  with G2^3 = Z^3 + Z^-3  (= sqrt 2)    (image of 2^(1/6))           *)
(*   G3  with G3^3 = Z^2 + Z^-2  (= sqrt 3)    (image of 3^(1/6))           *)
(*   S5, S7 square roots of 5 and 7                                         *)
(* The field Q(zeta24, 2^(1/6), 3^(1/6), sqrt5, sqrt7) has degree 8*3*3*2*2 *)
(* and is presented by exactly these relations, so mapping its generators   *)
(* to these residues is a ring homomorphism: an identity that holds in C    *)
(* between numbers of this field holds between their residues.  A residue   *)
(* comparison can therefore miss a difference but never invent one.         *)
(* Transcendental constants are mapped to fixed arbitrary residues          *)
(* (a homomorphism of the polynomial ring over the field).                  *)
EXTENDS Integers, Sequences, Rat

P1 == 45481
P2 == 35281
Primes == <<P1, P2>>
ZZ == <<15661, 23633>>
GG2 == <<8833, 12687>>
GG3 == <<10265, 6617>>
SS5 == <<5006, 7724>>
SS7 == <<16511, 11823>>
\* surrogates for algebraically independent transcendentals
CSQPI == <<271, 828>>                     \* sqrt(pi)
CPI == <<(271 * 271) % P1, (828 * 828) % P2>>
CE == <<1729, 6561>>
CEG == <<4242, 1337>>
CCAT == <<9001, 777>>
CGR == <<12321, 23432>>
CL2 == <<5150, 8086>>      \* log 2
CL3 == <<6502, 6800>>      \* log 3
CL5 == <<1103, 2207>>      \* log 5
CL7 == <<3571, 9349>>      \* log 7

MU == <<-1, -1>>                         \* undefined residue pair
MDef(r) == r[1] >= 0


MInt(n) == <<n % P1, n % P2>>
MAdd(a, b) == IF ~MDef(a) \/ ~MDef(b) THEN MU
              ELSE <<(a[1] + b[1]) % P1, (a[2] + b[2]) % P2>>
MNeg(a) == IF ~MDef(a) THEN MU ELSE <<(P1 - a[1]) % P1, (P2 - a[2]) % P2>>
MSub(a, b) == MAdd(a, MNeg(b))
MMul(a, b) == IF ~MDef(a) \/ ~MDef(b) THEN MU
              ELSE <<(a[1] * b[1]) % P1, (a[2] * b[2]) % P2>>

RECURSIVE PowMod(_, _, _)
PowMod(b, k, p) == IF k = 0 THEN 1
                   ELSE IF k % 2 = 0 THEN LET h == PowMod(b, k \div 2, p) IN (h * h) % p
                   ELSE (b * PowMod(b, k - 1, p)) % p
\* inverse; undefined when a component is 0 (a value that is 0 mod p need not
\* be 0, so nothing may be concluded)
MInv(a) == IF ~MDef(a) \/ a[1] = 0 \/ a[2] = 0 THEN MU
           ELSE <<PowMod(a[1], P1 - 2, P1), PowMod(a[2], P2 - 2, P2)>>
MDiv(a, b) == MMul(a, MInv(b))
MPowNat(a, k) == IF ~MDef(a) THEN MU ELSE <<PowMod(a[1], k, P1), PowMod(a[2], k, P2)>>
MPowInt(a, k) == IF k >= 0 THEN MPowNat(a, k) ELSE MPowNat(MInv(a), -k)
MFromRat(q) == IF ~RDef(q) THEN MU ELSE IF q[2] = 1 THEN MInt(q[1]) ELSE MDiv(MInt(q[1]), MInt(q[2]))
MI == MPowNat(ZZ, 6)                      \* image of i
MSqrt2 == MPowNat(GG2, 3)
MSqrt3 == MPowNat(GG3, 3)

\* the presentation really holds for the chosen constants
ASSUME /\ MPowNat(ZZ, 24) = <<1, 1>>
       /\ MPowNat(ZZ, 12) = MInt(-1)
       /\ MPowNat(ZZ, 8) # <<1, 1>> /\ MPowNat(ZZ, 8)[1] # 1 /\ MPowNat(ZZ, 8)[2] # 1
       /\ MSqrt2 = MAdd(MPowNat(ZZ, 3), MPowInt(ZZ, -3))
       /\ MSqrt3 = MAdd(MPowNat(ZZ, 2), MPowInt(ZZ, -2))
       /\ MMul(MSqrt2, MSqrt2) = MInt(2)
       /\ MMul(MSqrt3, MSqrt3) = MInt(3)
       /\ MMul(SS5, SS5) = MInt(5)
       /\ MMul(SS7, SS7) = MInt(7)
       /\ MMul(MI, MI) = MInt(-1)

\* exponent of prime q in the natural number n >= 1, and the cofactor
RECURSIVE Vp(_, _)
Vp(n, q) == IF n % q = 0 THEN 1 + Vp(n \div q, q) ELSE 0
RECURSIVE StripP(_, _)
StripP(n, q) == IF n % q = 0 THEN StripP(n \div q, q) ELSE n

\* residue of the positive real number n^(k/d) for a natural n >= 1, integer k,
\* d in {1,2,3,6} -- defined when n is {2,3}-smooth (d | 6) or, for d | 2,
\* {2,3,5,7}-smooth
NatRootPow(n, k, d) ==
    LET e2 == Vp(n, 2) e3 == Vp(n, 3) e5 == Vp(n, 5) e7 == Vp(n, 7)
        rest == StripP(StripP(StripP(StripP(n, 2), 3), 5), 7)
    IN IF rest # 1 \/ (6 % d # 0) THEN MU
       ELSE IF (e5 # 0 \/ e7 # 0) /\ (2 % d # 0) THEN MU
       ELSE MMul(MMul(MPowInt(GG2, (6 \div d) * e2 * k), MPowInt(GG3, (6 \div d) * e3 * k)),
                 IF 2 % d = 0
                 THEN MMul(MPowInt(SS5, (2 \div d) * e5 * k), MPowInt(SS7, (2 \div d) * e7 * k))
                 ELSE <<1, 1>>)
\* residue of the principal value of q^(k/d) for a non-zero rational q
RatRootPow(q, k, d) ==
    IF ~RDef(q) \/ q[1] = 0 \/ (12 % d # 0) THEN MU
    ELSE LET pos == MDiv(NatRootPow(IAbs(q[1]), k, d), NatRootPow(q[2], k, d))
             unit == IF q[1] > 0 THEN <<1, 1>> ELSE MPowInt(ZZ, (12 \div d) * k)
         IN MMul(pos, unit)
=============================================================================
