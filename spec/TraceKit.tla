------------------------------ MODULE TraceKit ------------------------------
(* Total trace validation: the behaviour consumes one recorded observation  *)
(* event per step and classifies it with the instantiating module's         *)
(* Check(e), which returns "ok", "unk" (not decisive) or "bad:<reason>".    *)
(* All non-conforming events of one trace are collected in one run; the     *)
(* verdict is written as JSON when the trace is exhausted.                  *)
EXTENDS Integers, Sequences, TLC, Json, IOUtils
CONSTANT Check(_), Events
VARIABLES l, bad, dec

Init == l = 1 /\ bad = <<>> /\ dec = 0
Next == /\ l <= Len(Events)
        /\ LET r == Check(Events[l])
           IN /\ bad' = IF r \notin {"ok", "unk"}
                        THEN Append(bad, [id |-> Events[l].c.id, why |-> r]) ELSE bad
              /\ dec' = IF r = "unk" THEN dec ELSE dec + 1
        /\ l' = l + 1
\* written once, in the last state
Verdict == l = Len(Events) + 1 =>
             ndJsonSerialize(IOEnv.VERDICT, <<[n |-> Len(Events), dec |-> dec, bad |-> bad]>>)
=============================================================================
