------------------------------- MODULE MC_C46 -------------------------------
(* Cases for C46: small integer matrices.                                   *)
EXTENDS Integers, Sequences, FiniteSets, TLC, Json, IOUtils, SequencesExt, Randomization
Thorough == "TIER" \in DOMAIN IOEnv /\ IOEnv.TIER = "thorough"
Sub(S, n) == IF Thorough \/ Cardinality(S) <= n THEN S ELSE RandomSubset(n, S)
\* box: a bound on the components of every minimal solution for the shape (see Trace_C46)
Case(m, n, a, box) == [op |-> "lde", rows |-> m, cols |-> n, a |-> a, box |-> box]
E2 == -2..2
E1 == -1..1
Cases == {Case(1, 2, a, 3) : a \in [1..2 -> -3..3]}
         \cup {Case(1, 3, a, 2) : a \in [1..3 -> E2]}
         \cup {Case(2, 3, a, 8) : a \in Sub([1..6 -> E2], 600)}
         \cup {Case(2, 2, a, 2) : a \in [1..4 -> E2]}
         \cup {Case(1, 4, a, 2) : a \in Sub([1..4 -> E1] \cup [1..4 -> {-2, 1, 2}], 120)}
         \cup {Case(2, 4, a, 4) : a \in Sub([1..8 -> E1], 400)}
         \cup {Case(1, 4, a, 3) : a \in Sub([1..4 -> -3..3], 400)}
         \cup {Case(1, 5, a, 2) : a \in Sub([1..5 -> E2], 200)}
         \cup {Case(3, 3, a, 4) : a \in Sub([1..9 -> E1], 150)}
ASSUME PrintT(<<"cases", Cardinality(Cases)>>)
ASSUME ndJsonSerialize(IOEnv.OUT, SetToSeq(Cases))
VARIABLE dummy
Init == dummy = 0
Next == UNCHANGED dummy
=============================================================================
