SPECIFICATION Spec
CONSTANTS
  Rows = 2
  Cols = 4
  Vals = {0, 1, 2}
  Variant = "code"
  EmitOn = TRUE
INVARIANTS StaysCanonical GetReadsDense SetRefinesDense Emit
CHECK_DEADLOCK FALSE
