------------------------------- MODULE MC_C38 -------------------------------
(* Cases for C38: grids of distinct rational points, centres, derivative    *)
(* orders.                                                                  *)
EXTENDS Integers, Sequences, FiniteSets, TLC, Json, IOUtils, SequencesExt, Randomization, Term
Thorough == "TIER" \in DOMAIN IOEnv /\ IOEnv.TIER = "thorough"
Pts == {TInt(-2), TInt(-1), TInt(0), TRat(1, 2), TInt(1), TRat(3, 2), TInt(2), TInt(3), TRat(-1, 3)}
Centres == {TInt(0), TRat(1, 2), TInt(1), TInt(-1), TInt(5), TRat(2, 3)}
\* all orderings matter to the recurrence: grids are sequences without repetition
Grids(n) == {g \in [1..n -> Pts] : \A i, j \in 1..n : i # j => g[i] # g[j]}
\* (the thorough tier samples three times as many of each operand set)
Sub(S, n) == LET m == IF Thorough THEN 3 * n ELSE n IN IF Cardinality(S) <= m THEN S ELSE RandomSubset(m, S)
Case(g, m, a) == [op |-> "fdiff", grid |-> g, m |-> m, around |-> a]
Cases == {Case(g, m, a) : g \in Grids(1) \cup Grids(2), m \in 0..2, a \in Centres}
         \cup {Case(g, m, a) : g \in Sub(Grids(3), 150), m \in 0..3, a \in Sub(Centres, 3)}
         \cup {Case(g, m, a) : g \in Sub(Grids(4), 80), m \in {0, 1, 2, 3, 4}, a \in Sub(Centres, 2)}
         \cup {Case(g, m, a) : g \in Sub(Grids(5), 40), m \in {1, 2, 4, 5}, a \in Sub(Centres, 2)}
         \cup {Case(g, 2, TSym("a")) : g \in Sub(Grids(3), 20)}
ASSUME PrintT(<<"cases", Cardinality(Cases)>>)
ASSUME ndJsonSerialize(IOEnv.OUT, SetToSeq(Cases))
VARIABLE dummy
Init == dummy = 0
Next == UNCHANGED dummy
=============================================================================
