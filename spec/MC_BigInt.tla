---- MODULE MC_BigInt ----
EXTENDS BigInt, TLC
R == -40..40
S == {0, 1, 2, 9999, 10000, 10001, 99999999, 100000000, 123456789, 2147483647}
FDivQ(a, b) == a \div b
FMod(a, b) == a % b
TwoTo64 == <<1616, 955, 737, 6744, 1844>>
Big1 == <<4321, 8765, 2109, 6543, 987>>
Big2 == <<1111, 2222, 3333>>
M61 == NSub(NPow(N2, 61), N1)
ASSUME PrintT(<<"2^64", NPow(N2, 64)>>) /\ NPow(N2, 64) = TwoTo64
ASSUME \A a \in S : NWell(NFromInt(a)) /\ NToInt(NFromInt(a)) = a /\ NFits(NFromInt(a))
ASSUME ~NFits(<<3648, 4748, 21>>) /\ NFits(<<3647, 4748, 21>>)
ASSUME \A a, b \in {0, 1, 7, 9999, 10000, 12345678, 99999999} : NToInt(NAdd(NFromInt(a), NFromInt(b))) = a + b
ASSUME \A a, b \in {0, 1, 7, 9999, 10000, 46340, 31337} : NToInt(NMul(NFromInt(a), NFromInt(b))) = a * b
ASSUME \A a \in S, b \in {1, 2, 7, 9999, 10000, 10001, 65536, 123456789} :
          LET d == NDivMod(NFromInt(a), NFromInt(b)) IN NToInt(d.q) = a \div b /\ NToInt(d.r) = a % b /\ NWell(d.q) /\ NWell(d.r)
ASSUME \A a \in R, b \in R \ {0} : LET f == ZDivF(ZFromInt(a), ZFromInt(b)) t == ZDivT(ZFromInt(a), ZFromInt(b)) c == ZDivC(ZFromInt(a), ZFromInt(b))
          IN /\ ZToInt(f.q) * b + ZToInt(f.r) = a /\ ZToInt(t.q) * b + ZToInt(t.r) = a /\ ZToInt(c.q) * b + ZToInt(c.r) = a
             /\ (b > 0 => ZToInt(f.q) = a \div b /\ ZToInt(f.r) = a % b)
             /\ (ZToInt(f.r) = 0 \/ (ZToInt(f.r) > 0) = (b > 0))
             /\ (ZToInt(t.r) = 0 \/ (ZToInt(t.r) > 0) = (a > 0))
             /\ (ZToInt(c.r) = 0 \/ (ZToInt(c.r) > 0) = (b < 0))
             /\ ZWell(f.q) /\ ZWell(f.r) /\ ZWell(c.q) /\ ZWell(c.r)
ASSUME \A a \in R, b \in R : ZToInt(ZAdd(ZFromInt(a), ZFromInt(b))) = a + b /\ ZToInt(ZMul(ZFromInt(a), ZFromInt(b))) = a * b /\ ZToInt(ZSub(ZFromInt(a), ZFromInt(b))) = a - b
             /\ ZCmp(ZFromInt(a), ZFromInt(b)) = (IF a < b THEN -1 ELSE IF a = b THEN 0 ELSE 1)
ASSUME LET p == NMul(Big1, Big2) d == NDivMod(NAdd(p, <<5, 7>>), Big2) IN d.q = Big1 /\ d.r = <<5, 7>> /\ NDivMod(p, Big1).q = Big2 /\ NDivMod(p, Big1).r = <<>>
ASSUME NGcd(NMul(Big1, <<6, 1>>), NMul(Big1, <<35, 2>>)) = NMul(Big1, NGcd(<<6, 1>>, <<35, 2>>))
ASSUME NPowMod(<<3>>, <<321>>, <<7, 0, 1>>) = NMod(NPow(<<3>>, 321), <<7, 0, 1>>)
ASSUME NIsRoot(NPow(<<7, 3>>, 5), NAdd(NPow(NPow(<<7, 3>>, 5), 3), <<9999, 9999>>), 3)
ASSUME NTrailingZeros(TwoTo64) = 64 /\ NHex(TwoTo64) = "10000000000000000" /\ NHex(<<255>>) = "ff"
ASSUME NAnd(<<12>>, <<10>>) = <<8>> /\ NAnd(TwoTo64, NSub(TwoTo64, N1)) = <<>> /\ NAnd(NAdd(TwoTo64, <<5>>), <<7>>) = <<5>>
ASSUME PrintT(<<"M61", M61>>)
ASSUME PrintT(<<"lucas M61", LucasPrime(M61, <<2, 3, 3, 5, 5, 7, 11, 13, 31, 41, 61, 151, 331, 1321>>, <<2, 37>>)>>)
ASSUME LucasPrime(<<7, 0, 10>>, <<2, 3, 5>>, <<2>>) \in {"yes", "unk"}
ASSUME ZPowMod(ZFromInt(-3), ZFromInt(5), ZFromInt(-7)) = ZFromInt((-243) % 7)
VARIABLE x
Init == x = 0
Next == UNCHANGED x
====
