------------------------------- MODULE MC_C34 -------------------------------
(* Cases for C34: property queries on expressions under assumption sets.    *)
EXTENDS Integers, Sequences, FiniteSets, TLC, Json, IOUtils, SequencesExt, Randomization, Term

Thorough == "TIER" \in DOMAIN IOEnv /\ IOEnv.TIER = "thorough"
x == TSym("x")
y == TSym("y")
z == TSym("z")
B(k, a, b) == TOp(k, <<a, b>>)
U(k, a) == TOp(k, <<a>>)
In(s, set) == TOp("contains", <<s, TOp(set, <<>>)>>)
Asm == [ none |-> <<<<>>, "xany">>,
         real |-> <<<<In(x, "Reals")>>, "xreal">>,
         pos |-> <<<<B("Lt", TInt(0), x)>>, "pos">>,
         neg |-> <<<<B("Lt", x, TInt(0))>>, "xneg">>,
         nonneg |-> <<<<B("Le", TInt(0), x)>>, "xnonneg">>,
         nonpos |-> <<<<B("Le", x, TInt(0))>>, "xnonpos">>,
         int |-> <<<<In(x, "Integers")>>, "xint">>,
         posint |-> <<<<In(x, "Integers"), B("Lt", TInt(0), x)>>, "xposint">>,
         nonzero |-> <<<<B("Ne", x, TInt(0))>>, "xnonzero">>,
         rat |-> <<<<In(x, "Rationals")>>, "xrat">>,
         posy |-> <<<<B("Lt", TInt(0), x), B("Lt", TInt(0), y), In(z, "Reals")>>, "pos">>,
         realy |-> <<<<In(x, "Reals"), B("Lt", TInt(0), y), In(z, "Reals")>>, "xreal">>,
         xynonneg |-> <<<<B("Le", TInt(0), x), B("Le", TInt(0), y), B("Le", TInt(0), z)>>, "xynonneg">>,
         xynonpos |-> <<<<B("Le", x, TInt(0)), B("Le", y, TInt(0)), B("Le", z, TInt(0))>>, "xynonpos">>,
         xnonnegynonpos |-> <<<<B("Le", TInt(0), x), B("Le", y, TInt(0))>>, "xnonnegynonpos">>,
         xyzero |-> <<<<B("Eq", x, TInt(0)), B("Eq", y, TInt(0))>>, "xyzero">> ]
Nums == {TInt(0), TInt(1), TInt(-1), TInt(2), TInt(-3), TInt(4), TRat(1, 2), TRat(-2, 3), TI, TComplex(TInt(1), TInt(-2)), TConst("pi"), TConst("E"),
         TInf(1), TInf(-1), TInf(0), TNaN, U("sqrt", TInt(2)), U("sqrt", TInt(-2)), B("pow", TInt(-8), TRat(1, 3)), B("mul", TInt(2), TConst("pi")),
         B("add", TInt(1), TConst("pi")), B("sub", TInt(3), TConst("pi")), B("mul", TI, TConst("pi")), U("exp", TInt(2)), U("log", TInt(2)),
         U("sin", TInt(1)), U("cos", B("div", TConst("pi"), TInt(3))), B("pow", TInt(2), TRat(1, 3)), B("add", U("sqrt", TInt(2)), TInt(1)),
         B("sub", U("sqrt", TInt(2)), TInt(2)), TDbl(1, 1, -1), TDbl(-1, 3, 0), TDblZero(1), U("exp", B("mul", TI, TConst("pi")))}
A1 == {x, y, U("neg", x), B("mul", TInt(2), x), B("mul", TInt(-3), x), B("mul", TRat(1, 2), x), B("add", x, TInt(1)), B("sub", x, TInt(1)), B("sub", TInt(1), x),
       B("pow", x, TInt(2)), B("pow", x, TInt(3)), B("pow", x, TInt(-1)), B("pow", x, TInt(-2)), B("pow", x, TRat(1, 2)), B("pow", x, TRat(1, 3)),
       B("mul", x, y), B("add", x, y), B("sub", x, y), B("div", x, y), B("pow", x, y), B("pow", y, x), B("pow", TInt(2), x), B("pow", TRat(1, 2), x),
       B("mul", TI, x), B("add", x, TI), B("add", B("pow", x, TInt(2)), TInt(1)), B("sub", B("pow", x, TInt(2)), TInt(1)), U("neg", B("pow", x, TInt(2))),
       B("add", B("pow", x, TInt(2)), B("pow", y, TInt(2))), B("add", B("pow", x, TInt(2)), x), B("mul", x, B("add", x, TInt(1))),
       B("add", B("mul", x, y), TInt(1)), B("mul", TInt(2), B("mul", x, y)), B("add", x, TConst("pi")), B("mul", x, TConst("pi")), B("add", x, TRat(1, 2)),
       B("pow", B("add", x, y), TInt(2)), B("add", x, B("mul", TInt(3), y)), B("sub", U("neg", x), B("mul", TInt(2), y)), TOp("add", <<x, y, z>>), B("sub", B("mul", TInt(2), x), y), B("pow", B("add", x, TInt(1)), TInt(-1)), B("mul", B("pow", x, TInt(2)), B("pow", y, TInt(-1))), B("add", x, z), B("mul", x, z)}
F1 == {"abs", "sign", "floor", "ceiling", "conjugate", "exp", "log", "sin", "cos", "tan", "sqrt", "sinh", "cosh", "asin", "atan", "gamma", "erf"}
A2 == {U(f, a) : f \in F1, a \in {x, y, U("neg", x), B("mul", TInt(2), x), B("add", x, TInt(1)), B("pow", x, TInt(2)), B("mul", x, y), B("mul", TI, x)}}
      \cup {TOp(m, <<a, b>>) : m \in {"max", "min"}, a \in {x, U("neg", x), B("pow", x, TInt(2))}, b \in {TInt(0), TInt(1), y, TInt(-1)}}
      \cup {B("add", U(f, x), TInt(1)) : f \in F1} \cup {B("mul", U(f, x), U(g, x)) : f, g \in {"abs", "exp", "sin", "sign"}}
      \cup {B("pow", U(f, x), TInt(2)) : f \in F1} \cup {B("kronecker_delta", x, y), B("atan2", x, y), B("add", U("abs", x), U("abs", y)),
            B("add", U("exp", x), U("exp", y)), B("mul", U("exp", x), y), B("pow", U("abs", x), y), U("exp", B("mul", TI, x))}
Keep(S, n) == IF Thorough \/ Cardinality(S) <= n THEN S ELSE RandomSubset(n, S)
Mk(e, a, vars) == [op |-> "query", e |-> e, st |-> Asm[a][1], envs |-> Asm[a][2], vars |-> vars]
Cases == {Mk(e, "none", <<>>) : e \in Nums}
         \cup {Mk(e, a, vs) : e \in A1 \cup Keep(A2, 150), a \in DOMAIN Asm, vs \in {<<>>}}
         \cup {Mk(e, "none", vs) : e \in A1 \cup Keep(A2, 60), vs \in {<<x>>, <<y>>, <<x, y>>}}
ASSUME PrintT(<<"cases", Cardinality(Cases)>>)
ASSUME ndJsonSerialize(IOEnv.OUT, SetToSeq(Cases))
VARIABLE dummy
Init == dummy = 0
Next == UNCHANGED dummy
=============================================================================
