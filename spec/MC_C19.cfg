INIT Init
NEXT Next
