------------------------------- MODULE MC_C18 -------------------------------
(* Cases for C18: sequences of inputs for one parser object.  Inputs are    *)
(* all token strings up to a length bound over an alphabet of grammar       *)
(* tokens, separators and junk (incl. bytes that are not ASCII), i.e. every *)
(* well-formed and ill-formed short input; each parser object receives a    *)
(* run of consecutive inputs so that failed parses precede valid ones.      *)
EXTENDS Integers, Sequences, FiniteSets, TLC, Json, IOUtils, SequencesExt, Randomization
Thorough == "TIER" \in DOMAIN IOEnv /\ IOEnv.TIER = "thorough"
\* a token: text followed by raw bytes
TS(s) == [s |-> s, b |-> <<>>]
TB(b) == [s |-> "", b |-> b]
Tok == <<TS("x"), TS("y1"), TS("2"), TS("1.5"), TS("1e"), TS("+"), TS("-"), TS("*"), TS("/"), TS("**"), TS("^"), TS("("), TS(")"), TS(","), TS("sin"), TS(" "), TS("<"), TS("=="),
         TS("."), TS("@"), TS("&"), TS("~"), TS("|"), TS("e"), TS("I"), TS("010"), TB(<<255>>), TB(<<195, 40>>), TB(<<0>>), TS("pi")>>
NT == Len(Tok)
L == IF Thorough THEN 4 ELSE 3
\* the k-th token string of length n (digits of k in base NT)
Str(n, k) == [i \in 1..n |-> Tok[((k \div (NT ^ (i - 1))) % NT) + 1]]
Count(n) == NT ^ n
\* runs of R consecutive strings of length n
R == 8
Runs(n) == {[j \in 1..R |-> Str(n, (r * R + j - 1) % Count(n))] : r \in 0..((Count(n) + R - 1) \div R - 1)}
Keep(S, m) == IF Thorough \/ Cardinality(S) <= m THEN S ELSE RandomSubset(m, S)
Long == {<<TS("("), TS("("), TS("("), TS("("), TS("("), TS("x"), TS(")"), TS(")"), TS(")"), TS(")"), TS(")")>>, <<TS("sin"), TS("("), TS("sin"), TS("("), TS("sin"), TS("("), TS("x"), TS(")"), TS(")"), TS(")")>>, <<TS("x"), TS("+"), TS("x"), TS("+"), TS("x"), TS("+"), TS("x"), TS("+"), TS("x"), TS("+"), TS("x")>>,
         <<TS("("), TS("("), TS("("), TS("("), TS("("), TS("("), TS("("), TS("(")>>, <<TS(")"), TS(")"), TS(")"), TS(")")>>, <<TS("x"), TS("**"), TS("x"), TS("**"), TS("x"), TS("**"), TS("x"), TS("**"), TS("2")>>, <<TS("-"), TS("-"), TS("-"), TS("-"), TS("-"), TS("x")>>,
         <<TS("1e"), TS("1e"), TS("1e")>>, <<TS("2"), TS("x"), TS("y1"), TS("("), TS("3"), TS(")")>>, <<>>}
Cases == {[op |-> "parsetoks", seqs |-> s] : s \in Runs(1) \cup Runs(2) \cup Keep(Runs(3), 500)}
         \cup (IF Thorough THEN {[op |-> "parsetoks", seqs |-> s] : s \in RandomSubset(8000, Runs(4))} ELSE {})
         \cup {[op |-> "parsetoks", seqs |-> <<a, b, c, a>>] : a, b, c \in Long}
ASSUME PrintT(<<"cases", Cardinality(Cases)>>)
ASSUME ndJsonSerialize(IOEnv.OUT, SetToSeq(Cases))
VARIABLE dummy
Init == dummy = 0
Next == UNCHANGED dummy
=============================================================================
