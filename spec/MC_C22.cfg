INIT Init
NEXT Next
