------------------------------- MODULE MC_C31 -------------------------------
(* Cases for C31: expressions analytic at 0 built from arithmetic and the   *)
(* functions the series module supports.                                    *)
EXTENDS Integers, Sequences, FiniteSets, TLC, Json, IOUtils, SequencesExt, Randomization, Term
Thorough == "TIER" \in DOMAIN IOEnv /\ IOEnv.TIER = "thorough"
x == TSym("x")
B(k, a, b) == TOp(k, <<a, b>>)
U(k, a) == TOp(k, <<a>>)
\* (the thorough tier samples three times as many of each operand set)
Sub(S, n) == LET m == IF Thorough THEN 3 * n ELSE n IN IF Cardinality(S) <= m THEN S ELSE RandomSubset(m, S)
\* inner arguments vanishing at 0
U0 == {x, B("mul", TInt(2), x), U("neg", x), B("pow", x, TInt(2)), B("add", x, B("pow", x, TInt(2))), B("div", x, TInt(2)), B("mul", x, B("add", x, TInt(1))),
       B("sub", B("pow", x, TInt(3)), x), B("div", x, B("add", TInt(1), x))}
F0 == {"sin", "cos", "tan", "sec", "sinh", "cosh", "tanh", "exp", "asin", "acos", "atan", "asinh", "atanh", "lambertw"}
L1 == {U(f, u) : f \in F0, u \in U0}
      \cup {U("log", B("add", TInt(1), u)) : u \in U0} \cup {U("sqrt", B("add", TInt(1), u)) : u \in U0} \cup {U("sqrt", B("add", TInt(4), u)) : u \in U0}
      \cup {B("pow", B("add", TInt(1), u), a) : u \in U0, a \in {TInt(-1), TInt(-2), TInt(3), TRat(1, 2), TRat(-1, 2), TRat(1, 3), TRat(3, 2), TRat(-2, 3)}}
      \cup {B("div", TInt(1), B("sub", TInt(1), u)) : u \in U0} \cup {B("pow", B("add", TInt(2), u), TInt(-1)) : u \in U0}
      \cup {U("cos", B("add", u, TConst("pi"))) : u \in {x, B("mul", TInt(2), x)}} \cup {U("sin", B("add", x, B("div", TConst("pi"), TInt(6)))), U("exp", B("add", TInt(1), x)),
            U("log", B("add", TInt(2), x)), U("atan", B("add", TInt(1), x)), U("tan", B("add", x, B("div", TConst("pi"), TInt(4))))}
L2 == {B("mul", a, b) : a, b \in Sub(L1, 14)} \cup {B("add", a, b) : a, b \in Sub(L1, 10)} \cup {B("div", a, U("cos", x)) : a \in Sub(L1, 20)}
      \cup {U(f, B("sub", a, TInt(1))) : f \in {"sin", "exp", "atan"}, a \in {U("cos", x), U("exp", x), U("sqrt", B("add", TInt(1), x)), B("div", TInt(1), B("sub", TInt(1), x))}}
      \cup {U(f, U(g, x)) : f, g \in {"sin", "tan", "exp", "sinh", "atan", "asin", "tanh"}} \cup {B("pow", U("cos", x), a) : a \in {TInt(-1), TInt(2), TRat(1, 2), TInt(-2)}}
      \cup {U("exp", U("neg", B("pow", x, TInt(2)))), U("log", U("cos", x)), U("log", B("div", B("add", TInt(1), x), B("sub", TInt(1), x))), B("mul", B("pow", x, TInt(2)), U("sin", x)),
            B("div", U("sin", x), B("add", TInt(1), U("sin", x))), B("div", B("sub", U("exp", x), TInt(1)), B("add", U("exp", x), TInt(1)))}
\* always present: every function of an argument without / with a linear term, at orders that end on odd and even powers
Core == {U(f, u) : f \in F0, u \in {B("pow", x, TInt(2)), B("pow", x, TInt(3)), B("add", x, B("pow", x, TInt(2)))}}
Cases == {[op |-> "series", e |-> e, x |-> "x", n |-> n] : e \in Core, n \in {3, 4, 7}}
         \cup {[op |-> "series", e |-> e, x |-> "x", n |-> n] : e \in Sub(L1, 110), n \in {1, 2, 5, 7}} \cup {[op |-> "series", e |-> e, x |-> "x", n |-> 6] : e \in Sub(L2, 120)}
ASSUME PrintT(<<"cases", Cardinality(Cases)>>)
ASSUME ndJsonSerialize(IOEnv.OUT, SetToSeq(Cases))
VARIABLE dummy
Init == dummy = 0
Next == UNCHANGED dummy
=============================================================================
