INIT Init
NEXT Next
