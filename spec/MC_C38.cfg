INIT Init
NEXT Next
