------------------------------- MODULE MC_C12 -------------------------------
(* Cases for C12: number expressions for the double-precision evaluators.   *)
EXTENDS Integers, Sequences, FiniteSets, TLC, Json, IOUtils, SequencesExt, Randomization, Term
Thorough == "TIER" \in DOMAIN IOEnv /\ IOEnv.TIER = "thorough"
\* (the thorough tier samples three times as many of each operand set)
Sub(S, n) == LET m == IF Thorough THEN 3 * n ELSE n IN IF Cardinality(S) <= m THEN S ELSE RandomSubset(m, S)
B(k, a, b) == TOp(k, <<a, b>>)
U(k, a) == TOp(k, <<a>>)
Q == {TInt(0), TInt(1), TInt(-1), TInt(2), TInt(3), TInt(-7), TInt(10), TRat(1, 2), TRat(1, 3), TRat(-2, 3), TRat(22, 7), TRat(5, 4), TRat(-7, 5), TRat(1, 10), TRat(100, 3)}
Irr == {TConst("pi"), TConst("E"), TConst("EulerGamma"), TConst("Catalan"), TConst("GoldenRatio"), U("sqrt", TInt(2)), B("pow", TInt(2), TRat(1, 3)), U("sqrt", TRat(1, 3)), TDbl(1, 3, -1), TDbl(-1, 5, -3)}
F1 == {"sin", "cos", "tan", "cot", "sec", "csc", "asin", "acos", "atan", "acot", "asec", "acsc", "sinh", "cosh", "tanh", "coth", "sech", "csch", "asinh", "acosh", "atanh", "acoth", "asech", "acsch",
       "exp", "log", "sqrt", "cbrt", "abs", "sign", "floor", "ceiling", "truncate", "gamma", "loggamma", "erf", "erfc"}
F2 == {"atan2", "beta", "max", "min", "pow", "add", "sub", "mul", "div"}
\* exact rational results
ExactQ == Q \cup {B(k, a, b) : k \in {"add", "sub", "mul", "div"}, a, b \in Q} \cup {B("pow", a, n) : a \in Q, n \in {TInt(2), TInt(3), TInt(-1), TInt(-2), TInt(0)}}
         \cup {U(f, a) : f \in {"abs", "sign", "floor", "ceiling", "truncate"}, a \in Q} \cup {B(f, a, b) : f \in {"max", "min"}, a, b \in Q}
         \cup {B("pow", TInt(8), TRat(1, 3)), B("pow", TRat(9, 4), TRat(1, 2)), B("pow", TRat(27, 8), TRat(-2, 3)), U("sqrt", TInt(16)), U("exp", TInt(0)), U("log", TInt(1)), U("gamma", TInt(5)),
               U("sin", TInt(0)), U("cos", TInt(0)), U("atan", TInt(0)), U("cos", TConst("pi")), U("sin", B("div", TConst("pi"), TInt(6))), U("tan", B("div", TConst("pi"), TInt(4))),
               B("add", TRat(1, 3), B("mul", TRat(2, 3), TRat(5, 7))), B("div", B("add", TInt(1), TRat(1, 3)), B("sub", TInt(2), TRat(1, 7))), U("erf", TInt(0)), U("asin", TInt(0)), U("acos", TInt(1))}
\* exact rational results whose numerator or denominator exceeds the range of a double (oracle: module BigRat)
P(a, n) == B("pow", TInt(a), TInt(n))
Huge0 == {B("div", P(3, 700), P(2, 1100)), B("div", P(2, 1100), P(3, 700)), B("div", B("add", U("gamma", TInt(201)), TInt(1)), U("gamma", TInt(201))),
          B("div", B("add", P(10, 400), TInt(7)), B("mul", TInt(3), P(10, 399))), B("div", P(7, 400), B("add", P(7, 400), TInt(1))), B("div", B("sub", P(5, 500), TInt(1)), P(11, 330)),
          P(3, 600), P(2, 1023), B("sub", P(2, 1000), TInt(1)), P(2, -1000), B("div", TInt(1), P(3, 600)), B("div", P(10, 308), TInt(7)), B("div", TInt(7), P(10, 300)),
          B("div", U("gamma", TInt(171)), U("gamma", TInt(169))), B("div", B("add", P(2, 2000), TInt(1)), B("sub", P(2, 2001), TInt(1)))}
Huge == Huge0 \cup {U("neg", h) : h \in Huge0} \cup {B("add", TInt(1), h) : h \in Huge0} \cup {B("mul", TRat(2, 3), h) : h \in Huge0}
HugeIn == {B("add", U("sin", TInt(1)), B("mul", h, U("cos", TInt(2)))) : h \in Huge0} \cup {U("sqrt", h) : h \in Huge0} \cup {U("atan", h) : h \in Huge0}
\* agreement only
Gen == Irr \cup {U(f, a) : f \in F1, a \in Sub(Q \cup Irr, 12)} \cup {B(f, a, b) : f \in F2, a, b \in Sub(Q \cup Irr, 8)}
Deep == {B(k, a, b) : k \in {"add", "mul", "div", "pow", "sub"}, a \in Sub(Gen, 40), b \in Sub(Gen \cup ExactQ, 25)} \cup {U(f, a) : f \in Sub(F1, 12), a \in Sub(Gen, 40)}
Cases == {[op |-> "evald", t |-> t] : t \in ExactQ \cup Huge \cup HugeIn \cup Gen \cup Deep}
ASSUME PrintT(<<"cases", Cardinality(Cases)>>)
ASSUME ndJsonSerialize(IOEnv.OUT, SetToSeq(Cases))
VARIABLE dummy
Init == dummy = 0
Next == UNCHANGED dummy
=============================================================================
