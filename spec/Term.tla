-------------------------------- MODULE Term --------------------------------
(* Abstract syntax shared by recipes (what was asked of the API: lower-case *)
(* operation kinds) and dumps (what the API returned: class kinds), and the *)
(* denotational semantics Val(term, env).                                   *)
(* A term is a record [k, a, s, n, d]: kind, children, string and two       *)
(* integer payloads.                                                        *)
EXTENDS Integers, Sequences, FiniteSets, Rat, ModP, ValCore, Func, SetsAlg

T(k, a, s, n, d) == [k |-> k, a |-> a, s |-> s, n |-> n, d |-> d]
TInt(n) == T("Int", <<>>, "", n, 1)
TRat(n, d) == IF d = 1 THEN TInt(n) ELSE T("Rat", <<>>, "", n, d)
TSym(s) == T("Sym", <<>>, s, 0, 0)
TConst(s) == T("Const", <<>>, s, 0, 0)
TOp(k, a) == T(k, a, "", 0, 0)
TI == T("Complex", <<TInt(0), TInt(1)>>, "", 0, 0)
TComplex(re, im) == T("Complex", <<re, im>>, "", 0, 0)
TInf(dir) == T("Inf", <<TInt(dir)>>, "", 0, 0)
TNaN == T("NaN", <<>>, "", 0, 0)
TFn(name, a) == T("fn", a, name, 0, 0)
TDbl(sign, mant, e) == T("Dbl", <<TInt(0), TInt(mant), TInt(e)>>, "fin", sign, 0)   \* sign*mant*2^e, mant odd
TDblZero(sign) == T("Dbl", <<>>, "zero", sign, 0)
TCDbl(re, im) == T("CDbl", <<re, im>>, "", 0, 0)

\* double dump -> value: exact when it is a small dyadic, else unknown
Pow2(k) == RPowInt(<<2, 1>>, k)
DblVal(t) ==
    CASE t.s = "nan" -> VNAN
      [] t.s = "inf" -> (IF t.n > 0 THEN VOO ELSE VNOO)
      [] t.s = "zero" -> VEx(R0, R0, R0, 1)
      [] OTHER -> LET hi == t.a[1].n lo == t.a[2].n e == t.a[3].n
                  IN IF hi # 0 \/ IAbs(e) > 14 THEN VUndef
                     ELSE VEx(RMul(RMk(t.n * lo, 1), Pow2(e)), R0, R0, 1)

ConstVal(s) ==
    CASE s = "pi" -> VPi
      [] s = "E" -> VRes(CE, 0)
      [] s = "EulerGamma" -> VRes(CEG, 0)
      [] s = "Catalan" -> VRes(CCAT, 0)
      [] s = "GoldenRatio" -> VRes(CGR, 0)
      [] OTHER -> VUndef

\* truth value of a < b / a <= b on comparable real values
RelVal(rel, a, b) ==
    LET c == RealCmp(a, b)
    IN IF c = "unk" THEN VUndef
       ELSE VBool(IF rel = "lt" THEN c = "lt" ELSE c \in {"lt", "eq"})

\* three-valued logic on values: VBool or VUndef
NotVal(v) == IF v.t = "bool" THEN VBool(~v.b) ELSE VUndef
\* (equal residues do not prove equality: "true" only for exactly known values)
EqVal(a, b) == LET c == Cmp3(a, b)
               IN IF a.t \in {"bool", "undef"} \/ b.t \in {"bool", "undef"} THEN VUndef
                  ELSE IF c = "ne" THEN VBool(FALSE)
                  ELSE IF c = "eq" /\ (~IsNum(a) \/ (Exact(a) /\ Exact(b))) THEN VBool(TRUE)
                  ELSE VUndef
AndVals(vs) == IF \E i \in 1..Len(vs) : vs[i].t = "bool" /\ ~vs[i].b THEN VBool(FALSE)
               ELSE IF \A i \in 1..Len(vs) : vs[i].t = "bool" THEN VBool(TRUE)
               ELSE VUndef

\* exclusive or of a sequence of truth values: odd number of true ones
XorVals(vs) == IF \E i \in 1..Len(vs) : vs[i].t # "bool" THEN VUndef
               ELSE VBool(Cardinality({i \in 1..Len(vs) : vs[i].b}) % 2 = 1)

\* ------------------------------------------------- symbolic differentiation
\* D(t, x): the derivative of a recipe with respect to the symbol named x, as a recipe
\* (textbook rules: linearity, product, quotient, general power, chain rule).  Kinds without
\* a rule give the term TUnk, whose value is undefined (the comparison is then not decisive).
TUnk == T("unknown", <<>>, "", 0, 0)
RECURSIVE Occurs(_, _), OccursSeq(_, _, _)
OccursSeq(a, x, i) == IF i > Len(a) THEN FALSE ELSE Occurs(a[i], x) \/ OccursSeq(a, x, i + 1)
Occurs(t, x) == IF t.k = "Sym" THEN t.s = x ELSE IF t.k = "unknown" THEN TRUE ELSE OccursSeq(t.a, x, 1)
TAdd2(a, b) == TOp("add", <<a, b>>)
TMul2(a, b) == TOp("mul", <<a, b>>)
TMul3(a, b, c) == TOp("mul", <<a, b, c>>)
TSub2(a, b) == TOp("sub", <<a, b>>)
TDiv2(a, b) == TOp("div", <<a, b>>)
TNeg1(a) == TOp("neg", <<a>>)
TPow2(a, b) == TOp("pow", <<a, b>>)
TSq(a) == TPow2(a, TInt(2))
TF(name, a) == TOp(name, <<a>>)
RECURSIVE D(_, _), DProd(_, _, _)
\* product rule: sum over i of a[1]..a[i]'..a[n]
DProd(a, x, i) ==
    IF i > Len(a) THEN TInt(0)
    ELSE TAdd2(TOp("mul", [j \in 1..Len(a) |-> IF j = i THEN D(a[j], x) ELSE a[j]]), DProd(a, x, i + 1))
D(t, x) ==
    LET k == t.k
        f == t.a[1]
        g == t.a[2]
        df == D(t.a[1], x)
        dg == D(t.a[2], x)
    IN
    IF ~Occurs(t, x) THEN TInt(0)
    ELSE CASE k = "Sym" -> TInt(1)
      [] k \in {"add", "addv"} -> TOp("add", [i \in 1..Len(t.a) |-> D(t.a[i], x)])
      [] k \in {"mul", "mulv"} -> DProd(t.a, x, 1)
      [] k = "sub" -> TSub2(df, dg)
      [] k = "neg" -> TNeg1(df)
      [] k = "div" -> TDiv2(TSub2(TMul2(df, g), TMul2(f, dg)), TSq(g))
      [] k = "pow" -> (IF ~Occurs(g, x) THEN TMul3(g, TPow2(f, TSub2(g, TInt(1))), df)
                       ELSE IF ~Occurs(f, x) THEN TMul3(t, TF("log", f), dg)
                       ELSE TMul2(t, TAdd2(TMul2(dg, TF("log", f)), TDiv2(TMul2(g, df), f))))
      [] k = "sqrt" -> TDiv2(df, TMul2(TInt(2), t))
      [] k = "cbrt" -> TMul3(TRat(1, 3), TPow2(f, TRat(-2, 3)), df)
      [] k = "exp" -> TMul2(t, df)
      [] k = "log" -> TDiv2(df, f)
      [] k = "sin" -> TMul2(TF("cos", f), df)
      [] k = "cos" -> TNeg1(TMul2(TF("sin", f), df))
      [] k = "tan" -> TMul2(TAdd2(TInt(1), TSq(t)), df)
      [] k = "cot" -> TNeg1(TMul2(TAdd2(TInt(1), TSq(t)), df))
      [] k = "sec" -> TMul3(t, TF("tan", f), df)
      [] k = "csc" -> TNeg1(TMul3(t, TF("cot", f), df))
      [] k = "asin" -> TDiv2(df, TF("sqrt", TSub2(TInt(1), TSq(f))))
      [] k = "acos" -> TNeg1(TDiv2(df, TF("sqrt", TSub2(TInt(1), TSq(f)))))
      [] k = "atan" -> TDiv2(df, TAdd2(TInt(1), TSq(f)))
      [] k = "acot" -> TNeg1(TDiv2(df, TAdd2(TInt(1), TSq(f))))
      [] k = "asec" -> TDiv2(df, TMul2(TSq(f), TF("sqrt", TSub2(TInt(1), TPow2(f, TInt(-2))))))
      [] k = "acsc" -> TNeg1(TDiv2(df, TMul2(TSq(f), TF("sqrt", TSub2(TInt(1), TPow2(f, TInt(-2)))))))
      [] k = "sinh" -> TMul2(TF("cosh", f), df)
      [] k = "cosh" -> TMul2(TF("sinh", f), df)
      [] k = "tanh" -> TMul2(TSub2(TInt(1), TSq(t)), df)
      [] k = "coth" -> TMul2(TSub2(TInt(1), TSq(t)), df)
      [] k = "sech" -> TNeg1(TMul3(t, TF("tanh", f), df))
      [] k = "csch" -> TNeg1(TMul3(t, TF("coth", f), df))
      [] k = "asinh" -> TDiv2(df, TF("sqrt", TAdd2(TSq(f), TInt(1))))
      \* principal branch: 1/(sqrt(f-1) sqrt(f+1)) off the cut (-oo, 1); on the cut the function has no derivative
      [] k = "acosh" -> TMul2(TF("offcut_acosh", f), TDiv2(df, TMul2(TF("sqrt", TSub2(f, TInt(1))), TF("sqrt", TAdd2(f, TInt(1))))))
      [] k = "atanh" -> TDiv2(df, TSub2(TInt(1), TSq(f)))
      [] k = "acoth" -> TDiv2(df, TSub2(TInt(1), TSq(f)))
      \* asech(f) = acosh(1/f)
      [] k = "asech" -> LET u == TDiv2(TInt(1), f)
                        IN TMul2(TF("offcut_acosh", u), TNeg1(TDiv2(df, TMul3(TSq(f), TF("sqrt", TSub2(u, TInt(1))), TF("sqrt", TAdd2(u, TInt(1)))))))
      [] k = "acsch" -> TNeg1(TDiv2(df, TMul2(TSq(f), TF("sqrt", TAdd2(TInt(1), TPow2(f, TInt(-2)))))))
      [] k = "erf" -> TMul3(TDiv2(TInt(2), TF("sqrt", TConst("pi"))), TF("exp", TNeg1(TSq(f))), df)
      [] k = "erfc" -> TNeg1(TMul3(TDiv2(TInt(2), TF("sqrt", TConst("pi"))), TF("exp", TNeg1(TSq(f))), df))
      [] k = "expand" -> df
      [] k = "diff" -> (IF g.k = "Sym" THEN D(D(f, g.s), x) ELSE TUnk)
      [] OTHER -> TUnk

RECURSIVE Val(_, _), SumVals(_, _, _), ProdVals(_, _, _), ValSeq(_, _), PwVal(_, _, _)
\* Piecewise: value of the first branch whose condition holds
PwVal(branches, env, i) ==
    IF i > Len(branches) THEN VUndef
    ELSE LET c == Val(branches[i][2], env)
         IN IF c.t # "bool" THEN VUndef
            ELSE IF c.b THEN Val(branches[i][1], env)
            ELSE PwVal(branches, env, i + 1)

ValSeq(a, env) == [i \in 1..Len(a) |-> Val(a[i], env)]
SumVals(a, env, i) == IF i > Len(a) THEN V0 ELSE VAdd(Val(a[i], env), SumVals(a, env, i + 1))
ProdVals(a, env, i) == IF i > Len(a) THEN V1 ELSE VMul(Val(a[i], env), ProdVals(a, env, i + 1))

\* env: function from symbol names to values
Val(t, env) ==
    LET k == t.k
        A(i) == Val(t.a[i], env)
    IN
    CASE k = "Int" -> VRat(RMk(t.n, 1))
      [] k = "Rat" -> (IF t.d = 0 THEN VUndef ELSE VRat(RMk(t.n, t.d)))
      [] k \in {"Big", "BigS", "BigRat"} -> VUndef
      [] k = "Complex" -> LET re == A(1) im == A(2)
                          IN IF ExactRat(re) /\ ExactRat(im) THEN VEx(re.re, im.re, R0, 0) ELSE VUndef
      [] k = "I" -> VI
      [] k = "Dbl" -> DblVal(t)
      [] k = "CDbl" -> LET re == DblVal(t.a[1]) im == DblVal(t.a[2])
                       IN IF ExactRat(re) /\ ExactRat(im) THEN VEx(re.re, im.re, R0, 1) ELSE VUndef
      [] k = "Sym" -> (IF t.s \in DOMAIN env THEN env[t.s] ELSE VUndef)
      [] k = "Const" -> ConstVal(t.s)
      [] k = "Inf" -> LET dir == IF Len(t.a) = 0 THEN t.n ELSE t.a[1].n
                      IN IF dir > 0 THEN VOO ELSE IF dir < 0 THEN VNOO ELSE VZOO
      [] k = "NaN" -> VNAN
      [] k = "True" -> VBool(TRUE)
      [] k = "False" -> VBool(FALSE)
      \* ---- recipes
      [] k \in {"add", "addv"} -> SumVals(t.a, env, 1)
      [] k \in {"mul", "mulv"} -> ProdVals(t.a, env, 1)
      [] k = "sub" -> VSub(A(1), A(2))
      [] k = "div" -> VDiv(A(1), A(2))
      [] k = "neg" -> VNeg(A(1))
      [] k = "pow" -> VPow(A(1), A(2))
      [] k = "sqrt" -> VPow(A(1), VRat(<<1, 2>>))
      [] k = "cbrt" -> VPow(A(1), VRat(<<1, 3>>))
      [] k = "exp" -> VExp(A(1))
      \* ---- dumps
      [] k = "Pair" -> VMul(A(1), A(2))                  \* Add dictionary entry
      [] k = "Add" -> SumVals(t.a, env, 1)
      [] k = "Mul" -> VMul(A(1), ProdVals([i \in 1..(Len(t.a) - 1) |->
                                 T("Pow", t.a[i + 1].a, "", 0, 0)], env, 1))
      [] k = "Pow" -> (IF t.a[1].k = "Const" /\ t.a[1].s = "E" THEN VExp(A(2)) ELSE VPow(A(1), A(2)))
      \* simultaneous substitution of symbols: a = <<e, key1, value1, key2, value2, ...>>
      [] k \in {"subs", "xreplace", "msubs", "ssubs"} ->
           LET n == (Len(t.a) - 1) \div 2
               keys == {t.a[2 * i].s : i \in 1..n}
               symbolic == \A i \in 1..n : t.a[2 * i].k = "Sym"
               valOf(s) == LET i == CHOOSE i \in 1..n : t.a[2 * i].s = s IN Val(t.a[2 * i + 1], env)
               env2 == [s \in (DOMAIN env) \cup keys |-> IF s \in keys THEN valOf(s) ELSE env[s]]
           IN IF symbolic THEN Val(t.a[1], env2) ELSE VUndef
      [] k = "expand" -> A(1)
      \* value-preserving rewritings
      [] k \in {"rewrite_as_exp", "rewrite_as_sin", "rewrite_as_cos", "expand_as_exp", "trig_to_sqrt", "simplify", "refine"} -> A(1)
      \* 1 off the branch cut (-oo, 1) of acosh, undefined on it (and where that cannot be decided)
      [] k = "offcut_acosh" -> LET v == A(1)
                               IN IF ~(IsNum(v) /\ Exact(v)) THEN VUndef
                                  ELSE IF v.im = R0 /\ v.pi = R0 /\ v.ip = R0 /\ RLess(v.re, R1) THEN VUndef
                                  ELSE IF v.im = R0 /\ v.ip = R0 /\ v.pi # R0 THEN VUndef
                                  ELSE V1
      [] k = "diff" -> (IF t.a[2].k = "Sym" THEN Val(D(t.a[1], t.a[2].s), env) ELSE VUndef)
      [] k = "UnevaluatedExpr" -> A(1)
      [] k = "unevaluated_expr" -> A(1)
      \* ---- functions of one argument (recipe op and dump class)
      [] k \in DOMAIN Fun1Name -> Fun1(Fun1Name[k], A(1))
      [] k \in DOMAIN Fun2Name -> Fun2(Fun2Name[k], A(1), A(2))
      \* ---- relations between real values (recipe ops and dumped classes)
      [] k \in {"Lt", "StrictLessThan"} -> RelVal("lt", A(1), A(2))
      [] k \in {"Le", "LessThan"} -> RelVal("le", A(1), A(2))
      [] k = "Gt" -> RelVal("lt", A(2), A(1))
      [] k = "Ge" -> RelVal("le", A(2), A(1))
      [] k \in {"Eq", "Equality"} -> EqVal(A(1), A(2))
      [] k \in {"Ne", "Unequality"} -> NotVal(EqVal(A(1), A(2)))
      [] k \in {"not", "Not"} -> NotVal(A(1))
      [] k \in {"and", "And"} -> AndVals(ValSeq(t.a, env))
      [] k \in {"or", "Or"} -> NotVal(AndVals([i \in 1..Len(t.a) |-> NotVal(Val(t.a[i], env))]))
      [] k \in {"nand"} -> NotVal(AndVals(ValSeq(t.a, env)))
      [] k \in {"nor"} -> AndVals([i \in 1..Len(t.a) |-> NotVal(Val(t.a[i], env))])
      [] k \in {"xor", "Xor"} -> XorVals(ValSeq(t.a, env))
      [] k = "xnor" -> NotVal(XorVals(ValSeq(t.a, env)))
      \* membership of a real rational value in a set term (module SetsAlg)
      [] k \in {"contains", "Contains"} ->
           LET v == A(1)
           IN IF ~(IsNum(v) /\ ExactRat(v)) THEN VUndef
              ELSE LET m == Mem(t.a[2], Probe(v.re, IF v.re[2] = 1 THEN "int" ELSE "rat"))
                   IN IF m = "T" THEN VBool(TRUE) ELSE IF m = "F" THEN VBool(FALSE) ELSE VUndef
      \* first branch whose condition is true; recipe <<e1, c1, e2, c2, ...>>, dump <<Pair(e1, c1), ...>>
      [] k = "piecewise" -> PwVal([i \in 1..(Len(t.a) \div 2) |-> <<t.a[2 * i - 1], t.a[2 * i]>>], env, 1)
      [] k = "Piecewise" -> PwVal([i \in 1..Len(t.a) |-> <<t.a[i].a[1], t.a[i].a[2]>>], env, 1)
      [] k \in {"max", "Max"} -> FunMax(ValSeq(t.a, env))
      [] k \in {"min", "Min"} -> FunMin(ValSeq(t.a, env))
      [] OTHER -> VUndef

\* ------------------------------------------------------------ term utilities
RECURSIVE TermSize(_), SumSizes(_, _)
SumSizes(a, i) == IF i > Len(a) THEN 0 ELSE TermSize(a[i]) + SumSizes(a, i + 1)
TermSize(t) == 1 + SumSizes(t.a, 1)

RECURSIVE Subterms(_), SubtermsSeq(_, _)
SubtermsSeq(a, i) == IF i > Len(a) THEN {} ELSE Subterms(a[i]) \cup SubtermsSeq(a, i + 1)
Subterms(t) == {t} \cup SubtermsSeq(t.a, 1)
=============================================================================
